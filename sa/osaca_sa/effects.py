"""E4 + E5: name-resolved call graph and a shared-storage (aliasing depth) analysis.

Abstract value of an expression = the smallest number of container levels one has to descend
from it to reach *shared storage* (model data reachable from MachineModel._data, the object of a
mutable default argument, a mutable class attribute or module global):
    0    the object itself is shared            (mutating it in place corrupts later analyses)
    1    fresh container whose elements are shared   (e.g. `.copy()`, `list(x)`, a comprehension)
    k    ...
    INF  fresh / immutable all the way down
Attribute, subscript and iteration descend one level (max(d-1, 0)); shallow-copy idioms give
max(d, 1); deepcopy gives INF; a literal display keeps per-position labels. The analysis is
flow-insensitive per function (all definitions of a local are joined), field-based across the
repository for attributes stored outside constructors, and uses per-function summaries
("returns label", "mutates parameter i in place") iterated to a fixpoint.
"""
import ast

import networkx as nx

from . import pm
from .pm import U
from .srcmodel import parent

INF = 99

# attribute names that hold immutable values on every class of the package (numbers, strings,
# booleans, None); the numeric ones of model entries are validated on all shipped data by C15-D1
IMMUTABLE_FIELDS = {
    "latency", "throughput", "latency_wo_load", "latency_cp", "latency_lcd", "line_number", "line",
    "name", "prefix", "mnemonic", "shape", "lanes", "scale", "width", "regtype", "predication",
    "mask", "zeroing", "imd_type", "ccode", "comment", "label", "uops", "operation", "timed_out",
    "breaks_dependency_on_equal_operands", "source", "destination", "isa", "src", "dst",
    "_isa", "_arch", "_path", "_filename", "relocation", "type_id", "target", "policy", "pid",
    "pre_indexed", "post_indexed", "indexed_val", "identifier", "shift_op",
}
SHALLOW_COPY_CALLS = {"list", "tuple", "set", "frozenset", "sorted", "dict", "reversed", "chain",
                      "zip", "enumerate", "filter", "map", "copy", "OrderedDict", "iter",
                      "defaultdict", "product"}
IMMUTABLE_CALLS = {"len", "int", "float", "str", "bool", "sum", "round", "abs", "any", "all", "range",
                   "isinstance", "hasattr", "repr", "format", "ord", "chr", "hash", "id", "type",
                   "callable", "issubclass", "divmod", "pow"}
ELEMENT_CALLS = {"max", "min", "next"}
MUTATORS_ADD_ELEM = {"append", "add", "insert", "appendleft"}
MUTATORS_ADD_MANY = {"extend", "update"}
MUTATORS = MUTATORS_ADD_ELEM | MUTATORS_ADD_MANY | {
    "remove", "pop", "sort", "reverse", "clear", "setdefault", "discard", "popitem"}
# method names that builtin containers also have: dispatched to repository code only when the
# receiver is typed as a repository class
AMBIGUOUS = {"get", "copy", "index", "items", "keys", "values", "update", "pop", "append", "extend",
             "remove", "sort", "reverse", "clear", "setdefault", "add", "insert", "count", "format",
             "join", "split", "strip", "lower", "upper", "startswith", "endswith", "replace", "dump",
             "load", "read", "write", "open", "exists", "match", "search", "group", "process",
             "__getitem__", "__contains__", "__init__", "__new__", "__eq__", "__str__", "__repr__"}


class Lab:
    """Aliasing depth with provenance; `parts` keeps per-position labels of a literal display."""

    __slots__ = ("d", "origin", "parts")

    def __init__(self, d=INF, origin="", parts=None):
        self.d = min(d, INF)
        self.origin = origin
        self.parts = parts

    def __repr__(self):
        return "L%s(%s)" % ("inf" if self.d >= INF else self.d, self.origin[:40])

    def key(self):
        if isinstance(self.parts, dict):
            return (self.d, tuple(sorted((str(k), p.key()) for k, p in self.parts.items())))
        return (self.d, tuple(p.key() for p in self.parts) if self.parts else None)


FRESH = Lab()


def lmin(*labs):
    best = FRESH
    for l in labs:
        if l is not None and l.d < best.d:
            best = l
    # per-key labels of dict displays survive a join: a side without them contributes what any of its items may be
    keyed = [l for l in labs if l is not None and isinstance(l.parts, dict)]
    if keyed:
        keys = set(keyed[0].parts)
        if all(set(l.parts) == keys for l in keyed):
            others = [dec(l) for l in labs if l is not None and not isinstance(l.parts, dict) and l.d < INF]
            parts = {}
            for k in keys:
                cands = [l.parts[k] for l in keyed] + others
                m = FRESH
                for c in cands:
                    if c.d < m.d:
                        m = c
                parts[k] = Lab(m.d, m.origin)
            return Lab(best.d, best.origin, parts)
    if best.parts is not None:
        return Lab(best.d, best.origin)
    return best


def inc(l, n=1):
    return FRESH if l.d >= INF else Lab(l.d + n, l.origin)


def dec(l):
    return FRESH if l.d >= INF else Lab(max(l.d - 1, 0), l.origin)


def shallow(l):
    return FRESH if l.d >= INF else Lab(max(l.d, 1), l.origin)


def seq(labels, origin=""):
    m = lmin(*labels) if labels else FRESH
    return Lab(INF if m.d >= INF else m.d + 1, m.origin, list(labels))


class Summary:
    def __init__(self):
        self.ret = FRESH  # label of the return value with all parameters fresh
        self.ret_from = {}  # param index -> label of the return value when only that param is shared (0)
        self.mutates = {}  # param index -> description of the in-place mutation
        self.sinks = []  # (node, Lab, description): in-place mutations of shared storage in the body
        # the same two facts when the argument is a fresh container whose shared parts start k levels down (k = 1, 2):
        self.mutates_at = {}  # k -> {param index -> description}
        self.ret_at = {}  # k -> {param index -> label of the return value}

    def key(self):
        return (self.ret.key(), tuple(sorted((k, v.key()) for k, v in self.ret_from.items())),
                tuple(sorted(self.mutates)), tuple(sorted((k, tuple(sorted(v))) for k, v in self.mutates_at.items())),
                tuple(sorted((k, tuple(sorted((i, l.key()) for i, l in v.items()))) for k, v in self.ret_at.items())))


def _callee_name(call):
    f = call.func
    if isinstance(f, ast.Attribute):
        return f.attr
    if isinstance(f, ast.Name):
        return f.id
    return None


class Effects:
    TOOLING_PREFIX = "osaca/data/"

    def __init__(self, repo):
        self.repo = repo
        self.by_name = {}
        self.funcs = [f for f in repo.all_funcs() if not f.file.startswith(self.TOOLING_PREFIX)]
        for f in self.funcs:
            self.by_name.setdefault(f.name, []).append(f)
        self.class_names = set(repo.classes)
        self.types = {}  # attribute / local name -> repository class name (light inference)
        self._infer_types()
        self.shared_globals = self._shared_globals()
        self.field = {}
        self.summ = {f.qname: Summary() for f in self.funcs}
        self.env = {}
        self._seed_fields()
        self.rounds = 0
        self._solve()

    # ---- light receiver typing ----------------------------------------------------------------
    def _infer_types(self):
        for f in self.funcs:
            ann = {}
            a = f.node.args
            for arg in a.posonlyargs + a.args + a.kwonlyargs:
                if arg.annotation is not None:
                    t = U(arg.annotation).split(".")[-1]
                    if t in self.class_names:
                        ann[arg.arg] = t
                        self.types.setdefault((f.qname, arg.arg), t)
            for n in ast.walk(f.node):
                if isinstance(n, ast.Assign) and len(n.targets) == 1:
                    t = n.targets[0]
                    cls = None
                    if isinstance(n.value, ast.Call):
                        cn = pm.call_name(n.value).split(".")[-1]
                        if cn in self.class_names:
                            cls = cn
                    elif isinstance(n.value, ast.Name) and n.value.id in ann:
                        cls = ann[n.value.id]
                    if cls is None:
                        continue
                    if isinstance(t, ast.Attribute) and isinstance(t.value, ast.Name) and t.value.id == "self":
                        self.types.setdefault(("attr", t.attr), cls)
                    elif isinstance(t, ast.Name):
                        self.types.setdefault((f.qname, t.id), cls)

    def type_of(self, f, expr):
        if isinstance(expr, ast.Name):
            if expr.id == "self" and f.cls is not None:
                return f.cls.name
            return self.types.get((f.qname, expr.id))
        if isinstance(expr, ast.Attribute):
            return self.types.get(("attr", expr.attr))
        if isinstance(expr, ast.Call):
            cn = pm.call_name(expr).split(".")[-1]
            if cn in self.class_names:
                return cn
        return None

    # ---- shared-state inventory ---------------------------------------------------------------
    @staticmethod
    def _is_mutable_literal(v):
        if isinstance(v, (ast.List, ast.Dict, ast.Set, ast.ListComp, ast.DictComp, ast.SetComp)):
            return True
        if isinstance(v, ast.Call) and isinstance(v.func, ast.Name) and v.func.id in (
                "list", "dict", "set", "defaultdict", "OrderedDict", "deque"):
            return True
        return False

    def _shared_globals(self):
        out = {}
        for m in self.repo.modules.values():
            for name, v in m.globals.items():
                if self._is_mutable_literal(v):
                    out[(m.stem, name)] = v
        return out

    def inventory(self):
        """All process-wide mutable state, enumerated from the source."""
        inv = []
        for (stem, name), v in sorted(self.shared_globals.items()):
            inv.append(("module-global", "%s.%s" % (stem, name)))
        for c in self.repo.classes.values():
            for name, v in c.class_attrs.items():
                if self._is_mutable_literal(v) or (isinstance(v, ast.Constant) and v.value is None
                                                   and name.startswith("_instance")):
                    inv.append(("class-attribute", "%s.%s" % (c.name, name)))
                elif isinstance(v, ast.Constant) and isinstance(v.value, bool):
                    # a flag flipped through an instance / the class
                    stores = [1 for f in self.repo.all_funcs() for n in ast.walk(f.node)
                              if isinstance(n, ast.Assign) for t in n.targets
                              if isinstance(t, ast.Attribute) and t.attr == name]
                    if stores:
                        inv.append(("class-attribute", "%s.%s" % (c.name, name)))
            if "__new__" in c.methods:
                inv.append(("singleton", "%s.__new__" % c.name))
        for f in self.funcs:
            for d in f.node.decorator_list:
                if "cache" in U(d):
                    inv.append(("memoised-function", f.qname))
            a = f.node.args
            pos = a.posonlyargs + a.args
            for arg, dflt in list(zip(pos[len(pos) - len(a.defaults):], a.defaults)) + [
                    (k, d) for k, d in zip(a.kwonlyargs, a.kw_defaults) if d is not None]:
                if self._is_mutable_literal(dflt):
                    inv.append(("mutable-default", "%s(%s)" % (f.qname, arg.arg)))
        return inv

    def _seed_fields(self):
        # constructor parameters with mutable defaults, stored into instance fields
        for f in self.funcs:
            if f.name != "__init__":
                continue
            dflt = self._default_params(f)
            for n in ast.walk(f.node):
                if isinstance(n, ast.Assign) and isinstance(n.value, ast.Name) and n.value.id in dflt:
                    for t in n.targets:
                        if isinstance(t, ast.Attribute) and isinstance(t.value, ast.Name) and t.value.id == "self":
                            self._field_join(t.attr, Lab(0, "DEFAULTARG %s(%s)" % (f.qname, n.value.id)))

    def _default_params(self, f):
        a = f.node.args
        pos = a.posonlyargs + a.args
        out = set()
        for arg, d in list(zip(pos[len(pos) - len(a.defaults):], a.defaults)) + [
                (k, d) for k, d in zip(a.kwonlyargs, a.kw_defaults) if d is not None]:
            if self._is_mutable_literal(d):
                out.add(arg.arg)
        return out

    def _field_join(self, attr, lab):
        attr = attr.lstrip("_")
        old = self.field.get(attr, FRESH)
        if lab.d < old.d:
            self.field[attr] = Lab(lab.d, lab.origin)
            return True
        return False

    # ---- callee resolution --------------------------------------------------------------------
    def callees(self, f, call):
        name = _callee_name(call)
        if name is None:
            return []
        fn = call.func
        if isinstance(fn, ast.Name):
            if name in self.class_names:
                init = self.repo.resolve_method(name, "__init__")
                return [init] if init else []
            return [g for g in self.by_name.get(name, []) if g.cls is None]
        recv = fn.value
        t = self.type_of(f, recv)
        if isinstance(recv, ast.Call) and isinstance(recv.func, ast.Name) and recv.func.id == "super":
            if f.cls is not None:
                for c in self.repo.mro(f.cls.name)[1:]:
                    m = self.repo.classes[c].methods.get(name)
                    if m:
                        return [m]
            return []
        if t is not None:
            m = self.repo.resolve_method(t, name)
            if m is not None:
                # include overrides in subclasses
                out = [m]
                for c in self.repo.classes.values():
                    if c.name != m.cls.name and m.cls.name in self.repo.mro(c.name) and name in c.methods:
                        out.append(c.methods[name])
                return out
            return []
        if isinstance(recv, ast.Name) and recv.id in self.class_names:
            m = self.repo.resolve_method(recv.id, name)
            return [m] if m else []
        if name in AMBIGUOUS:
            return []
        return [g for g in self.by_name.get(name, []) if g.cls is not None]

    def callgraph(self):
        G = nx.DiGraph()
        for f in self.funcs:
            G.add_node(f.qname)
            for n in ast.walk(f.node):
                if isinstance(n, ast.Call):
                    for g in self.callees(f, n):
                        G.add_edge(f.qname, g.qname)
                    # functions passed as values (Process(target=self._extend_path))
                    for k in n.keywords:
                        if k.arg in ("target", "key") and isinstance(k.value, ast.Attribute):
                            for g in self.by_name.get(k.value.attr, []):
                                G.add_edge(f.qname, g.qname)
            # subscripts on typed receivers dispatch to __getitem__
            for n in ast.walk(f.node):
                if isinstance(n, ast.Subscript):
                    t = self.type_of(f, n.value)
                    if t:
                        m = self.repo.resolve_method(t, "__getitem__")
                        if m:
                            G.add_edge(f.qname, m.qname)
        return G

    def reachable_from(self, roots):
        G = self.callgraph()
        out = set()
        for r in roots:
            if r in G:
                out.add(r)
                out |= nx.descendants(G, r)
        return out

    # ---- abstract evaluation ------------------------------------------------------------------
    def _solve(self):
        for rnd in range(12):
            self.rounds = rnd + 1
            changed = False
            for f in self.funcs:
                old = self.summ[f.qname].key()
                fld_before = {k: v.d for k, v in self.field.items()}
                self._analyse(f)
                if self.summ[f.qname].key() != old or fld_before != {k: v.d for k, v in self.field.items()}:
                    changed = True
            if not changed:
                break

    def _analyse(self, f):
        s = Summary()
        params = f.params()
        dflt = self._default_params(f)
        base_env = self._fixpoint(f, {p: (Lab(0, "DEFAULTARG %s(%s)" % (f.qname, p)) if p in dflt else FRESH)
                                      for p in params}, record_fields=True)
        self.env[f.qname] = base_env
        s.ret = self._ret_label(f, base_env)
        if self.is_memoised(f) and not self._returns_immutable(f, base_env):
            # the cache hands the very same object to every later caller: it is shared storage
            s.ret = Lab(0, "MEMO %s (return value kept by its cache decorator)" % f.qname)
        s.sinks, _ = self._sinks(f, base_env, params, None)
        offset = 1 if (f.cls is not None and params and params[0] in ("self", "cls")) else 0
        for i, p in enumerate(params):
            if i < offset:
                continue
            env = self._fixpoint(f, {q: (Lab(0, "PARAM " + p) if q == p else FRESH) for q in params},
                                 record_fields=False)
            r = self._ret_label(f, env)
            if r.d < INF and r.d < s.ret.d + 0 or (r.d < INF and "PARAM" in r.origin):
                s.ret_from[i - offset] = r
            _, mut = self._sinks(f, env, params, p)
            if mut:
                s.mutates[i - offset] = mut
            # deeper actuals (labels only grow with the parameter's label, so nothing new can appear when level 0 is clean)
            for k in (1, 2):
                if i - offset not in s.mutates and i - offset not in s.ret_from:
                    break
                envk = self._fixpoint(f, {q: (Lab(k, "PARAM " + p) if q == p else FRESH) for q in params},
                                      record_fields=False)
                rk = self._ret_label(f, envk)
                if rk.d < INF and "PARAM" in rk.origin:
                    s.ret_at.setdefault(k, {})[i - offset] = rk
                if i - offset in s.mutates:
                    _, mutk = self._sinks(f, envk, params, p)
                    if mutk:
                        s.mutates_at.setdefault(k, {})[i - offset] = mutk
        self.summ[f.qname] = s

    @staticmethod
    def is_memoised(f):
        for d in f.node.decorator_list:
            t = U(d.func) if isinstance(d, ast.Call) else U(d)
            if t.split(".")[-1] in ("lru_cache", "cache", "cached_property", "memoize", "memoized"):
                return True
        return False

    def _returns_immutable(self, f, env):
        rets = [n for n in ast.walk(f.node) if isinstance(n, ast.Return) and n.value is not None and self._owner(n) is f.node]
        return bool(rets) and all(self._maybe_immutable(f, r.value, env) for r in rets)

    def _ret_label(self, f, env):
        out = FRESH
        for n in ast.walk(f.node):
            if isinstance(n, ast.Return) and n.value is not None and self._owner(n) is f.node:
                out = lmin(out, self.L(f, n.value, env))
            elif isinstance(n, (ast.Yield,)) and n.value is not None and self._owner(n) is f.node:
                out = lmin(out, inc(self.L(f, n.value, env)))
        return out

    @staticmethod
    def _owner(node):
        p = parent(node)
        while p is not None and not isinstance(p, (ast.FunctionDef, ast.AsyncFunctionDef, ast.Lambda)):
            p = parent(p)
        return p

    def _fixpoint(self, f, env, record_fields):
        env = dict(env)
        stmts = [n for n in ast.walk(f.node) if isinstance(n, (ast.stmt, ast.comprehension, ast.NamedExpr))]
        for _ in range(10):
            before = {k: v.d for k, v in env.items()}
            for n in stmts:
                self._transfer(f, n, env, record_fields)
            if before == {k: v.d for k, v in env.items()}:
                break
        return env

    def _join(self, env, name, lab):
        old = env.get(name, FRESH)
        if isinstance(lab.parts, dict) or isinstance(old.parts, dict):
            # dict displays with constant keys: keep the per-key labels across definitions
            env[name] = lmin(old, lab) if name in env else lab
            return
        if lab.d < old.d:
            env[name] = lab if lab.parts is None or name not in env else Lab(lab.d, lab.origin)
        elif name not in env:
            env[name] = lab

    def _bind(self, f, target, lab, env):
        if isinstance(target, ast.Name):
            self._join(env, target.id, lab)
        elif isinstance(target, (ast.Tuple, ast.List)):
            for i, e in enumerate(target.elts):
                if isinstance(lab.parts, list) and i < len(lab.parts):
                    self._bind(f, e, lab.parts[i], env)
                else:
                    self._bind(f, e, dec(lab), env)
        elif isinstance(target, ast.Starred):
            self._bind(f, target.value, lab, env)

    def _root_name(self, expr):
        depth = 0
        while isinstance(expr, (ast.Attribute, ast.Subscript)):
            expr = expr.value
            depth += 1
        if isinstance(expr, ast.Name):
            return expr.id, depth
        return None, depth

    def _iter_elem(self, f, it, env):
        """Label(s) of one element produced by iterating `it` (structured for zip/enumerate/items)."""
        if isinstance(it, ast.Call):
            cn = _callee_name(it)
            if cn == "enumerate" and it.args:
                return seq([FRESH, dec(self.L(f, it.args[0], env))])
            if cn == "zip":
                return seq([dec(self.L(f, a, env)) for a in it.args])
            if cn == "items" and isinstance(it.func, ast.Attribute):
                return seq([FRESH, dec(self.L(f, it.func.value, env))])
            if cn == "pairwise":
                return FRESH
        return dec(self.L(f, it, env))

    def _transfer(self, f, n, env, record_fields):
        if isinstance(n, ast.Assign):
            lab = self.L(f, n.value, env)
            for t in n.targets:
                if isinstance(t, (ast.Name, ast.Tuple, ast.List)):
                    self._bind(f, t, lab, env)
                else:
                    self._store_into(f, t, lab, env, record_fields)
        elif isinstance(n, ast.AnnAssign) and n.value is not None:
            self._bind(f, n.target, self.L(f, n.value, env), env)
        elif isinstance(n, ast.NamedExpr):
            self._bind(f, n.target, self.L(f, n.value, env), env)
        elif isinstance(n, ast.AugAssign):
            lab = self.L(f, n.value, env)
            if isinstance(n.target, ast.Name):
                self._join(env, n.target.id, shallow(lab))
            else:
                # `x[k] += seq` / `x.a += seq` extends the list held there
                self._store_into(f, n.target, dec(lab), env, record_fields, elem=True)
        elif isinstance(n, (ast.For, ast.AsyncFor)):
            self._bind(f, n.target, self._iter_elem(f, n.iter, env), env)
        elif isinstance(n, ast.comprehension):
            self._bind(f, n.target, self._iter_elem(f, n.iter, env), env)
        elif isinstance(n, (ast.With, ast.AsyncWith)):
            for it in n.items:
                if it.optional_vars is not None:
                    self._bind(f, it.optional_vars, FRESH, env)
        elif isinstance(n, ast.Expr) and isinstance(n.value, ast.Call):
            c = n.value
            if isinstance(c.func, ast.Attribute) and c.args:
                if c.func.attr in MUTATORS_ADD_ELEM:
                    self._store_into(f, c.func.value, self.L(f, c.args[-1], env), env, record_fields, elem=True)
                elif c.func.attr in MUTATORS_ADD_MANY:
                    self._store_into(f, c.func.value, dec(self.L(f, c.args[0], env)), env, record_fields, elem=True)

    def _store_into(self, f, target, lab, env, record_fields, elem=False):
        """`target = value` for attribute/subscript targets, or `target.append(value)` (elem=True):
        the object rooted at the target's base name now holds `lab` some levels down."""
        if isinstance(target, ast.Attribute) and not elem:
            in_ctor_self = (f.name == "__init__" and isinstance(target.value, ast.Name)
                            and target.value.id == "self")
            if record_fields and not in_ctor_self and target.attr.lstrip("_") not in IMMUTABLE_FIELDS:
                self._field_join(target.attr, lab)
        holder = target if elem else target.value if isinstance(target, (ast.Attribute, ast.Subscript)) else None
        if holder is None:
            return
        root, depth = self._root_name(holder)
        if root is not None and lab.d < INF:
            self._join(env, root, Lab(lab.d + 1 + depth, lab.origin))

    def L(self, f, e, env):
        """Aliasing depth of expression `e` in function `f` under `env`."""
        if e is None:
            return FRESH
        if isinstance(e, ast.Name):
            if e.id in env:
                return env[e.id]
            if (f.module.stem, e.id) in self.shared_globals:
                return Lab(0, "GLOBAL %s.%s" % (f.module.stem, e.id))
            return FRESH
        if isinstance(e, ast.Attribute):
            if e.attr.lstrip("_") in IMMUTABLE_FIELDS:
                return FRESH
            # class attributes (shared by all instances)
            if isinstance(e.value, ast.Name):
                owner = None
                if e.value.id in self.class_names:
                    owner = e.value.id
                elif e.value.id in ("self", "cls") and f.cls is not None:
                    owner = f.cls.name
                if owner:
                    for c in self.repo.mro(owner):
                        v = self.repo.classes[c].class_attrs.get(e.attr)
                        if v is not None and self._is_mutable_literal(v) and not self._instance_assigned(c, e.attr):
                            return Lab(0, "CLASSATTR %s.%s" % (c, e.attr))
            if e.attr == "_data" and isinstance(e.value, ast.Name) and e.value.id == "self" \
                    and f.cls is not None and f.cls.name == "MachineModel":
                return Lab(0, "MODEL MachineModel._data")
            # any other mutable container the model object creates in its constructor and keeps (a memo table, ...): it lives
            # as long as the model and is seen by everything analysed with it
            if isinstance(e.value, ast.Name) and e.value.id == "self" and f.cls is not None and f.cls.name == "MachineModel" \
                    and f.name != "__init__" and e.attr in self._model_state_attrs():
                return Lab(0, "MODELSTATE MachineModel.%s" % e.attr)
            base = self.L(f, e.value, env)
            fld = self.field.get(e.attr.lstrip("_"), FRESH)
            if isinstance(e.value, ast.Name) and e.value.id == "self" and f.name == "__init__":
                pass
            # the receiver itself is shared -> so is everything it holds; a fresh object that merely
            # holds shared references somewhere is read field-based (receiver-insensitive table)
            if base.d == 0:
                return lmin(base, fld)
            return fld
        if isinstance(e, ast.Subscript):
            t = self.type_of(f, e.value)
            if t is not None:
                m = self.repo.resolve_method(t, "__getitem__")
                if m is not None:
                    return self.summ[m.qname].ret
            base = self.L(f, e.value, env)
            if isinstance(e.slice, ast.Slice):
                return shallow(base)
            if isinstance(base.parts, dict):
                if isinstance(e.slice, ast.Constant) and e.slice.value in base.parts:
                    return base.parts[e.slice.value]
                return dec(base)
            if base.parts is not None and isinstance(e.slice, ast.Constant) and isinstance(e.slice.value, int):
                i = e.slice.value
                if -len(base.parts) <= i < len(base.parts):
                    return base.parts[i]
            return dec(base)
        if isinstance(e, ast.Call):
            return self._call(f, e, env)
        if isinstance(e, (ast.List, ast.Tuple, ast.Set)):
            return seq([self.L(f, x, env) for x in e.elts])
        if isinstance(e, ast.Dict):
            if not e.values:
                return FRESH
            vals = [self.L(f, v, env) for v in e.values if v is not None]
            lab = inc(lmin(*[Lab(v.d, v.origin) for v in vals]))
            if all(isinstance(k, ast.Constant) for k in e.keys) and len(vals) == len(e.keys):
                # per-key labels of a display with constant keys
                lab = Lab(lab.d, lab.origin, {k.value: Lab(v.d, v.origin) for k, v in zip(e.keys, vals)})
            return lab
        if isinstance(e, (ast.ListComp, ast.SetComp, ast.GeneratorExp)):
            env2 = env  # comprehension targets are bound by the ast.comprehension transfer
            return inc(self.L(f, e.elt, env2))
        if isinstance(e, ast.DictComp):
            return inc(self.L(f, e.value, env))
        if isinstance(e, ast.IfExp):
            return lmin(self.L(f, e.body, env), self.L(f, e.orelse, env))
        if isinstance(e, ast.BoolOp):
            return lmin(*[self.L(f, v, env) for v in e.values])
        if isinstance(e, ast.BinOp):
            if isinstance(e.op, ast.Add):
                return shallow(lmin(self.L(f, e.left, env), self.L(f, e.right, env)))
            return FRESH
        if isinstance(e, ast.Starred):
            return self.L(f, e.value, env)
        if isinstance(e, ast.NamedExpr):
            return self.L(f, e.value, env)
        if isinstance(e, ast.Await):
            return self.L(f, e.value, env)
        return FRESH

    def _model_state_attrs(self):
        if not hasattr(self, "_msa"):
            out = set()
            init = self.repo.classes["MachineModel"].methods.get("__init__") if "MachineModel" in self.repo.classes else None
            if init is not None:
                for n in ast.walk(init.node):
                    if isinstance(n, ast.Assign) and len(n.targets) == 1 and isinstance(n.targets[0], ast.Attribute) \
                            and isinstance(n.targets[0].value, ast.Name) and n.targets[0].value.id == "self" \
                            and n.targets[0].attr != "_data" and self._is_mutable_literal(n.value):
                        out.add(n.targets[0].attr)
            self._msa = out
        return self._msa

    def _instance_assigned(self, cls, attr):
        """Is the class attribute rebound per instance in the constructor?"""
        c = self.repo.classes[cls]
        init = c.methods.get("__init__")
        if init is None:
            return False
        for n in ast.walk(init.node):
            if isinstance(n, ast.Assign):
                for t in n.targets:
                    if isinstance(t, ast.Attribute) and t.attr == attr and isinstance(t.value, ast.Name) \
                            and t.value.id == "self":
                        return True
        return False

    def _call(self, f, c, env):
        name = _callee_name(c)
        if name is None:
            return FRESH
        fn = c.func
        if isinstance(fn, ast.Name) or (isinstance(fn, ast.Attribute) and isinstance(fn.value, ast.Name)
                                        and fn.value.id in ("copy", "itertools", "collections", "functools")):
            if name == "deepcopy":
                return FRESH
            if name in IMMUTABLE_CALLS:
                return FRESH
            if name in ELEMENT_CALLS and c.args:
                if len(c.args) == 1 or name == "next":
                    return dec(self.L(f, c.args[0], env))
                return lmin(*[self.L(f, a, env) for a in c.args])
            if name in SHALLOW_COPY_CALLS and name != "copy" or (name == "copy" and c.args):
                labs = [self.L(f, a, env) for a in c.args]
                return shallow(lmin(*labs)) if labs else FRESH
        callees = self.callees(f, c)
        if callees:
            out = FRESH
            for g in callees:
                if g.name == "__init__":
                    continue  # a freshly constructed object
                s = self.summ[g.qname]
                out = lmin(out, s.ret)
                for i, rl in s.ret_from.items():
                    a = self._actual(g, c, i)
                    if a is not None:
                        al = self.L(f, a, env)
                        if al.d in (1, 2):
                            rk = s.ret_at.get(al.d, {}).get(i)
                            if rk is not None:
                                out = lmin(out, Lab(rk.d, al.origin))
                        elif al.d < INF:
                            out = lmin(out, Lab(rl.d + al.d, al.origin))
            return out
        if isinstance(fn, ast.Attribute):
            base = self.L(f, fn.value, env)
            if name == "copy" and not c.args:
                return shallow(base)
            if name in ("get", "pop", "setdefault", "popitem"):
                dflt = self.L(f, c.args[1], env) if len(c.args) > 1 else FRESH
                return lmin(dec(base), dflt)
            if name in ("values", "items", "keys"):
                return shallow(base)
            if name in ("format", "join", "split", "strip", "lower", "upper", "replace", "rstrip", "lstrip",
                        "startswith", "endswith", "index", "count", "hexdigest", "read", "readline",
                        "readlines", "group", "is_alive", "exists"):
                return FRESH
        return FRESH

    def _actual(self, g, call, i):
        """Actual argument bound to the i-th (non-self) parameter of g at `call`."""
        params = g.params()
        off = 1 if (g.cls is not None and params and params[0] in ("self", "cls")) else 0
        if any(isinstance(a, ast.Starred) for a in call.args):
            return None
        if i < len(call.args):
            return call.args[i]
        if i + off < len(params):
            for k in call.keywords:
                if k.arg == params[i + off]:
                    return k.value
        return None

    # ---- sinks --------------------------------------------------------------------------------
    def _maybe_immutable(self, f, e, env):
        """Is the value of `e` certainly immutable (number / string / None)?"""
        if isinstance(e, ast.Constant):
            return not isinstance(e.value, bytes) or True
        if isinstance(e, ast.JoinedStr):
            return True
        if isinstance(e, ast.Attribute) and e.attr.lstrip("_") in IMMUTABLE_FIELDS:
            return True
        if isinstance(e, ast.BinOp) and not isinstance(e.op, ast.Add):
            return True
        if isinstance(e, ast.BinOp):
            return self._maybe_immutable(f, e.left, env) or self._maybe_immutable(f, e.right, env)
        if isinstance(e, ast.IfExp):
            return self._maybe_immutable(f, e.body, env) and self._maybe_immutable(f, e.orelse, env)
        if isinstance(e, ast.Call):
            n = _callee_name(e)
            if n in IMMUTABLE_CALLS or n in ("format", "join", "get_load_latency", "get_store_latency", "time"):
                return True
            if n in ("max", "min"):
                return all(self._maybe_immutable(f, a, env) for a in e.args)
            if n == "get" and len(e.args) == 2:
                return self._maybe_immutable(f, e.args[1], env)
        if isinstance(e, ast.Subscript):
            if isinstance(e.slice, ast.Constant) and e.slice.value in ("value", "latency", "name"):
                return True
        return False

    def _reaching_label(self, f, at, name_node, env, joined):
        from .flow import Flow
        fl = self._flows.get(f.qname) if hasattr(self, "_flows") else None
        if not hasattr(self, "_flows"):
            self._flows = {}
        if fl is None:
            try:
                fl = self._flows[f.qname] = Flow(f.node)
            except Exception:
                return joined
        try:
            ds = fl.reaching(at, name_node.id)
        except Exception:
            return joined
        if not ds:
            return joined
        best = FRESH
        for d in ds:
            if d.kind == "assign" and d.value is not None and isinstance(getattr(d, "target", None), (ast.Name, type(None))):
                l = self.L(f, d.value, env)
            else:
                return joined           # loop targets, unpacking, parameters, augmented assignments: keep the join
            if l.d < best.d:
                best = l
        return best

    def _sinks(self, f, env, params, watch_param):
        """In-place mutations of depth-0 values. Returns (sinks, description of a mutation of the
        watched parameter or None)."""
        sinks = []
        mut_param = None

        def hit(node, obj_expr, what, level_of=None):
            """level_of: callee summary lookup {k: description} - the callee mutates what lies k levels below its argument."""
            nonlocal mut_param
            lab = self.L(f, obj_expr, env)
            if lab.d == 0 and isinstance(obj_expr, ast.Name) and obj_expr.id not in params:
                # the environment joins ALL definitions of a local; what is mutated here is only what the definitions
                # REACHING this statement bind (`x = []; ...; x.append(v); ...; x = model_row` appends to the fresh list)
                lab = self._reaching_label(f, node, obj_expr, env, lab)
            if level_of is not None:
                if lab.d not in level_of:
                    return
                what = what % level_of[lab.d]
                lab = Lab(0, lab.origin)
            if lab.d == 0:
                if watch_param is not None:
                    if lab.origin == "PARAM " + watch_param:
                        mut_param = "%s at %s" % (what, f.where(node))
                else:
                    sinks.append((node, lab, what))

        for n in ast.walk(f.node):
            if self._owner(n) is not f.node and not isinstance(n, (ast.FunctionDef,)):
                # nested defs / lambdas are analysed as part of the enclosing function body
                pass
            if isinstance(n, ast.Assign):
                for t in n.targets:
                    for tt in (t.elts if isinstance(t, (ast.Tuple, ast.List)) else [t]):
                        if isinstance(tt, ast.Subscript):
                            hit(n, tt.value, "item store `%s = ...`" % U(tt))
                        elif isinstance(tt, ast.Attribute):
                            if f.name == "__init__" and isinstance(tt.value, ast.Name) and tt.value.id == "self":
                                continue
                            hit(n, tt.value, "attribute store `%s = ...`" % U(tt))
            elif isinstance(n, ast.AugAssign):
                t = n.target
                if isinstance(t, ast.Name):
                    if not self._maybe_immutable(f, n.value, env):
                        hit(n, t, "in-place `%s`" % U(n))
                elif isinstance(t, ast.Subscript):
                    hit(n, t.value, "item update `%s`" % U(n))
                elif isinstance(t, ast.Attribute):
                    # x.attr += v  mutates the object held in x.attr when it is a list
                    if not self._maybe_immutable(f, n.value, env):
                        hit(n, t, "in-place `%s`" % U(n))
            elif isinstance(n, ast.Delete):
                for t in n.targets:
                    if isinstance(t, ast.Subscript):
                        hit(n, t.value, "`%s`" % U(n))
            elif isinstance(n, ast.Call):
                if isinstance(n.func, ast.Attribute) and n.func.attr in MUTATORS:
                    if not self.callees(f, n):
                        hit(n, n.func.value, "`%s`" % U(n)[:90])
                for g in self.callees(f, n):
                    s = self.summ.get(g.qname)
                    if not s:
                        continue
                    for i, desc in s.mutates.items():
                        a = self._actual(g, n, i)
                        if a is not None:
                            levels = {0: desc}
                            for k, d in s.mutates_at.items():
                                if i in d:
                                    levels[k] = d[i]
                            hit(n, a, "call `%s` whose callee %s mutates that argument (%%s)" % (
                                U(n)[:70].replace("%", "%%"), g.qname), level_of=levels)
        return sinks, mut_param
