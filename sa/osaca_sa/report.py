"""Obligations, findings, known findings, evidence and replay files."""
import hashlib
import json
import os
import time
from pathlib import Path

from .pm import U
from .srcmodel import AnalysisError

VERIF = Path(__file__).resolve().parents[2]
EVIDENCE_DIR = VERIF / "evidence"
REPLAY_DIR = EVIDENCE_DIR / "replay"
KNOWN_FILE = VERIF / "known_findings.json"


def norm_text(s):
    return " ".join(str(s).split())


class Finding:
    def __init__(self, prop, rule, scope, construct, where, detail, excerpt=""):
        self.prop = prop
        self.rule = rule
        self.scope = scope
        self.construct = norm_text(construct)
        self.where = where
        self.detail = detail
        self.excerpt = excerpt
        self.known = None

    @property
    def key(self):
        return "%s|%s|%s" % (self.rule, self.scope, self.construct)

    def to_json(self):
        return {
            "property": self.prop,
            "rule": self.rule,
            "scope": self.scope,
            "construct": self.construct,
            "key": self.key,
            "where": self.where,
            "detail": self.detail,
            "excerpt": self.excerpt,
        }


class Ctx:
    """Collects what one property's rules looked at and concluded."""

    def __init__(self, prop, repo, tier="quick", data=None):
        self.prop = prop
        self.repo = repo
        self.tier = tier
        self.data = data
        self.obligations = []
        self.findings = []
        self.notes = []
        self.rules = {}  # rule id -> description
        self.functions = set()
        self.files = set()
        self.extra = {}
        self.t0 = time.time()

    # ---- bookkeeping -----------------------------------------------------------------------
    def rule(self, rid, text):
        self.rules[rid] = text

    def touch(self, f):
        """Record that function `f` (FuncInfo) was analysed."""
        self.functions.add(f.qname)
        self.files.add(f.file)
        return f

    def func(self, qname):
        return self.touch(self.repo.func(qname))

    def ok(self, rule, instance, where="", detail=""):
        self.obligations.append(
            {"rule": rule, "instance": norm_text(instance), "where": where, "status": "discharged",
             "detail": detail}
        )

    def bad(self, rule, instance, where, detail, scope, construct=None, excerpt=""):
        f = Finding(self.prop, rule, scope, construct if construct is not None else instance,
                    where, detail, excerpt)
        self.findings.append(f)
        self.obligations.append(
            {"rule": rule, "instance": norm_text(instance), "where": where, "status": "violated",
             "detail": detail, "key": f.key}
        )
        return f

    def check(self, cond, rule, instance, where, detail, scope, construct=None, excerpt=""):
        if cond:
            self.ok(rule, instance, where)
        else:
            self.bad(rule, instance, where, detail, scope, construct, excerpt)
        return bool(cond)

    def note(self, msg):
        self.notes.append(norm_text(msg))

    def judge(self, ok, recognised, rule, instance, where, detail, scope, construct=None, excerpt=""):
        """ok -> discharged; not ok but the construct was recognised -> violation; construct not recognised -> not understood."""
        if ok:
            self.ok(rule, instance, where)
        elif recognised:
            self.bad(rule, instance, where, detail, scope, construct, excerpt)
        else:
            self.unknown(rule, instance, where, detail)
        return bool(ok)

    def unknown(self, rule, instance, where, detail):
        """The rule does not recognise the construct it is about (an idiom it was not written for). This is never a
        violation: the analysis continues, and unless a specific violation is found elsewhere the run ends as
        ANALYSIS-ERROR (exit 2)."""
        self.unknowns = getattr(self, "unknowns", [])
        self.unknowns.append("%s %s at %s: %s" % (rule, norm_text(instance), where, norm_text(detail)))
        self.obligations.append({"rule": rule, "instance": norm_text(instance), "where": where, "status": "not-understood",
                                 "detail": detail})

    def floor(self, rule, what, count, minimum):
        """Fail closed when a rule matched fewer instances than were confirmed by hand."""
        self.extra.setdefault("instance_floors", {})["%s:%s" % (rule, what)] = {
            "found": count, "floor": minimum}
        if count < minimum:
            raise AnalysisError(
                "%s %s: %d instance(s) of %s found, at least %d were confirmed by hand - the "
                "rule no longer sees the code it was written for" % (self.prop, rule, count, what, minimum)
            )

    def broken(self, msg):
        raise AnalysisError("%s: %s" % (self.prop, msg))

    def node_bad(self, rule, f, node, detail, instance=None):
        """Finding on an AST node of function `f`."""
        return self.bad(rule, instance or U(node), f.where(node), detail, f.qname, U(node),
                        f.module.excerpt(node))

    def node_ok(self, rule, f, node, instance=None, detail=""):
        self.ok(rule, instance or U(node)[:160], f.where(node), detail)


# ---- known findings -------------------------------------------------------------------------


def load_known():
    if not KNOWN_FILE.exists():
        return {"known": [], "fixed": []}
    return json.loads(KNOWN_FILE.read_text())


def apply_known(ctx):
    known = load_known()
    table = {}
    for k in known.get("known", []):
        if k["property"] == ctx.prop:
            table[k["key"]] = k
    used = set()
    for f in ctx.findings:
        k = table.get(f.key)
        if k is not None:
            f.known = k
            used.add(f.key)
    for ob in ctx.obligations:
        if ob["status"] == "violated" and ob.get("key") in table:
            ob["status"] = "known-finding"
    stale = [k for key, k in table.items() if key not in used]
    return stale


# ---- evidence / replay ----------------------------------------------------------------------


def write_replay(f):
    REPLAY_DIR.mkdir(parents=True, exist_ok=True)
    h = hashlib.sha256(f.key.encode()).hexdigest()[:12]
    p = REPLAY_DIR / ("%s-%s.json" % (f.prop, h))
    p.write_text(json.dumps(f.to_json(), indent=1))
    return p


def write_evidence(ctx, violations, explanation, assumptions, trusted_base, not_decided,
                   selftest=None, exhaustive=None):
    EVIDENCE_DIR.mkdir(parents=True, exist_ok=True)
    obs = ctx.obligations
    distinct = len({(o["rule"], o["instance"]) for o in obs})
    discharged = sum(1 for o in obs if o["status"] == "discharged")
    per_rule = {}
    for o in obs:
        r = per_rule.setdefault(o["rule"], {"obligations": 0, "discharged": 0, "violated": 0,
                                            "known_finding": 0})
        r["obligations"] += 1
        if o["status"] == "discharged":
            r["discharged"] += 1
        elif o["status"] == "violated":
            r["violated"] += 1
        else:
            r["known_finding"] += 1
    for rid, text in ctx.rules.items():
        per_rule.setdefault(rid, {"obligations": 0, "discharged": 0, "violated": 0,
                                  "known_finding": 0})["rule"] = text
    # samples: a few obligations per rule, violated ones first
    samples = []
    seen_rules = {}
    for o in sorted(obs, key=lambda o: (o["status"] == "discharged", o["rule"])):
        c = seen_rules.get(o["rule"], 0)
        if c < 3 or o["status"] != "discharged":
            seen_rules[o["rule"]] = c + 1
            samples.append({k: o[k] for k in ("rule", "instance", "where", "status") if o.get(k)})
        if len(samples) >= 60:
            break
    cov = {
        "explanation": explanation,
        "evaluations": len(obs),
        "distinct_nontrivial": distinct,
        "rule": "one evaluation = one obligation (rule instance x construct of /repo's current "
                "source or data); distinct = distinct (rule, construct) pairs; an obligation is "
                "non-trivial because it is only created after a construct was matched and inspected",
        "samples": samples,
        "obligations": len(obs),
        "discharged": discharged,
        "checker_cmd": "./check %s --tier %s" % (ctx.prop, ctx.tier),
        "trusted_base": trusted_base,
        "rules": per_rule,
        "functions_analysed": sorted(ctx.functions),
        "files_analysed": sorted(ctx.files),
        "known_findings": [f.key for f in ctx.findings if f.known],
        "notes": ctx.notes,
        "not_decided": not_decided,
        "repo_digest": ctx.repo.digest.hexdigest()[:16],
    }
    if exhaustive is not None:
        cov["exhaustive"] = exhaustive
    cov.update(ctx.extra)
    if selftest is not None:
        cov["selftest"] = selftest
    ev = {
        "property_id": ctx.prop,
        "tier": ctx.tier,
        "seed": int(os.environ.get("VERIF_SEED", "0") or 0),
        "level": "other",
        "coverage": cov,
        "assumptions": assumptions,
        "wall_s": round(time.time() - ctx.t0, 3),
        "violations": violations,
    }
    (EVIDENCE_DIR / ("%s.json" % ctx.prop)).write_text(json.dumps(ev, indent=1, default=str))
    return ev
