"""E9: constant folding of small pure functions over a finite table of inputs.

A tiny interpreter over the AST (no repository code is imported or executed) for functions whose
body is a chain of `if`/`elif`/`else` with `return <display>` / `raise` leaves and whose
expressions use only constants, the bound parameters, comparisons, `in`, boolean operators,
conditional expressions, string slicing/indexing/concatenation, a few pure `str` methods and
`len`. Anything else raises Unsupported, which the rule turns into ANALYSIS-ERROR: the rule never
guesses. Used where the code's behaviour on a *finite, documented* vocabulary is the property
(C20-R1: operand-code decoders vs. the README's naming convention), so that any rewrite of the
decoder inside this subset is judged by what it computes, not by how it is spelled.
"""
import ast
import operator

from .pm import U


class Unsupported(Exception):
    pass


class Obj(dict):
    """a stand-in object: attribute name -> value"""


class Raised(Exception):
    def __init__(self, name):
        self.name = name


_CMP = {
    ast.Eq: operator.eq, ast.NotEq: operator.ne, ast.Lt: operator.lt, ast.LtE: operator.le,
    ast.Gt: operator.gt, ast.GtE: operator.ge, ast.Is: operator.is_, ast.IsNot: operator.is_not,
    ast.In: lambda a, b: a in b, ast.NotIn: lambda a, b: a not in b,
}
_STR_METHODS = {"startswith", "endswith", "lower", "upper", "strip", "lstrip", "rstrip", "isdigit", "isalpha",
                "count", "find", "replace", "split"}
_PLAIN = (str, int, float, bool, type(None), tuple, list, dict, frozenset, set)


def ev(e, env):
    if isinstance(e, ast.Constant):
        return e.value
    if isinstance(e, ast.Name):
        if e.id in env:
            return env[e.id]
        g = env.get("__globals__", {}).get(e.id)
        if g is not None:
            # a module-level constant display: every use folds its own fresh value (aliasing between uses is not
            # modelled here; in-place edits of shared objects are the ownership analysis' subject)
            return ev(g, {"__globals__": env.get("__globals__", {}), "__functions__": env.get("__functions__", {})})
        raise Unsupported("free name %s" % e.id)
    if isinstance(e, ast.Attribute) and isinstance(e.ctx, ast.Load):
        base = ev(e.value, env)
        if isinstance(base, Obj) and e.attr in base:
            return base[e.attr]
        raise Unsupported("attribute " + U(e)[:60])
    if isinstance(e, ast.Compare):
        left = ev(e.left, env)
        for op, c in zip(e.ops, e.comparators):
            right = ev(c, env)
            fn = _CMP.get(type(op))
            if fn is None:
                raise Unsupported(U(e))
            try:
                if not fn(left, right):
                    return False
            except TypeError:
                raise Raised("TypeError")
            left = right
        return True
    if isinstance(e, ast.BoolOp):
        val = None
        for v in e.values:
            val = ev(v, env)
            if isinstance(e.op, ast.And) and not val:
                return val
            if isinstance(e.op, ast.Or) and val:
                return val
        return val
    if isinstance(e, ast.UnaryOp):
        v = ev(e.operand, env)
        if isinstance(e.op, ast.Not):
            return not v
        if isinstance(e.op, ast.USub) and isinstance(v, (int, float)):
            return -v
        raise Unsupported(U(e))
    if isinstance(e, ast.IfExp):
        return ev(e.body, env) if ev(e.test, env) else ev(e.orelse, env)
    if isinstance(e, ast.Subscript):
        base = ev(e.value, env)
        if not isinstance(base, (str, tuple, list, dict)):
            raise Unsupported(U(e))
        if isinstance(e.slice, ast.Slice):
            lo = ev(e.slice.lower, env) if e.slice.lower is not None else None
            hi = ev(e.slice.upper, env) if e.slice.upper is not None else None
            st = ev(e.slice.step, env) if e.slice.step is not None else None
            return base[lo:hi:st]
        try:
            return base[ev(e.slice, env)]
        except (IndexError, KeyError) as x:
            raise Raised(type(x).__name__)
    if isinstance(e, ast.BinOp):
        a, b = ev(e.left, env), ev(e.right, env)
        try:
            if isinstance(e.op, ast.Add):
                return a + b
            if isinstance(e.op, ast.Mult) and isinstance(a, (int, str)) and isinstance(b, (int, str)):
                return a * b
            if isinstance(e.op, ast.Sub):
                return a - b
        except TypeError:
            raise Raised("TypeError")
        raise Unsupported(U(e))
    if isinstance(e, (ast.Tuple, ast.List)):
        vals = [ev(x, env) for x in e.elts]
        return tuple(vals) if isinstance(e, ast.Tuple) else vals
    if isinstance(e, ast.Set):
        return frozenset(ev(x, env) for x in e.elts)
    if isinstance(e, ast.Dict):
        if any(k is None for k in e.keys):
            raise Unsupported("dict unpacking")
        return {ev(k, env): ev(v, env) for k, v in zip(e.keys, e.values)}
    if isinstance(e, ast.Call):
        if isinstance(e.func, ast.Name) and e.func.id in ("len", "str", "int", "bool", "set", "tuple", "list", "sorted", "any", "all", "dict", "range", "enumerate", "zip") \
                and not e.keywords:
            args = [ev(a, env) for a in e.args]
            try:
                return {"len": len, "str": str, "int": int, "bool": bool, "set": frozenset, "tuple": tuple, "list": list,
                        "sorted": sorted, "any": any, "all": all, "dict": dict, "range": lambda *a: list(range(*a)),
                        "enumerate": lambda *a: list(enumerate(*a)), "zip": lambda *a: list(zip(*a))}[e.func.id](*args)
            except (TypeError, ValueError) as x:
                raise Raised(type(x).__name__)
        if isinstance(e.func, ast.Attribute) and e.func.attr in _STR_METHODS and not e.keywords:
            recv = ev(e.func.value, env)
            if not isinstance(recv, str):
                raise Unsupported(U(e))
            args = [ev(a, env) for a in e.args]
            return getattr(recv, e.func.attr)(*args)
        if isinstance(e.func, ast.Attribute) and e.func.attr == "get" and not e.keywords:
            recv = ev(e.func.value, env)
            if isinstance(recv, dict):
                return recv.get(*[ev(a, env) for a in e.args])
        if isinstance(e.func, ast.Attribute) and e.func.attr in ("items", "keys", "values") and not e.keywords and not e.args:
            recv = ev(e.func.value, env)
            if isinstance(recv, dict):
                return [tuple(x) if e.func.attr == "items" else x for x in getattr(recv, e.func.attr)()]
        if isinstance(e.func, ast.Attribute) and e.func.attr == "format":
            recv = ev(e.func.value, env)
            if isinstance(recv, str):
                return recv.format(*[ev(a, env) for a in e.args])
        # a call to another pure function the caller made known (e.g. a helper of the same module)
        fn = env.get("__functions__", {}).get(e.func.id) if isinstance(e.func, ast.Name) else None
        if fn is not None and env.get("__depth__", 0) < 4:
            params = [a.arg for a in fn.args.posonlyargs + fn.args.args + fn.args.kwonlyargs]
            dflt = dict(zip([a.arg for a in fn.args.args][len(fn.args.args) - len(fn.args.defaults):], fn.args.defaults))
            actual = dict(zip(params, [ev(a, env) for a in e.args]))
            for k in e.keywords:
                actual[k.arg] = ev(k.value, env)
            for p in params:
                if p not in actual:
                    if p not in dflt:
                        raise Unsupported("missing argument %s" % p)
                    actual[p] = ev(dflt[p], env)
            env2 = dict(actual)
            env2["__functions__"] = env.get("__functions__", {})
            env2["__globals__"] = env.get("__globals__", {})
            env2["__depth__"] = env.get("__depth__", 0) + 1
            r = run_block(fn.body, env2)
            return r[1] if r is not None else None
        raise Unsupported("call " + U(e)[:60])
    if isinstance(e, ast.JoinedStr):
        out = []
        for part in e.values:
            if isinstance(part, ast.Constant):
                out.append(str(part.value))
            elif isinstance(part, ast.FormattedValue):
                v = ev(part.value, env)
                if part.conversion == ord("r"):
                    v = repr(v)
                elif part.conversion == ord("s"):
                    v = str(v)
                spec = ev(part.format_spec, env) if part.format_spec is not None else ""
                out.append(format(v, spec))
            else:
                raise Unsupported("f-string part")
        return "".join(out)
    if isinstance(e, (ast.ListComp, ast.GeneratorExp, ast.SetComp, ast.DictComp)) and not any(g.is_async for g in e.generators) and (
            len(e.generators) > 1 or isinstance(e, ast.DictComp) or not isinstance(e.generators[0].target, ast.Name)):
        # several generators / tuple targets / dict comprehensions
        def bind(t, item, env3):
            if isinstance(t, ast.Name):
                env3[t.id] = item
            elif isinstance(t, (ast.Tuple, ast.List)):
                item = list(item)
                if len(item) != len(t.elts):
                    raise Raised("ValueError")
                for tt, it_ in zip(t.elts, item):
                    bind(tt, it_, env3)
            else:
                raise Unsupported(U(e)[:60])

        def rec(i, env2):
            if i == len(e.generators):
                yield env2
                return
            g = e.generators[i]
            for item in ev(g.iter, env2):
                env3 = dict(env2)
                bind(g.target, item, env3)
                if all(ev(c, env3) for c in g.ifs):
                    yield from rec(i + 1, env3)
        if isinstance(e, ast.DictComp):
            return {ev(e.key, x): ev(e.value, x) for x in rec(0, env)}
        out = [ev(e.elt, x) for x in rec(0, env)]
        return frozenset(out) if isinstance(e, ast.SetComp) else out
    if isinstance(e, (ast.ListComp, ast.GeneratorExp, ast.SetComp)) and len(e.generators) == 1 and not e.generators[0].is_async:
        g = e.generators[0]
        if not isinstance(g.target, ast.Name):
            raise Unsupported(U(e))
        out = []
        for item in ev(g.iter, env):
            env2 = dict(env)
            env2[g.target.id] = item
            if all(ev(c, env2) for c in g.ifs):
                out.append(ev(e.elt, env2))
        return frozenset(out) if isinstance(e, ast.SetComp) else out
    raise Unsupported(type(e).__name__ + ": " + U(e)[:60])


def run_block(stmts, env):
    """Execute a statement list; returns ('return', value) or None when control falls through."""
    for s in stmts:
        if isinstance(s, ast.Expr) and isinstance(s.value, ast.Constant):
            continue  # docstring
        if isinstance(s, ast.Return):
            return ("return", ev(s.value, env) if s.value is not None else None)
        if isinstance(s, ast.Raise):
            name = "Exception"
            if s.exc is not None:
                t = s.exc.func if isinstance(s.exc, ast.Call) else s.exc
                name = U(t)
            raise Raised(name)
        if isinstance(s, ast.If):
            r = run_block(s.body if ev(s.test, env) else s.orelse, env)
            if r is not None:
                return r
            continue
        if isinstance(s, ast.Assign) and len(s.targets) == 1 and isinstance(s.targets[0], ast.Name):
            env[s.targets[0].id] = ev(s.value, env)
            continue
        if isinstance(s, ast.Assign) and len(s.targets) == 1 and isinstance(s.targets[0], ast.Subscript) \
                and isinstance(s.targets[0].value, ast.Name) and isinstance(env.get(s.targets[0].value.id), dict):
            env[s.targets[0].value.id][ev(s.targets[0].slice, env)] = ev(s.value, env)
            continue
        if isinstance(s, ast.For) and not s.orelse:
            # a loop over a value that folded to a finite collection (closed initialisers such as a table built at import time)
            it = ev(s.iter, env)
            if isinstance(it, dict):
                it = list(it)
            if not isinstance(it, (list, tuple, str, frozenset, set, range)):
                raise Unsupported("loop over " + U(s.iter)[:60])
            if isinstance(it, (set, frozenset)):
                it = sorted(it)
            for item in it:
                env["__steps__"] = env.get("__steps__", 0) + 1
                if env["__steps__"] > 20000:
                    raise Unsupported("loop too long")
                if isinstance(s.target, ast.Name):
                    env[s.target.id] = item
                elif isinstance(s.target, (ast.Tuple, ast.List)) and all(isinstance(t, ast.Name) for t in s.target.elts) \
                        and isinstance(item, (tuple, list)) and len(item) == len(s.target.elts):
                    for t, v in zip(s.target.elts, item):
                        env[t.id] = v
                else:
                    raise Unsupported("loop target " + U(s.target))
                r = run_block(s.body, env)
                if r is not None:
                    return r
            continue
        if isinstance(s, ast.Expr) and isinstance(s.value, ast.Call) and isinstance(s.value.func, ast.Attribute) \
                and isinstance(s.value.func.value, ast.Name) and s.value.func.value.id in env and not s.value.keywords \
                and s.value.func.attr in ("append", "extend", "add", "update", "setdefault", "insert"):
            recv = env[s.value.func.value.id]
            if isinstance(recv, (list, dict, set)):
                getattr(recv, s.value.func.attr)(*[ev(a, env) for a in s.value.args])
                continue
        if isinstance(s, ast.AugAssign) and isinstance(s.target, ast.Name) and s.target.id in env and isinstance(s.op, (ast.Add, ast.Mult, ast.Sub)):
            env[s.target.id] = ev(ast.BinOp(left=ast.Name(id=s.target.id, ctx=ast.Load()), op=s.op, right=s.value), env)
            continue
        if isinstance(s, ast.Pass):
            continue
        raise Unsupported("statement " + U(s)[:60])
    return None


def call(func_node, *args, functions=None, globals=None):
    """Fold `func_node(*args)`: ('return', value) / ('raise', exception name). Unsupported propagates.
    `functions`: name -> FunctionDef of other pure functions the body may call; `globals`: name -> value expression
    of module-level constants."""
    params = [a.arg for a in func_node.args.posonlyargs + func_node.args.args]
    if len(params) != len(args):
        raise Unsupported("arity")
    env = dict(zip(params, args))
    env["__functions__"] = functions or {}
    env["__globals__"] = globals or {}
    try:
        r = run_block(func_node.body, env)
    except Raised as x:
        return ("raise", x.name)
    return r if r is not None else ("return", None)
