"""E15: one spelling for imported names.

`from string import digits` / `import string` + `string.digits`, `from copy import deepcopy` / `copy.deepcopy`,
`import networkx as nx` / `import networkx`, ... are the same program. Every use of an imported name is resolved to its
fully qualified origin (`string.digits`) and then written the way the reviewed tree writes it in that file
(spec/import_forms.json: per file, local name -> origin). An origin no reference binding covers is written fully
qualified. Only imports from outside the analysed package are touched; a name that a function binds itself (parameter,
assignment, loop variable, ...) is left alone inside that function; star imports and relative imports are ignored.
Imports inside functions (lazy imports) bind a local name and are treated like module-level ones for the function they
are in.
"""
import ast
import json
import os

SPEC = os.path.join(os.path.dirname(os.path.dirname(os.path.dirname(os.path.abspath(__file__)))), "spec", "import_forms.json")
_ref = None


def reference():
    global _ref
    if _ref is None:
        try:
            _ref = json.load(open(SPEC))
        except OSError:
            _ref = {}
    return _ref


def bindings(tree, pkg="osaca"):
    """local name -> fully qualified origin, for imports from outside the package anywhere in the module"""
    out = {}
    for n in ast.walk(tree):
        if isinstance(n, ast.Import):
            for a in n.names:
                if a.name.split(".")[0] == pkg:
                    continue
                if a.asname:
                    out[a.asname] = a.name
                else:
                    out[a.name.split(".")[0]] = a.name.split(".")[0]
        elif isinstance(n, ast.ImportFrom) and n.level == 0 and n.module and n.module.split(".")[0] != pkg:
            for a in n.names:
                if a.name != "*":
                    out[a.asname or a.name] = n.module + "." + a.name
    return out


def _locals_of(fn):
    names = {a.arg for a in fn.args.posonlyargs + fn.args.args + fn.args.kwonlyargs}
    if fn.args.vararg:
        names.add(fn.args.vararg.arg)
    if fn.args.kwarg:
        names.add(fn.args.kwarg.arg)
    for x in ast.walk(fn):
        if isinstance(x, ast.Name) and isinstance(x.ctx, (ast.Store, ast.Del)):
            names.add(x.id)
        elif isinstance(x, ast.ExceptHandler) and x.name:
            names.add(x.name)
    return names


def _chain(node):
    """(root Name, [attr, ...]) of an attribute chain, or None"""
    attrs = []
    while isinstance(node, ast.Attribute):
        attrs.append(node.attr)
        node = node.value
    if isinstance(node, ast.Name):
        return node, list(reversed(attrs))
    return None


def _expr_of(path):
    parts = path.split(".")
    e = ast.Name(id=parts[0], ctx=ast.Load())
    for p in parts[1:]:
        e = ast.Attribute(value=e, attr=p, ctx=ast.Load())
    return e


class _Respell(ast.NodeTransformer):
    def __init__(self, cur, ref):
        self.cur, self.ref = cur, ref
        self.shadow = [set()]
        self.count = 0
        # reference spellings, longest origin first
        self.ref_by_origin = sorted(((o, n) for n, o in ref.items()), key=lambda t: -len(t[0]))

    def visit_FunctionDef(self, n):
        self.shadow.append(self.shadow[-1] | _locals_of(n))
        self.generic_visit(n)
        self.shadow.pop()
        return n

    visit_AsyncFunctionDef = visit_FunctionDef

    def visit_Lambda(self, n):
        self.shadow.append(self.shadow[-1] | {a.arg for a in n.args.args})
        self.generic_visit(n)
        self.shadow.pop()
        return n

    def _spell(self, origin):
        for o, name in self.ref_by_origin:
            if origin == o:
                return name
            if origin.startswith(o + "."):
                return name + origin[len(o):]
        return origin

    def _rewrite(self, node):
        ch = _chain(node)
        if ch is None:
            return None
        root, attrs = ch
        if not isinstance(root.ctx, ast.Load) or root.id in self.shadow[-1] or root.id not in self.cur:
            return None
        origin = ".".join([self.cur[root.id]] + attrs)
        # the longest prefix of the chain that is the import itself is re-spelled; the rest are attribute accesses
        new = self._spell(origin)
        old = ".".join([root.id] + attrs)
        if new == old:
            return None
        self.count += 1
        e = _expr_of(new)
        for x in ast.walk(e):
            ast.copy_location(x, node)
        if isinstance(getattr(node, "ctx", None), ast.Store):
            return None
        return e

    def visit_Attribute(self, n):
        r = self._rewrite(n)
        if r is not None:
            return r
        self.generic_visit(n)
        return n

    def visit_Name(self, n):
        r = self._rewrite(n)
        return r if r is not None else n


def respell(rel, tree):
    """Rewrite the uses of imported names in `tree` (module `rel`) to the reference spelling; returns the number of
    re-spelled uses."""
    ref = reference().get(rel)
    if ref is None:
        return 0
    cur = bindings(tree)
    if cur == ref:
        return 0
    # module-level rebinding of an imported name makes the resolution unsafe
    for n in tree.body:
        if isinstance(n, (ast.Assign, ast.AnnAssign, ast.AugAssign, ast.FunctionDef, ast.ClassDef)):
            for x in (ast.walk(n) if isinstance(n, (ast.Assign, ast.AnnAssign, ast.AugAssign)) else [n]):
                nm = x.id if isinstance(x, ast.Name) and isinstance(x.ctx, ast.Store) else getattr(x, "name", None) if x is n else None
                if nm in cur:
                    cur = {k: v for k, v in cur.items() if k != nm}
    t = _Respell(cur, ref)
    t.visit(tree)
    return t.count
