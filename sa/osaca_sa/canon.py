"""Source canonicalisation: spellings that cannot change behaviour are mapped to one form before any rule looks at
the tree (and the same mapping is applied to every pattern), so that no verdict depends on which of them a
programmer chose.

  C1  a single-operator comparison has its operands in canonical order: a literal goes to the right, otherwise the
      operand with the smaller canonical text goes left; `<`/`<=`/`>`/`>=` are flipped accordingly
      (`b > a` == `a < b`; evaluation order of the two operands is irrelevant to every rule here).
  C2  `not (a == b)` -> `a != b`, `not (a in b)` -> `a not in b`, `not (a is b)` -> `a is not b` and vice versa.
      (`not (a < b)` is NOT rewritten: it differs from `a >= b` for unordered values.)
  C3  a conditional expression, and an `if` statement with an `else`/`elif` part, tests the positive form: `X if not c else Y` -> `Y if c else X`; `!=`, `not in`, `is not` in the test are flipped to
      `==`, `in`, `is` with the branches swapped.
  C4  `x = x + k` / `x = x - k` with a numeric literal k -> `x += k` / `x -= k`.
  C6  a chained comparison `a < b <= c` is written as the conjunction `a < b and b <= c`.
  C7  `True if c else False` -> `c` (`bool(c)` when c is not syntactically a boolean); `False if c else True` -> `not c`.
  C8  `[k for _ in range(n)]` with a constant k -> `[k] * n`.
  C9  `f(**{'k': v})` with literal keys -> `f(k=v)`.
  C10 `if c: x = A else: x = B` -> `x = A if c else B`.
  C11 `sum([... for ...])` (any, all, max, min, sorted, set, tuple, list) -> `sum(... for ...)`.
  C12 `a, b = x, y` (plain names, no name read on the right) -> `a = x; b = y`.
  C13 an annotated assignment `x: T = v` -> `x = v`; a bare declaration `x: T` is dropped (annotations of
      parameters and returns are never looked at).
  C14 an f-string -> `"<template>".format(<values>)` (constant format specs and conversions kept).
  C15 `if c: ...; return x  else: REST` (also raise / continue / break) -> the `if` without `else`, followed by REST.
  C16 a chained assignment of a constant `a = b = 0.0` -> `a = 0.0; b = 0.0`.
  C17 `x = []` + `for t in it: [if c:] x.append(e)` -> `x = [e for t in it if c]`.
  C18 in a loop body `if c: continue` followed by REST -> `if not c: REST` (guard clauses of loops are nested).
  C21 (De Morgan) an if / conditional expression whose test is an and/or of negative tests only has its branches
      swapped and tests the or/and of the positive ones.
  C22 `return A and B or C` over boolean-valued tests (also a single comparison, `bool(<and/or>)`, `any(<generator>)`) ->
      nested `if`s / a loop with literal `return True` / `return False`.
  C23 `yield a, (X if c else Y)` -> `if c: yield a, X else: yield a, Y`.
  C20 loops / list and dict comprehensions / any() / all() over a display of at most 8 constants are written out (_Unroll).
  C19 the operands of an `and` / `or` are sorted where the order cannot matter: all pure, no None, boolean context or
      boolean-valued operands, and no access path read by two operands (one operand may guard the other's evaluation).
  C5  statements without effect (a bare constant expression that is not a docstring; `pass` in a block that has
      other statements) are dropped.

Positions of the surviving nodes are kept.
"""
import ast

_FLIP = {ast.Lt: ast.Gt, ast.Gt: ast.Lt, ast.LtE: ast.GtE, ast.GtE: ast.LtE}
_NEG = {ast.Eq: ast.NotEq, ast.NotEq: ast.Eq, ast.In: ast.NotIn, ast.NotIn: ast.In, ast.Is: ast.IsNot, ast.IsNot: ast.Is}
_NEGATIVE = (ast.NotEq, ast.NotIn, ast.IsNot)


def is_literal(e):
    return isinstance(e, ast.Constant) or (isinstance(e, ast.UnaryOp) and isinstance(e.op, (ast.USub, ast.UAdd))
                                           and isinstance(e.operand, ast.Constant))


def _order(l, r):
    """True when (l, r) must be swapped."""
    lc, rc = is_literal(l), is_literal(r)
    if lc and not rc:
        return True
    if lc == rc:
        return ast.unparse(l) > ast.unparse(r)
    return False


def _has_meta(e):
    return any(isinstance(n, ast.Name) and (n.id.startswith("M_") or n.id == "REST_") for n in ast.walk(e))


PURE_PREDICATES = {"isinstance", "len", "bool", "str", "int", "callable", "hasattr"}
PURE_STR_METHODS = {"lower", "upper", "startswith", "endswith", "strip", "lstrip", "rstrip", "isdigit", "isalpha"}


def _pure_operand(e):
    for x in ast.walk(e):
        if isinstance(x, (ast.Await, ast.Yield, ast.YieldFrom, ast.NamedExpr, ast.Subscript, ast.Lambda)):
            return False
        if isinstance(x, ast.Call):
            ok = (isinstance(x.func, ast.Name) and x.func.id in PURE_PREDICATES) or (
                isinstance(x.func, ast.Attribute) and x.func.attr in PURE_STR_METHODS)
            if not ok or x.keywords:
                return False
    return True


def _paths(e):
    """the access paths an operand reads: `a`, `a.b`, `a.b.c` for `a.b.c` (a bare `self` is not counted)"""
    out = set()
    for x in ast.walk(e):
        if isinstance(x, ast.Name) and x.id != "self":
            out.add(x.id)
        elif isinstance(x, ast.Attribute):
            try:
                out.add(ast.unparse(x))
            except Exception:
                pass
    return out


def _is_bool_valued(e):
    if isinstance(e, ast.Compare):
        return True
    if isinstance(e, ast.UnaryOp) and isinstance(e.op, ast.Not):
        return True
    if isinstance(e, ast.BoolOp):
        return all(_is_bool_valued(v) for v in e.values)
    if isinstance(e, ast.Constant) and isinstance(e.value, bool):
        return True
    if isinstance(e, ast.Call) and isinstance(e.func, ast.Name) and e.func.id in ("isinstance", "bool", "callable", "hasattr", "any", "all"):
        return True
    if isinstance(e, ast.Call) and isinstance(e.func, ast.Attribute) and e.func.attr in ("startswith", "endswith", "isdigit", "isalpha"):
        return True
    if isinstance(e, ast.Call) and isinstance(e.func, ast.Attribute) and e.func.attr.lstrip("_").split("_")[0] in ("is", "has"):
        return True         # the package's predicates (is_vector_register, _is_x86_reg_type, has_hidden_loads, ...) return booleans
    return False


def _any_gen(e):
    """(generator) when e is any(<one-`for` generator / list comprehension>)"""
    if isinstance(e, ast.Call) and isinstance(e.func, ast.Name) and e.func.id == "any" and len(e.args) == 1 and not e.keywords \
            and isinstance(e.args[0], (ast.GeneratorExp, ast.ListComp)) and len(e.args[0].generators) == 1 \
            and not e.args[0].generators[0].is_async:
        return e.args[0]
    return None


def _any_loop(ge, body, at):
    """`if any(E for t in it if c): BODY` (BODY leaves the function) as a loop: for t in it: if c and E: BODY"""
    g = ge.generators[0]
    test = ge.elt if not g.ifs else ast.BoolOp(op=ast.And(), values=list(g.ifs) + [ge.elt])
    test._boolctx = True
    inner = ast.If(test=test, body=body, orelse=[])
    loop = ast.For(target=g.target, iter=g.iter, body=[inner], orelse=[])
    for x in (inner, loop):
        ast.copy_location(x, at)
    if not hasattr(test, "lineno"):
        ast.copy_location(test, at)
    return loop


def mark_bool_contexts(tree):
    """marks (attribute `_boolctx`) every expression whose value is only tested for truth: the tests of if / while /
    conditional expressions / assert / comprehension filters, the operand of `not`, and the operands of a marked and/or"""
    def mark(e):
        if e is None or getattr(e, "_boolctx", False):
            return
        e._boolctx = True
        if isinstance(e, ast.BoolOp):
            for v in e.values:
                mark(v)
        elif isinstance(e, ast.IfExp):
            mark(e.body)
            mark(e.orelse)
        elif isinstance(e, ast.Call) and isinstance(e.func, ast.Name) and e.func.id == "bool" and len(e.args) == 1 and not e.keywords:
            mark(e.args[0])
    for n in ast.walk(tree):
        if isinstance(n, (ast.If, ast.While, ast.IfExp, ast.Assert)):
            mark(n.test)
        elif isinstance(n, ast.comprehension):
            for c in n.ifs:
                mark(c)
        elif isinstance(n, ast.UnaryOp) and isinstance(n.op, ast.Not):
            mark(n.operand)
    return tree


def swappable(n):
    """The operands of this and/or may be written in any order without a change of behaviour:
    every operand is pure (no call beyond a few total predicates, no subscript); the value is only tested for truth or
    every operand is boolean-valued (so `x or default` keeps its order); no operand mentions None; and no access path is
    read by two operands (so `isinstance(x, T) and x.name == ..`, `x and x.y`, `op.kind == 'mem' and op.base ..` - one
    operand guarding the other's evaluation - keep their order)."""
    if not all(_pure_operand(v) for v in n.values):
        return False
    if any(isinstance(x, ast.Constant) and x.value is None for v in n.values for x in ast.walk(v)):
        return False
    if not (getattr(n, "_boolctx", False) or all(_is_bool_valued(v) for v in n.values)):
        return False
    seen = set()
    for v in n.values:
        p = _paths(v)
        if p & seen:
            return False
        seen |= p
    return True


class _Canon(ast.NodeTransformer):
    def __init__(self, pattern=False):
        self.pattern = pattern

    # C1
    def visit_Compare(self, n):
        self.generic_visit(n)
        if len(n.ops) > 1:
            # C6: a chained comparison is the conjunction of its links
            parts, left = [], n.left
            for op, right in zip(n.ops, n.comparators):
                parts.append(self.visit_Compare(ast.copy_location(ast.Compare(left=left, ops=[op], comparators=[right]), n)))
                left = right
            return ast.copy_location(ast.BoolOp(op=ast.And(), values=parts), n)
        if len(n.ops) == 1:
            op = n.ops[0]
            l, r = n.left, n.comparators[0]
            if isinstance(op, (ast.Eq, ast.NotEq)) or type(op) in _FLIP:
                # in a pattern the operand order is left alone when a metavariable is involved (the matcher tries both)
                if not (self.pattern and (_has_meta(l) or _has_meta(r))) and _order(l, r):
                    n.left, n.comparators = r, [l]
                    if type(op) in _FLIP:
                        n.ops = [_FLIP[type(op)]()]
        return n

    # C2
    # C19: operands of `and` / `or` are written in sorted order where the order cannot matter (see `swappable`)
    def visit_BoolOp(self, n):
        self.generic_visit(n)
        if not self.pattern and any(isinstance(v, ast.Constant) and isinstance(v.value, bool) for v in n.values):
            # constant operands (a helper expanded with a constant flag): `False or x` is x, `True and x` is x,
            # `True or x` is True, `False and x` is False (the operands before the deciding constant are kept: they are evaluated)
            neutral = isinstance(n.op, ast.And)
            vals = []
            for v in n.values:
                if isinstance(v, ast.Constant) and isinstance(v.value, bool):
                    if v.value is neutral:
                        continue
                    vals.append(v)
                    break
                vals.append(v)
            if not vals:
                return ast.copy_location(ast.Constant(value=neutral), n)
            if len(vals) == 1:
                return vals[0]
            n.values = vals
        if swappable(n) and not any(_has_meta(v) for v in n.values):
            n.values = sorted(n.values, key=lambda v: ast.unparse(v))
        return n

    def visit_UnaryOp(self, n):
        self.generic_visit(n)
        if isinstance(n.op, ast.Not) and isinstance(n.operand, ast.Compare) and len(n.operand.ops) == 1 \
                and type(n.operand.ops[0]) in _NEG:
            c = n.operand
            c.ops = [_NEG[type(c.ops[0])]()]
            return ast.copy_location(c, n)
        return n

    # C3
    @staticmethod
    def _positive(test):
        """(positive test, swapped?)"""
        if isinstance(test, ast.UnaryOp) and isinstance(test.op, ast.Not):
            return test.operand, True
        if isinstance(test, ast.Compare) and len(test.ops) == 1 and isinstance(test.ops[0], _NEGATIVE):
            test.ops = [_NEG[type(test.ops[0])]()]
            return test, True
        # C21 (De Morgan): a conjunction / disjunction of negative tests only is the negation of the disjunction /
        # conjunction of the positive ones
        if isinstance(test, ast.BoolOp) and all(
                (isinstance(v, ast.UnaryOp) and isinstance(v.op, ast.Not)) or
                (isinstance(v, ast.Compare) and len(v.ops) == 1 and isinstance(v.ops[0], _NEGATIVE)) for v in test.values):
            vals = []
            for v in test.values:
                if isinstance(v, ast.UnaryOp):
                    vals.append(v.operand)
                else:
                    v.ops = [_NEG[type(v.ops[0])]()]
                    vals.append(v)
            new = ast.copy_location(ast.BoolOp(op=ast.Or() if isinstance(test.op, ast.And) else ast.And(), values=vals), test)
            if getattr(test, "_boolctx", False):
                new._boolctx = True
                for v in vals:
                    v._boolctx = True
            if swappable(new):
                new.values = sorted(new.values, key=lambda v: ast.unparse(v))
            return new, True
        return test, False

    @staticmethod
    def _boolean(e):
        if isinstance(e, ast.Compare):
            return True
        if isinstance(e, ast.UnaryOp) and isinstance(e.op, ast.Not):
            return True
        if isinstance(e, ast.BoolOp):
            return all(_Canon._boolean(v) for v in e.values)
        if isinstance(e, ast.Call) and isinstance(e.func, ast.Name) and e.func.id in ("isinstance", "any", "all", "bool", "callable", "hasattr"):
            return True
        if isinstance(e, ast.Call) and isinstance(e.func, ast.Attribute) and e.func.attr in ("startswith", "endswith", "isdigit", "exists"):
            return True
        return False

    def visit_IfExp(self, n):
        self.generic_visit(n)
        if isinstance(n.test, ast.Constant) and isinstance(n.test.value, bool) and not self.pattern:
            return n.body if n.test.value else n.orelse      # (a helper expanded with a constant flag argument)
        # C25: where only the truth value counts, `X if c else False` is `c and X` and `bool(X)` is X
        if getattr(n, "_boolctx", False) and not self.pattern and isinstance(n.orelse, ast.Constant) and n.orelse.value is False:
            body = n.body
            while isinstance(body, ast.Call) and isinstance(body.func, ast.Name) and body.func.id == "bool" and len(body.args) == 1 and not body.keywords:
                body = body.args[0]
            vals = (list(n.test.values) if isinstance(n.test, ast.BoolOp) and isinstance(n.test.op, ast.And) else [n.test]) + (
                list(body.values) if isinstance(body, ast.BoolOp) and isinstance(body.op, ast.And) else [body])
            new = ast.copy_location(ast.BoolOp(op=ast.And(), values=vals), n)
            new._boolctx = True
            for v_ in vals:
                v_._boolctx = True
            return new
        t, sw = self._positive(n.test)
        if sw:
            n.test, n.body, n.orelse = t, n.orelse, n.body
        # C7: `True if c else False` is c (bool(c) when c is not known to be a boolean); `False if c else True` is not c
        if isinstance(n.body, ast.Constant) and isinstance(n.orelse, ast.Constant) and not self.pattern:
            if n.body.value is True and n.orelse.value is False:
                c = n.test if self._boolean(n.test) else ast.Call(func=ast.Name(id="bool", ctx=ast.Load()), args=[n.test], keywords=[])
                return ast.copy_location(c, n)
            if n.body.value is False and n.orelse.value is True:
                return self.visit_UnaryOp(ast.copy_location(ast.UnaryOp(op=ast.Not(), operand=n.test), n))
        return n

    # C8: [e for _ in range(n)] with a constant element is [e] * n
    def visit_ListComp(self, n):
        self.generic_visit(n)
        if len(n.generators) == 1 and not n.generators[0].ifs and isinstance(n.elt, ast.Constant) \
                and isinstance(n.generators[0].iter, ast.Call) and isinstance(n.generators[0].iter.func, ast.Name) \
                and n.generators[0].iter.func.id == "range" and len(n.generators[0].iter.args) == 1 and not self.pattern:
            return ast.copy_location(ast.BinOp(left=ast.List(elts=[n.elt], ctx=ast.Load()), op=ast.Mult(), right=n.generators[0].iter.args[0]), n)
        return n

    def visit_If(self, n):
        self.generic_visit(n)
        n.body = self._strip(n.body)
        n.orelse = self._strip(n.orelse) if n.orelse else n.orelse
        if not self.pattern:
            n.body = self._split_tuple_assign(n.body)
            n.orelse = self._split_tuple_assign(n.orelse) if n.orelse else n.orelse
        if not self.pattern:
            n.body = self._loop_to_comp(self._guard_first(self._unelse(n.body)))
            n.orelse = self._loop_to_comp(self._guard_first(self._unelse(n.orelse))) if n.orelse else n.orelse
        leaves = lambda b: bool(b) and isinstance(b[-1], (ast.Return, ast.Raise, ast.Continue, ast.Break))
        size = lambda b: sum(1 for st in b for x in ast.walk(st) if isinstance(x, ast.stmt))
        if n.orelse and not self.pattern and leaves(n.orelse) and (not leaves(n.body) or size(n.orelse) < size(n.body)):
            # C15 (preparation): the branch that leaves (the shorter one when both leave) becomes the body - a guard
            # clause - so that the enclosing block can drop the `else`
            neg = self._negate(n.test)
            n.test, n.body, n.orelse = neg, n.orelse, n.body
        elif n.orelse and not self.pattern and leaves(n.body) and (not leaves(n.orelse) or size(n.body) < size(n.orelse)):
            pass        # already in guard form
        elif n.orelse:
            t, sw = self._positive(n.test)
            if sw:
                n.test, n.body, n.orelse = t, n.orelse, n.body
        # C24: `if T is not V: T = V` (a store skipped when the location already holds that very object) is `T = V`
        if not self.pattern and not n.orelse and len(n.body) == 1 and isinstance(n.body[0], ast.Assign) and len(n.body[0].targets) == 1 \
                and isinstance(n.test, ast.Compare) and len(n.test.ops) == 1 and isinstance(n.test.ops[0], ast.IsNot):
            tgt, val = ast.unparse(n.body[0].targets[0]), ast.unparse(n.body[0].value)
            sides = {ast.unparse(n.test.left), ast.unparse(n.test.comparators[0])}
            chain = lambda e: isinstance(e, ast.Name) or (isinstance(e, (ast.Attribute, ast.Subscript)) and chain(e.value) and (
                not isinstance(e, ast.Subscript) or isinstance(e.slice, (ast.Name, ast.Constant))))
            if sides == {tgt, val} and tgt != val and chain(n.body[0].targets[0]) and chain(n.body[0].value):
                return ast.copy_location(n.body[0], n)
        # C10: `if c: x = A else: x = B` is `x = A if c else B`
        if len(n.body) == 1 and len(n.orelse) == 1 and isinstance(n.body[0], ast.Assign) and isinstance(n.orelse[0], ast.Assign) \
                and len(n.body[0].targets) == 1 and len(n.orelse[0].targets) == 1 \
                and isinstance(n.body[0].targets[0], (ast.Name, ast.Attribute)) \
                and ast.unparse(n.body[0].targets[0]) == ast.unparse(n.orelse[0].targets[0]) and not self.pattern:
            new = ast.Assign(targets=[n.body[0].targets[0]],
                             value=ast.IfExp(test=n.test, body=n.body[0].value, orelse=n.orelse[0].value))
            ast.copy_location(new, n)
            ast.copy_location(new.value, n)
            return new
        return n

    # C23: `yield a, (X if c else Y)` (a conditional expression as one element of a yielded tuple whose other elements are
    # plain names / constants / attribute reads) is `if c: yield a, X` / `else: yield a, Y`
    def visit_Expr(self, n):
        self.generic_visit(n)
        v = n.value
        if self.pattern or not isinstance(v, ast.Yield) or not isinstance(v.value, ast.Tuple):
            return n
        elts = v.value.elts
        conds = [i for i, e in enumerate(elts) if isinstance(e, ast.IfExp)]
        simple = lambda e: isinstance(e, (ast.Name, ast.Constant)) or (isinstance(e, ast.Attribute) and isinstance(e.value, ast.Name))
        if len(conds) != 1 or not all(simple(e) for i, e in enumerate(elts) if i != conds[0]) or _has_meta(v):
            return n
        ie = elts[conds[0]]

        def stmt(branch):
            new_elts = [_deep(e) for e in elts]
            new_elts[conds[0]] = branch
            y = ast.Expr(value=ast.Yield(value=ast.Tuple(elts=new_elts, ctx=ast.Load())))
            for x in ast.walk(y):
                ast.copy_location(x, n)
            return y
        test = ie.test
        test._boolctx = True
        new = ast.copy_location(ast.If(test=test, body=[stmt(ie.body)], orelse=[stmt(ie.orelse)]), n)
        return self.visit_If(new) if False else new

    # C22: `return <and/or/not of boolean-valued tests>` is written as the decision tree with literal returns
    def visit_Return(self, n):
        self.generic_visit(n)
        v = n.value
        if self.pattern or v is None or _has_meta(v) or getattr(n, "_keep_expr", False):
            return n
        if isinstance(v, ast.Call) and isinstance(v.func, ast.Name) and v.func.id == "bool" and len(v.args) == 1 and not v.keywords \
                and isinstance(v.args[0], (ast.BoolOp, ast.UnaryOp)):
            # bool(<and/or/not>): only the truth of the operands matters
            for x in ([v.args[0]] + list(getattr(v.args[0], "values", []))):
                x._boolctx = True
            v = v.args[0]
            truthy = True
        else:
            truthy = False
        if _any_gen(v) is not None or (isinstance(v, ast.Compare) and len(v.ops) == 1):
            v = ast.copy_location(ast.BoolOp(op=ast.Or(), values=[v]), v)
        if not isinstance(v, (ast.BoolOp, ast.UnaryOp)) or not (truthy or _is_bool_valued(v)):
            return n
        if isinstance(v, ast.UnaryOp) and not isinstance(v.op, ast.Not):
            return n

        def lit(b):
            return ast.copy_location(ast.Return(value=ast.copy_location(ast.Constant(value=b), n)), n)

        def tree(e, yes, no):
            """statements deciding e: run `yes` (a list ending in return) when e holds, else fall through to `no`"""
            if isinstance(e, ast.BoolOp) and isinstance(e.op, ast.Or):
                out = []
                for x in e.values:
                    out.extend(tree(x, yes, []))
                return out + no
            if isinstance(e, ast.BoolOp) and isinstance(e.op, ast.And) and any(isinstance(x, ast.BoolOp) or _any_gen(x) is not None for x in e.values):
                inner = yes
                for x in reversed(e.values):
                    inner = tree(x, inner, [])
                return inner + no
            if isinstance(e, ast.UnaryOp) and isinstance(e.op, ast.Not) and isinstance(e.operand, ast.BoolOp):
                # not (A or B): decided by the operand with the outcomes exchanged is not expressible without else;
                # keep it as one test
                pass
            e._boolctx = True
            if _any_gen(e) is not None and yes and isinstance(yes[-1], ast.Return):
                return [_any_loop(_any_gen(e), [_deep(s) for s in yes], n)] + no
            return [ast.copy_location(ast.If(test=e, body=[_deep(s) for s in yes], orelse=[]), n)] + no

        return tree(v, [lit(True)], [lit(False)])

    # C9: f(**{"k": v, ...}) with literal string keys is f(k=v, ...)
    def visit_Call(self, n):
        self.generic_visit(n)
        # C11: a list comprehension consumed at once by a reducing builtin is a generator expression
        if isinstance(n.func, ast.Name) and n.func.id in ("sum", "any", "all", "max", "min", "sorted", "set", "frozenset", "tuple",
                                                           "list", "dict") and n.args and isinstance(n.args[0], ast.ListComp):
            lc = n.args[0]
            n.args[0] = ast.copy_location(ast.GeneratorExp(elt=lc.elt, generators=lc.generators), lc)
        new = []
        for k in n.keywords:
            if k.arg is None and isinstance(k.value, ast.Dict) and k.value.keys and all(
                    isinstance(x, ast.Constant) and isinstance(x.value, str) and x.value.isidentifier() for x in k.value.keys):
                for kk, vv in zip(k.value.keys, k.value.values):
                    new.append(ast.copy_location(ast.keyword(arg=kk.value, value=vv), k.value))
            else:
                new.append(k)
        n.keywords = new
        return n

    # C4
    def visit_Assign(self, n):
        self.generic_visit(n)
        if len(n.targets) == 1 and isinstance(n.targets[0], ast.Name) and isinstance(n.value, ast.BinOp) \
                and isinstance(n.value.op, (ast.Add, ast.Sub)) and isinstance(n.value.left, ast.Name) \
                and n.value.left.id == n.targets[0].id and isinstance(n.value.right, ast.Constant) \
                and isinstance(n.value.right.value, (int, float)) and not isinstance(n.value.right.value, bool):
            new = ast.AugAssign(target=ast.Name(id=n.targets[0].id, ctx=ast.Store()), op=n.value.op, value=n.value.right)
            ast.copy_location(new, n)
            ast.copy_location(new.target, n.targets[0])
            return new
        return n

    # C14: an f-string is written as "<template>".format(<values>) (the older spelling the rules know)
    def visit_JoinedStr(self, n):
        for v in n.values:                  # (format specs are not visited: they must stay JoinedStr nodes)
            if isinstance(v, ast.FormattedValue):
                v.value = self.visit(v.value)
        tmpl, args = "", []
        for v in n.values:
            if isinstance(v, ast.Constant) and isinstance(v.value, str):
                tmpl += v.value.replace("{", "{{").replace("}", "}}")
            elif isinstance(v, ast.FormattedValue):
                spec = ""
                if v.format_spec is not None:
                    fs = v.format_spec      # (already visited: a constant spec has become a plain Constant)
                    if isinstance(fs, ast.Constant):
                        spec = ":" + str(fs.value)
                    elif isinstance(fs, ast.JoinedStr) and all(isinstance(x, ast.Constant) for x in fs.values):
                        spec = ":" + "".join(str(x.value) for x in fs.values)
                    else:
                        return n            # nested replacement field in the format spec: left alone
                conv = {-1: "", 115: "!s", 114: "!r", 97: "!a"}.get(v.conversion, None)
                if conv is None:
                    return n
                tmpl += "{" + conv + spec + "}"
                args.append(v.value)
            else:
                return n
        if not args:
            return ast.copy_location(ast.Constant(value=tmpl.replace("{{", "{").replace("}}", "}")), n)
        call = ast.Call(func=ast.Attribute(value=ast.Constant(value=tmpl), attr="format", ctx=ast.Load()), args=args, keywords=[])
        return ast.fix_missing_locations(ast.copy_location(call, n))

    # C13: `x: T = v` is `x = v`; a bare declaration `x: T` has no effect
    def visit_AnnAssign(self, n):
        self.generic_visit(n)
        if n.value is None:
            return ast.copy_location(ast.Pass(), n)
        new = ast.Assign(targets=[n.target], value=n.value)
        return self.visit_Assign_post(ast.copy_location(new, n))

    def visit_Assign_post(self, n):
        # (the C4 rewrite for an assignment that was produced from an annotated one)
        if len(n.targets) == 1 and isinstance(n.targets[0], ast.Name) and isinstance(n.value, ast.BinOp) \
                and isinstance(n.value.op, (ast.Add, ast.Sub)) and isinstance(n.value.left, ast.Name) \
                and n.value.left.id == n.targets[0].id and isinstance(n.value.right, ast.Constant) \
                and isinstance(n.value.right.value, (int, float)) and not isinstance(n.value.right.value, bool):
            new = ast.AugAssign(target=ast.Name(id=n.targets[0].id, ctx=ast.Store()), op=n.value.op, value=n.value.right)
            ast.copy_location(new, n)
            ast.copy_location(new.target, n.targets[0])
            return new
        return n

    # C5
    @staticmethod
    def _strip(body, keep_doc=False):
        out = []
        for i, s in enumerate(body):
            if isinstance(s, ast.Expr) and isinstance(s.value, ast.Constant) and not (keep_doc and i == 0):
                continue
            if isinstance(s, ast.Pass):
                continue
            if isinstance(s, ast.Assign) and len(s.targets) == 1 and isinstance(s.targets[0], ast.Name) \
                    and isinstance(s.value, ast.Name) and s.value.id == s.targets[0].id:
                continue        # x = x
            out.append(s)
        if not out:
            out = [body[0]] if body else body
        return out

    @staticmethod
    def _split_tuple_assign(body):
        """C12: `a, b = x, y` (names on the left, none of them read on the right) is `a = x; b = y`.
        C16: `a = b = <constant>` is `a = <constant>; b = <constant>` (an immutable value: no aliasing is lost)."""
        out = []
        for s in body:
            if isinstance(s, ast.Assign) and len(s.targets) > 1 and isinstance(s.value, ast.Constant) \
                    and all(isinstance(t, (ast.Name, ast.Attribute)) for t in s.targets):
                for t in reversed(s.targets):       # Python assigns left to right; order is irrelevant for a constant
                    pass
                for t in s.targets:
                    out.append(ast.copy_location(ast.Assign(targets=[t], value=s.value), s))
                continue
            if isinstance(s, ast.Assign) and len(s.targets) == 1 and isinstance(s.targets[0], ast.Tuple) \
                    and isinstance(s.value, ast.Tuple) and len(s.value.elts) == len(s.targets[0].elts) \
                    and all(isinstance(t, ast.Name) for t in s.targets[0].elts) \
                    and not any(isinstance(v, ast.Starred) for v in s.value.elts):
                pairs = list(zip(s.targets[0].elts, s.value.elts))
                # positions that assign a name to itself (`a, b = a, f(a)`) do nothing and do not block the split
                live = [(t, v) for t, v in pairs if not (isinstance(v, ast.Name) and v.id == t.id)]
                names = {t.id for t, _ in live}
                read = {x.id for _, v in live for x in ast.walk(v) if isinstance(x, ast.Name)}
                if not (names & read) and len(names) == len(live) and len({t.id for t, _ in pairs}) == len(pairs):
                    for t, v in live:
                        out.append(ast.copy_location(ast.Assign(targets=[t], value=v), s))
                    if not live:
                        out.append(ast.copy_location(ast.Pass(), s))
                    continue
            out.append(s)
        return out

    # C15: `if c: ...; return/raise/continue/break  else: REST` -> the `if` without else, followed by REST
    @staticmethod
    def _loop_to_comp(body):
        """C17: `x = []` directly followed by `for t in it: [if c: ...] x.append(e)` (nothing else in the loop, x not read
        in it / c / e, no else) is `x = [e for t in it if c]`."""
        out, i = [], 0
        while i < len(body):
            s = body[i]
            nxt = body[i + 1] if i + 1 < len(body) else None
            done = False
            if isinstance(s, ast.Assign) and len(s.targets) == 1 and isinstance(s.targets[0], ast.Name) and isinstance(s.value, ast.List) \
                    and not s.value.elts and isinstance(nxt, ast.For) and not nxt.orelse and len(nxt.body) == 1:
                name = s.targets[0].id
                inner, conds = nxt.body[0], []
                while isinstance(inner, ast.If) and not inner.orelse and len(inner.body) == 1:
                    conds.append(inner.test)
                    inner = inner.body[0]
                if isinstance(inner, ast.Expr) and isinstance(inner.value, ast.Call) and isinstance(inner.value.func, ast.Attribute) \
                        and inner.value.func.attr == "append" and isinstance(inner.value.func.value, ast.Name) \
                        and inner.value.func.value.id == name and len(inner.value.args) == 1 and not inner.value.keywords:
                    elt = inner.value.args[0]
                    reads = {x.id for e in [nxt.iter, elt] + conds for x in ast.walk(e) if isinstance(x, ast.Name)}
                    binds = {x.id for x in ast.walk(nxt.target) if isinstance(x, ast.Name)}
                    if name not in reads and name not in binds and not any(isinstance(x, (ast.Yield, ast.YieldFrom, ast.Await)) for e in [elt] + conds for x in ast.walk(e)):
                        comp = ast.ListComp(elt=elt, generators=[ast.comprehension(target=nxt.target, iter=nxt.iter, ifs=conds, is_async=0)])
                        new = ast.Assign(targets=[s.targets[0]], value=comp)
                        ast.copy_location(new, s)
                        ast.copy_location(comp, s)
                        out.append(new)
                        i += 2
                        done = True
            if not done:
                out.append(s)
                i += 1
        return out

    def _guard_first(self, body):
        """[..., if c: A (leaves), *REST (leaves at its end, shorter than A)] -> [..., if not c: REST, *A]: of two exits the
        shorter one is the guard clause, whichever way it was written."""
        leaves = lambda b: bool(b) and isinstance(b[-1], (ast.Return, ast.Raise, ast.Continue, ast.Break))
        size = lambda b: sum(1 for st in b for x in ast.walk(st) if isinstance(x, ast.stmt))
        for i, st in enumerate(body):
            if isinstance(st, ast.If) and not st.orelse and leaves(st.body) and i + 1 < len(body):
                rest = body[i + 1:]
                if leaves(rest) and size(rest) < size(st.body) and not any(isinstance(x, (ast.FunctionDef, ast.ClassDef)) for x in rest):
                    neg = self._negate(st.test)
                    a = st.body
                    st.test, st.body = neg, rest
                    return body[:i + 1] + self._guard_first(a)
        return body

    @classmethod
    def _unelse(cls, body):
        out = []
        for st in body:
            if isinstance(st, ast.If) and st.orelse and st.body and isinstance(st.body[-1], (ast.Return, ast.Raise, ast.Continue, ast.Break)):
                rest = st.orelse
                st.orelse = []
                out.append(st)
                out.extend(cls._unelse(rest))
            else:
                out.append(st)
        return out

    def _block(self, n, doc=False):
        self.generic_visit(n)
        for f in ("body", "orelse", "finalbody"):
            b = getattr(n, f, None)
            if isinstance(b, list) and b and isinstance(b[0], ast.stmt):
                b = self._strip(b, keep_doc=doc and f == "body")
                if not self.pattern:
                    b = self._loop_to_comp(self._guard_first(self._unelse(self._split_tuple_assign(b))))
                setattr(n, f, b)
        return n

    def visit_FunctionDef(self, n):
        # a function whose whole body is one `return <expression>` is a named expression: it stays one (C22 does not apply),
        # so that it can still be expanded in place where it is called
        body = [st for st in n.body if not (isinstance(st, ast.Expr) and isinstance(st.value, ast.Constant))]
        if len(body) == 1 and isinstance(body[0], ast.Return):
            body[0]._keep_expr = True
        return self._block(n, doc=True)

    visit_AsyncFunctionDef = visit_FunctionDef

    def visit_ClassDef(self, n):
        return self._block(n, doc=True)

    def visit_Module(self, n):
        return self._block(n, doc=True)

    def _negate(self, test):
        """canonical negation of a test (`not not x` is x in a test position)"""
        if isinstance(test, ast.UnaryOp) and isinstance(test.op, ast.Not):
            return test.operand
        return self.visit_UnaryOp(ast.copy_location(ast.UnaryOp(op=ast.Not(), operand=test), test))

    # C18: in a loop body, `if c: continue` followed by REST is `if not c: REST`
    def _nest_continue(self, body):
        for i, st in enumerate(body):
            if isinstance(st, ast.If) and not st.orelse and len(st.body) == 1 and isinstance(st.body[0], ast.Continue) and i + 1 < len(body):
                rest = self._nest_continue(body[i + 1:])
                neg = self._negate(st.test)
                new = ast.copy_location(ast.If(test=neg, body=rest, orelse=[]), st)
                return body[:i] + [new]
        return body

    def visit_For(self, n):
        n = self._block(n)
        if not self.pattern and isinstance(n, (ast.For, ast.While)):
            n.body = self._nest_continue(n.body)
        return n

    visit_While = visit_For
    visit_With = visit_For
    visit_Try = visit_For

    def visit_ExceptHandler(self, n):
        return self._block(n)


# ---- C20: loops / comprehensions over a small display of constants are written out ------------------------------------
_UNROLL_MAX_ITEMS = 8
_UNROLL_MAX_STMTS = 80


def _const_item(e):
    if is_literal(e) or isinstance(e, ast.Name) or (isinstance(e, ast.Attribute) and isinstance(e.value, ast.Name)):
        return True     # (a plain name / attribute read: the loop must not rebind it, see _Unroll.visit_For)
    return isinstance(e, ast.Tuple) and bool(e.elts) and all(is_literal(x) for x in e.elts)


def _const_display(e):
    return isinstance(e, (ast.Tuple, ast.List)) and 1 <= len(e.elts) <= _UNROLL_MAX_ITEMS and all(_const_item(x) for x in e.elts)


def _int_value(e, consts):
    """value of an integer expression built from literals, named instance constants (self.X) and + - *"""
    if isinstance(e, ast.Constant) and type(e.value) is int:
        return e.value
    if isinstance(e, ast.Attribute) and isinstance(e.value, ast.Name) and e.value.id == "self" and e.attr in consts:
        return consts[e.attr]
    if isinstance(e, ast.UnaryOp) and isinstance(e.op, ast.USub):
        v = _int_value(e.operand, consts)
        return None if v is None else -v
    if isinstance(e, ast.BinOp) and isinstance(e.op, (ast.Add, ast.Sub, ast.Mult)):
        a, b = _int_value(e.left, consts), _int_value(e.right, consts)
        if a is None or b is None:
            return None
        return a + b if isinstance(e.op, ast.Add) else a - b if isinstance(e.op, ast.Sub) else a * b
    return None


def _as_display(e, consts):
    """the iterable as a display of at most 8 constant items: a display itself, or range() over integer constants"""
    if _const_display(e):
        return e
    if isinstance(e, ast.Call) and isinstance(e.func, ast.Name) and e.func.id == "range" and 1 <= len(e.args) <= 3 and not e.keywords:
        vals = [_int_value(a, consts) for a in e.args]
        if any(v is None for v in vals) or (len(vals) == 3 and vals[2] == 0):
            return None
        items = list(range(*vals)) if len(range(*vals)) <= _UNROLL_MAX_ITEMS else None
        if items:
            return ast.copy_location(ast.Tuple(elts=[ast.copy_location(ast.Constant(value=v), e) for v in items], ctx=ast.Load()), e)
    return None


def instance_constants(tree):
    """attribute name -> int for attributes stored exactly once in the module, as `self.X = <int literal>` inside a method
    (or `X = <int literal>` in a class body, never stored as an attribute): named constants such as a maximum count"""
    stores, vals = {}, {}
    for n in ast.walk(tree):
        if isinstance(n, ast.Attribute) and isinstance(n.ctx, (ast.Store, ast.Del)):
            stores[n.attr] = stores.get(n.attr, 0) + 1
        if isinstance(n, (ast.Assign, ast.AnnAssign, ast.AugAssign)):
            tg = n.targets if isinstance(n, ast.Assign) else [n.target]
            for t in tg:
                for x in ast.walk(t):
                    if isinstance(x, ast.Attribute) and isinstance(n, ast.Assign) and len(tg) == 1 and x is t \
                            and isinstance(x.value, ast.Name) and x.value.id == "self" \
                            and isinstance(n.value, ast.Constant) and type(n.value.value) is int:
                        vals.setdefault(x.attr, []).append(n.value.value)
    for c in ast.walk(tree):
        if isinstance(c, ast.ClassDef):
            for st in c.body:
                if isinstance(st, ast.Assign) and len(st.targets) == 1 and isinstance(st.targets[0], ast.Name):
                    nm = st.targets[0].id
                    if isinstance(st.value, ast.Constant) and type(st.value.value) is int:
                        vals.setdefault(nm, []).append(st.value.value)
                        stores[nm] = stores.get(nm, 0) + 1
                    else:
                        stores[nm] = stores.get(nm, 0) + 2
    return {k: v[0] for k, v in vals.items() if len(v) == 1 and stores.get(k, 0) == 1}


def _binding(target, item):
    """loop target -> {name: constant node} for one item, or None"""
    if isinstance(target, ast.Name):
        return {target.id: item}
    if isinstance(target, (ast.Tuple, ast.List)) and isinstance(item, ast.Tuple) and len(target.elts) == len(item.elts) \
            and all(isinstance(t, ast.Name) for t in target.elts):
        return {t.id: v for t, v in zip(target.elts, item.elts)}
    return None


class _SubstConst(ast.NodeTransformer):
    def __init__(self, mapping):
        self.mapping = mapping

    def visit_Name(self, n):
        if isinstance(n.ctx, ast.Load) and n.id in self.mapping:
            return ast.copy_location(_deep(self.mapping[n.id]), n)
        return n

    def visit_Compare(self, n):
        self.generic_visit(n)
        # constant folding of what the substitution produced: 'a' == 'a', 'a' in ('a', 'b')
        if len(n.ops) == 1 and isinstance(n.left, ast.Constant):
            r, op = n.comparators[0], n.ops[0]
            if isinstance(r, ast.Constant) and isinstance(op, (ast.Eq, ast.NotEq)) and type(r.value) is type(n.left.value):
                v = (n.left.value == r.value) == isinstance(op, ast.Eq)
                return ast.copy_location(ast.Constant(value=v), n)
            if isinstance(r, (ast.Tuple, ast.List, ast.Set)) and all(isinstance(x, ast.Constant) for x in r.elts) \
                    and isinstance(op, (ast.In, ast.NotIn)):
                v = (n.left.value in [x.value for x in r.elts]) == isinstance(op, ast.In)
                return ast.copy_location(ast.Constant(value=v), n)
        return n

    def visit_If(self, n):
        self.generic_visit(n)
        if isinstance(n.test, ast.Constant) and isinstance(n.test.value, bool):
            return (n.body if n.test.value else n.orelse) or [ast.copy_location(ast.Pass(), n)]
        return n

    # names built from a substituted constant: "operand{}".format(1), "operand%d" % 1, "operand" + str(1), f"operand{1}"
    def visit_Call(self, n):
        self.generic_visit(n)
        simple = lambda x: isinstance(x, ast.Constant) and type(x.value) in (int, str)
        if not n.keywords and n.args and all(simple(a) for a in n.args):
            if isinstance(n.func, ast.Attribute) and n.func.attr == "format" and isinstance(n.func.value, ast.Constant) \
                    and isinstance(n.func.value.value, str):
                try:
                    return ast.copy_location(ast.Constant(value=n.func.value.value.format(*[a.value for a in n.args])), n)
                except Exception:
                    return n
            if isinstance(n.func, ast.Name) and n.func.id == "str" and len(n.args) == 1:
                return ast.copy_location(ast.Constant(value=str(n.args[0].value)), n)
        return n

    def visit_BinOp(self, n):
        self.generic_visit(n)
        l, r = n.left, n.right
        if isinstance(l, ast.Constant) and isinstance(l.value, str):
            if isinstance(n.op, ast.Add) and isinstance(r, ast.Constant) and isinstance(r.value, str):
                return ast.copy_location(ast.Constant(value=l.value + r.value), n)
            if isinstance(n.op, ast.Mod):
                args = r.elts if isinstance(r, ast.Tuple) else [r]
                if all(isinstance(a, ast.Constant) and type(a.value) in (int, str) for a in args):
                    try:
                        return ast.copy_location(ast.Constant(value=l.value % tuple(a.value for a in args)), n)
                    except Exception:
                        return n
        return n

    def visit_JoinedStr(self, n):
        self.generic_visit(n)
        parts = []
        for v in n.values:
            if isinstance(v, ast.Constant) and isinstance(v.value, str):
                parts.append(v.value)
            elif isinstance(v, ast.FormattedValue) and v.conversion == -1 and v.format_spec is None \
                    and isinstance(v.value, ast.Constant) and type(v.value.value) in (int, str):
                parts.append(str(v.value.value))
            else:
                return n
        return ast.copy_location(ast.Constant(value="".join(parts)), n)

    def visit_IfExp(self, n):
        self.generic_visit(n)
        if isinstance(n.test, ast.Constant) and isinstance(n.test.value, bool):
            return n.body if n.test.value else n.orelse
        return n


def _deep(n):
    if isinstance(n, list):
        return [_deep(x) for x in n]
    if not isinstance(n, ast.AST):
        return n
    new = type(n)()
    for f in n._fields:
        if hasattr(n, f):
            setattr(new, f, _deep(getattr(n, f)))
    for a in n._attributes:
        if hasattr(n, a):
            setattr(new, a, getattr(n, a))
    if getattr(n, "_boolctx", False):
        new._boolctx = True
    return new


def _names_in(nodes, ctx=None, skip_nested=False):
    out = set()
    stack = list(nodes)
    while stack:
        x = stack.pop()
        if isinstance(x, ast.Name) and (ctx is None or isinstance(x.ctx, ctx)):
            out.add(x.id)
        stack.extend(ast.iter_child_nodes(x))
    return out


def _own_level(stmts, types):
    """nodes of the given types in stmts that belong to this loop level (not to a nested loop / function)"""
    stack = list(stmts)
    while stack:
        x = stack.pop()
        if isinstance(x, types):
            return True
        if isinstance(x, (ast.For, ast.While, ast.AsyncFor)):
            stack.extend(x.orelse)
            continue
        if isinstance(x, (ast.FunctionDef, ast.AsyncFunctionDef, ast.Lambda, ast.ClassDef)):
            continue
        stack.extend(ast.iter_child_nodes(x))
    return False


def _captured(stmts, names):
    for s in stmts:
        for x in ast.walk(s):
            if isinstance(x, (ast.Lambda, ast.FunctionDef, ast.AsyncFunctionDef)):
                if _names_in([x]) & names:
                    return True
    return False


class _Unroll(ast.NodeTransformer):
    """C20. A `for` over a display of at most 8 constants (or equal-length tuples of constants for a tuple target) whose
    body has no break / continue of its own and no else, whose loop variables are not assigned in the body, not captured by
    a nested function and not read after the loop, is written out with the constants substituted (and the comparisons
    between constants this produces folded). `x = [e for k in CONSTS if c]` becomes `x = []` followed by one guarded
    append per constant; a dict comprehension over constants without filter becomes a display; any()/all() over such a
    generator of boolean-valued tests becomes or/and."""

    def __init__(self, consts=None):
        self.changed = False
        self.fn_stack = []
        self.consts = consts or {}

    def visit_FunctionDef(self, n):
        self.fn_stack.append(n)
        self.generic_visit(n)
        self.fn_stack.pop()
        return n

    visit_AsyncFunctionDef = visit_FunctionDef

    def _read_outside(self, loop, names):
        if not self.fn_stack:
            return True
        fn = self.fn_stack[-1]
        inside = {id(x) for x in ast.walk(loop)}
        for x in ast.walk(fn):
            if isinstance(x, ast.Name) and x.id in names and id(x) not in inside:
                return True
        return False

    def _unrolled(self, target, items, body):
        out = []
        for it in items:
            b = _binding(target, it)
            if b is None:
                return None
            sub = _SubstConst(b)
            for st in body:
                r = sub.visit(_deep(st))
                out.extend(r if isinstance(r, list) else [r])
        return out

    def visit_For(self, n):
        self.generic_visit(n)
        disp = None if n.orelse else _as_display(n.iter, self.consts)
        if disp is None:
            return n
        orig_iter, n.iter = n.iter, disp
        out = self._unroll_for(n)
        if out is n:
            n.iter = orig_iter
        return out

    def _unroll_for(self, n):
        names = _names_in([n.target])
        if not names or _names_in(n.body, ast.Store) & names or _own_level(n.body, (ast.Break, ast.Continue)) \
                or _captured(n.body, names) or self._read_outside(n, names):
            return n
        # items that are plain names stand for the objects they name when the loop starts: the body must not rebind them
        item_names = {x.id for x in n.iter.elts if isinstance(x, ast.Name)}
        if item_names and (_names_in(n.body, ast.Store) & item_names or len(item_names) != len([x for x in n.iter.elts if isinstance(x, ast.Name)])):
            return n
        item_attrs = {ast.unparse(x) for x in n.iter.elts if isinstance(x, ast.Attribute)}
        if item_attrs:
            stored = {ast.unparse(x) for s_ in n.body for x in ast.walk(s_) if isinstance(x, ast.Attribute) and isinstance(x.ctx, (ast.Store, ast.Del))}
            bases = {x.value.id for x in n.iter.elts if isinstance(x, ast.Attribute)}
            if stored & item_attrs or _names_in(n.body, ast.Store) & bases:
                return n
        if len(n.iter.elts) * sum(1 for s in n.body for x in ast.walk(s) if isinstance(x, ast.stmt)) > _UNROLL_MAX_STMTS:
            return n
        out = self._unrolled(n.target, n.iter.elts, n.body)
        if out is None:
            return n
        self.changed = True
        return [ast.copy_location(s, n) if not hasattr(s, "lineno") else s for s in out] or [ast.copy_location(ast.Pass(), n)]

    def visit_Assign(self, n):
        self.generic_visit(n)
        v = n.value
        if len(n.targets) == 1 and isinstance(n.targets[0], ast.Name) and isinstance(v, ast.ListComp) and len(v.generators) == 1:
            g = v.generators[0]
            names = _names_in([g.target])
            if not g.is_async and (disp := _as_display(g.iter, self.consts)) is not None and names and not _captured([ast.Expr(value=v.elt)] + [ast.Expr(value=c) for c in g.ifs], names) \
                    and n.targets[0].id not in _names_in([v]):
                acc = n.targets[0].id
                call = ast.Expr(value=ast.Call(func=ast.Attribute(value=ast.Name(id=acc, ctx=ast.Load()), attr="append", ctx=ast.Load()),
                                               args=[v.elt], keywords=[]))
                st = call
                if g.ifs:
                    test = g.ifs[0] if len(g.ifs) == 1 else ast.BoolOp(op=ast.And(), values=list(g.ifs))
                    test._boolctx = True
                    st = ast.If(test=test, body=[call], orelse=[])
                for x in ast.walk(st):
                    ast.copy_location(x, n)
                out = self._unrolled(g.target, disp.elts, [st])
                if out is not None:
                    self.changed = True
                    first = ast.copy_location(ast.Assign(targets=n.targets, value=ast.copy_location(ast.List(elts=[], ctx=ast.Load()), n)), n)
                    return [first] + out
        return n

    def visit_DictComp(self, n):
        self.generic_visit(n)
        if len(n.generators) == 1:
            g = n.generators[0]
            if not g.is_async and not g.ifs and (disp := _as_display(g.iter, self.consts)) is not None and not _captured([ast.Expr(value=n.key), ast.Expr(value=n.value)], _names_in([g.target])):
                keys, vals = [], []
                for it in disp.elts:
                    b = _binding(g.target, it)
                    if b is None:
                        return n
                    sub = _SubstConst(b)
                    keys.append(sub.visit(_deep(n.key)))
                    vals.append(sub.visit(_deep(n.value)))
                if len({ast.unparse(k) for k in keys}) == len(keys):
                    self.changed = True
                    return ast.copy_location(ast.Dict(keys=keys, values=vals), n)
        return n

    def visit_Call(self, n):
        self.generic_visit(n)
        if isinstance(n.func, ast.Name) and n.func.id in ("any", "all") and len(n.args) == 1 and not n.keywords \
                and isinstance(n.args[0], (ast.GeneratorExp, ast.ListComp)) and len(n.args[0].generators) == 1:
            ge = n.args[0]
            g = ge.generators[0]
            if not g.is_async and not g.ifs and (disp := _as_display(g.iter, self.consts)) is not None and len(disp.elts) >= 2 and _is_bool_valued(ge.elt) \
                    and not _captured([ast.Expr(value=ge.elt)], _names_in([g.target])):
                vals = []
                for it in disp.elts:
                    b = _binding(g.target, it)
                    if b is None:
                        return n
                    vals.append(_SubstConst(b).visit(_deep(ge.elt)))
                self.changed = True
                new = ast.BoolOp(op=ast.Or() if n.func.id == "any" else ast.And(), values=vals)
                if getattr(n, "_boolctx", False):
                    new._boolctx = True
                return ast.copy_location(new, n)
        return n


def canonicalise(tree, pattern=False):
    mark_bool_contexts(tree)
    tree = _Canon(pattern).visit(tree)
    if not pattern:
        consts = instance_constants(tree)
        for _ in range(3):
            u = _Unroll(consts)
            tree = u.visit(tree)
            if not u.changed:
                break
            ast.fix_missing_locations(tree)
            mark_bool_contexts(tree)
            tree = _Canon(pattern).visit(tree)
    return tree


def canon_text(src):
    """Canonical text of an expression / statement given as source."""
    t = ast.parse(src.strip())
    t = canonicalise(t)
    if len(t.body) == 1 and isinstance(t.body[0], ast.Expr):
        return ast.unparse(t.body[0].value)
    return ast.unparse(t)
