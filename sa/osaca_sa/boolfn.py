"""E6: boolean skeleton of a side-effect-free decision function, as a reduced ordered BDD.

A decision function (returns of True/False/expressions, if chains, and/or/not, conditional
expressions, local aliases incl. conditionally assigned ones) is evaluated *symbolically* into a
boolean function of its atoms: maximal non-boolean sub-expressions, canonicalised (parameters
renamed by position, `x is not None` = not `x is None`, `a != b` = not `a == b`, `==` operands
ordered). Two functions agree iff their BDDs over the union of atoms are identical; a
disagreement is reported as one distinguishing assignment of the atoms.
Nothing of the analysed program is executed: the only evaluation is of the extracted formula.
"""
import ast

from .pm import U
from .srcmodel import AnalysisError


# ---------------------------------------------------------------------------------- ROBDD
class BDD:
    def __init__(self):
        self.var_index = {}
        self.var_names = []
        self.unique = {}
        self.nodes = [None, None]  # 0 = False, 1 = True
        self.ite_cache = {}

    def var(self, name):
        if name not in self.var_index:
            self.var_index[name] = len(self.var_names)
            self.var_names.append(name)
        return self._mk(self.var_index[name], 0, 1)

    def _mk(self, v, lo, hi):
        if lo == hi:
            return lo
        k = (v, lo, hi)
        n = self.unique.get(k)
        if n is None:
            n = len(self.nodes)
            self.nodes.append(k)
            self.unique[k] = n
        return n

    def _top(self, *fs):
        return min(self.nodes[f][0] for f in fs if f > 1)

    def _cof(self, f, v, val):
        if f <= 1 or self.nodes[f][0] != v:
            return f
        return self.nodes[f][2] if val else self.nodes[f][1]

    def ite(self, f, g, h):
        if f == 1:
            return g
        if f == 0:
            return h
        if g == h:
            return g
        if g == 1 and h == 0:
            return f
        k = (f, g, h)
        r = self.ite_cache.get(k)
        if r is not None:
            return r
        v = self._top(f, g, h)
        lo = self.ite(self._cof(f, v, 0), self._cof(g, v, 0), self._cof(h, v, 0))
        hi = self.ite(self._cof(f, v, 1), self._cof(g, v, 1), self._cof(h, v, 1))
        r = self._mk(v, lo, hi)
        self.ite_cache[k] = r
        return r

    def AND(self, a, b):
        return self.ite(a, b, 0)

    def OR(self, a, b):
        return self.ite(a, 1, b)

    def NOT(self, a):
        return self.ite(a, 0, 1)

    def XOR(self, a, b):
        return self.ite(a, self.NOT(b), b)

    def restrict(self, f, v, val, _memo=None):
        """f with variable index v fixed to val."""
        _memo = {} if _memo is None else _memo
        if f <= 1:
            return f
        if f in _memo:
            return _memo[f]
        fv, lo, hi = self.nodes[f]
        if fv == v:
            r = hi if val else lo
        elif fv > v:
            r = f
        else:
            r = self._mk(fv, self.restrict(lo, v, val, _memo), self.restrict(hi, v, val, _memo))
        _memo[f] = r
        return r

    def forall(self, f, names):
        for nm in names:
            if nm in self.var_index:
                v = self.var_index[nm]
                f = self.AND(self.restrict(f, v, 0), self.restrict(f, v, 1))
        return f

    def any_sat(self, f):
        """One satisfying assignment {atom: bool} of f (None if unsatisfiable)."""
        if f == 0:
            return None
        out = {}
        while f > 1:
            v, lo, hi = self.nodes[f]
            if hi != 0:
                out[self.var_names[v]] = True
                f = hi
            else:
                out[self.var_names[v]] = False
                f = lo
        return out

    def count_nodes(self, f):
        seen = set()
        work = [f]
        while work:
            n = work.pop()
            if n <= 1 or n in seen:
                continue
            seen.add(n)
            work.extend(self.nodes[n][1:])
        return len(seen)


# ---------------------------------------------------------------------------------- symbolic evaluation
class Undecidable(AnalysisError):
    pass


def _rename_params(func_node):
    """Map parameter names to positional canonical names (self stays)."""
    a = func_node.args
    names = [x.arg for x in a.posonlyargs + a.args + a.kwonlyargs]
    ren = {}
    i = 0
    for n in names:
        if n in ("self", "cls"):
            continue
        ren[n] = "P%d" % i
        i += 1
    return ren


class _Subst(ast.NodeTransformer):
    def __init__(self, env):
        self.env = env

    def visit_Name(self, n):
        if isinstance(n.ctx, ast.Load) and n.id in self.env:
            return self.env[n.id]
        return n


def _clone(node):
    if isinstance(node, list):
        return [_clone(x) for x in node]
    if not isinstance(node, ast.AST):
        return node
    new = type(node)()
    for f in node._fields:
        setattr(new, f, _clone(getattr(node, f, None)))
    return new


def subst(expr, env):
    return _Subst(env).visit(_clone(expr))


class Skeleton:
    """Boolean function `returns a truthy value` of one decision function."""

    def __init__(self, func_node, bdd, rename=None, inline=None):
        self.func = func_node
        self.bdd = bdd
        self.rename = rename if rename is not None else _rename_params(func_node)
        self.atoms = {}
        env = {k: ast.Name(id=v, ctx=ast.Load()) for k, v in self.rename.items()}
        body = [s for s in func_node.body
                if not (isinstance(s, ast.Expr) and isinstance(s.value, ast.Constant))]
        rt, alive, _ = self._block(body, env)
        self.result = rt  # falling off the end returns None (falsy)

    # ---- statements
    def _block(self, stmts, env):
        b = self.bdd
        ret_true = 0
        alive = 1
        for s in stmts:
            if alive == 0:
                break
            if isinstance(s, ast.Return):
                val = self._formula(s.value, env) if s.value is not None else 0
                ret_true = b.OR(ret_true, b.AND(alive, val))
                alive = 0
            elif isinstance(s, ast.If):
                c = self._formula(s.test, env)
                rt_b, al_b, env_b = self._block(s.body, dict(env))
                rt_o, al_o, env_o = self._block(s.orelse, dict(env))
                ret_true = b.OR(ret_true, b.AND(alive, b.ite(c, rt_b, rt_o)))
                alive = b.AND(alive, b.ite(c, al_b, al_o))
                # merge environments: conditionally assigned locals become conditional expressions
                for name in set(env_b) | set(env_o):
                    vb = env_b.get(name, env.get(name))
                    vo = env_o.get(name, env.get(name))
                    if vb is None or vo is None:
                        env[name] = vb if vb is not None else vo
                    elif vb is vo or (U(vb) == U(vo) and not _has_cond(vb) and not _has_cond(vo)):
                        env[name] = vb
                    else:
                        env[name] = self._mk_ifexp(c, vb, vo)
            elif isinstance(s, ast.Assign):
                val = subst(s.value, env)
                for t in s.targets:
                    if isinstance(t, ast.Name):
                        env[t.id] = val
                    else:
                        raise Undecidable("assignment to %s in a decision function" % U(t))
            elif isinstance(s, (ast.Pass,)):
                continue
            elif isinstance(s, ast.Expr) and isinstance(s.value, ast.Constant):
                continue
            elif isinstance(s, ast.Raise):
                alive = 0
            else:
                raise Undecidable("statement kind %s not understood in a decision function: %s" % (
                    type(s).__name__, U(s)[:80]))
        return ret_true, alive, env

    def _mk_ifexp(self, cond_bdd, a, b):
        n = ast.IfExp(test=ast.Constant(value=True), body=a, orelse=b)
        n._cond = cond_bdd
        return n

    # ---- expressions
    def _formula(self, e, env=None):
        b = self.bdd
        if env is not None:
            e = self._subst_keep(e, env)
        if isinstance(e, ast.Constant):
            return 1 if e.value else 0
        if isinstance(e, ast.BoolOp):
            vals = [self._formula(v) for v in e.values]
            out = vals[0]
            for v in vals[1:]:
                out = b.AND(out, v) if isinstance(e.op, ast.And) else b.OR(out, v)
            return out
        if isinstance(e, ast.UnaryOp) and isinstance(e.op, ast.Not):
            return b.NOT(self._formula(e.operand))
        # bool(<condition>) is that condition; xor / (in)equality of two truth values is a formula, not an atom
        if isinstance(e, ast.Call) and isinstance(e.func, ast.Name) and e.func.id == "bool" and len(e.args) == 1 and not e.keywords \
                and isinstance(e.args[0], (ast.BoolOp, ast.Compare, ast.UnaryOp, ast.IfExp)):
            return self._formula(e.args[0])

        def truthy(x):
            return isinstance(x, ast.Call) and isinstance(x.func, ast.Name) and x.func.id == "bool" and len(x.args) == 1
        if isinstance(e, ast.BinOp) and isinstance(e.op, ast.BitXor) and truthy(e.left) and truthy(e.right):
            return b.XOR(self._formula(e.left), self._formula(e.right))
        if isinstance(e, ast.Compare) and len(e.ops) == 1 and isinstance(e.ops[0], (ast.Eq, ast.NotEq)) and truthy(e.left) \
                and truthy(e.comparators[0]):
            x = b.XOR(self._formula(e.left), self._formula(e.comparators[0]))
            return x if isinstance(e.ops[0], ast.NotEq) else b.NOT(x)
        if isinstance(e, ast.IfExp):
            c = getattr(e, "_cond", None)
            if c is None:
                c = self._formula(e.test)
            return b.ite(c, self._formula(e.body), self._formula(e.orelse))
        if isinstance(e, ast.Compare) and len(e.ops) == 1 and isinstance(e.ops[0], (ast.In, ast.NotIn)) \
                and isinstance(e.comparators[0], (ast.Tuple, ast.List, ast.Set)) and e.comparators[0].elts:
            # membership in a literal display is the disjunction of the equalities
            out = 0
            for x in e.comparators[0].elts:
                out = b.OR(out, self._formula(ast.Compare(left=e.left, ops=[ast.Eq()], comparators=[x])))
            return b.NOT(out) if isinstance(e.ops[0], ast.NotIn) else out
        if isinstance(e, ast.Compare) and len(e.ops) > 1:
            parts = []
            left = e.left
            for op, right in zip(e.ops, e.comparators):
                parts.append(self._formula(ast.Compare(left=left, ops=[op], comparators=[right])))
                left = right
            out = parts[0]
            for p in parts[1:]:
                out = b.AND(out, p)
            return out
        # atom: lift conditional sub-expressions out of it
        ife = self._find_ifexp(e)
        if ife is not None:
            c = getattr(ife, "_cond", None)
            if c is None:
                c = self._formula(ife.test)
            ea = self._replace(e, ife, ife.body)
            eb = self._replace(e, ife, ife.orelse)
            return b.ite(c, self._formula(ea), self._formula(eb))
        return self._atom(e)

    def _subst_keep(self, e, env):
        """Substitute locals, keeping the _cond annotations of conditional values."""
        class T(ast.NodeTransformer):
            def visit_Name(s, n):
                if isinstance(n.ctx, ast.Load) and n.id in env:
                    return env[n.id]
                return n
        return T().visit(_clone_keep(e))

    def _find_ifexp(self, e):
        for n in ast.walk(e):
            if isinstance(n, ast.IfExp) and n is not e:
                return n
        return None

    def _replace(self, e, old, new):
        class T(ast.NodeTransformer):
            def visit_IfExp(s, n):
                if n is old:
                    return new
                return s.generic_visit(n)
        import copy
        # shallow structural copy that preserves identity of `old`
        return T().visit(_clone_keep(e, keep=old))

    def _atom(self, e):
        b = self.bdd
        neg = False
        if isinstance(e, ast.Compare):
            op = e.ops[0]
            l, r = e.left, e.comparators[0]
            if isinstance(op, ast.IsNot):
                neg, op = True, ast.Is()
            elif isinstance(op, ast.NotEq):
                neg, op = True, ast.Eq()
            elif isinstance(op, ast.NotIn):
                neg, op = True, ast.In()
            lt, rt = U(l), U(r)
            if isinstance(op, ast.Eq):
                if isinstance(r, ast.Constant) and r.value is None:
                    op = ast.Is()
                elif isinstance(l, ast.Constant) and l.value is None:
                    op, lt, rt = ast.Is(), rt, lt
                else:
                    lt, rt = sorted([lt, rt])
            sym = {ast.Eq: "==", ast.Is: "is", ast.In: "in", ast.Lt: "<", ast.LtE: "<=", ast.Gt: ">",
                   ast.GtE: ">="}.get(type(op), type(op).__name__)
            text = "%s %s %s" % (lt, sym, rt)
        else:
            text = U(e)
            if isinstance(e, ast.Call) and isinstance(e.func, ast.Name) and e.func.id == "bool" and len(e.args) == 1:
                text = U(e.args[0])
        self.atoms[text] = self.atoms.get(text, 0) + 1
        self.atom_nodes = getattr(self, "atom_nodes", {})
        self.atom_nodes.setdefault(text, e)
        v = b.var(text)
        return b.NOT(v) if neg else v


def _has_cond(node):
    return any(hasattr(n, "_cond") for n in ast.walk(node))


def _clone_keep(node, keep=None):
    """Clone an AST but keep `_cond` annotations (and the identity of `keep`)."""
    if isinstance(node, list):
        return [_clone_keep(x, keep) for x in node]
    if not isinstance(node, ast.AST):
        return node
    if node is keep:
        return node
    new = type(node)()
    for f in node._fields:
        setattr(new, f, _clone_keep(getattr(node, f, None), keep))
    if hasattr(node, "_cond"):
        new._cond = node._cond
    return new


def _theory(atom_nodes, bases=None, consts=None):
    """Pairs of atoms that cannot both be true (the atoms are otherwise treated as independent booleans):
    one expression equal to two different literals; one subject an instance of two unrelated classes; `E is None` together
    with an equality of E to a literal, an isinstance test of E, or any atom that dereferences E."""
    bases = bases or {}
    consts = consts or {}
    eq_lit, inst, none = {}, {}, {}

    def lit(x):
        # a named constant of the class (self.WILDCARD = "*") stands for its literal
        return ast.Constant(value=consts[U(x)]) if U(x) in consts else x
    for text, e in atom_nodes.items():
        if isinstance(e, ast.Compare) and len(e.ops) == 1:
            l, r, op = lit(e.left), lit(e.comparators[0]), e.ops[0]
            if isinstance(op, (ast.Eq, ast.NotEq)):
                for a, c in ((l, r), (r, l)):
                    if isinstance(c, ast.Constant) and c.value is not None and not isinstance(a, ast.Constant):
                        eq_lit.setdefault(U(a), []).append((text, repr(c.value)))
            if isinstance(op, (ast.Is, ast.IsNot, ast.Eq, ast.NotEq)):
                for a, c in ((l, r), (r, l)):
                    if isinstance(c, ast.Constant) and c.value is None:
                        none[U(a)] = text
        elif isinstance(e, ast.Call) and isinstance(e.func, ast.Name) and e.func.id == "isinstance" and len(e.args) == 2 \
                and isinstance(e.args[1], ast.Name):
            inst.setdefault(U(e.args[0]), []).append((text, e.args[1].id))
    out = []
    for subj, lst in eq_lit.items():
        for i, (t1, v1) in enumerate(lst):
            for t2, v2 in lst[i + 1:]:
                if v1 != v2:
                    out.append((t1, t2))
    def related(c1, c2):
        return c1 == c2 or c2 in bases.get(c1, ()) or c1 in bases.get(c2, ()) or c1 in ("dict", "object") or c2 in ("dict", "object") \
            or c1 not in bases or c2 not in bases
    for subj, lst in inst.items():
        for i, (t1, c1) in enumerate(lst):
            for t2, c2 in lst[i + 1:]:
                if not related(c1, c2):
                    out.append((t1, t2))
    for subj, tnone in none.items():
        for text, e in atom_nodes.items():
            if text == tnone:
                continue
            derefs = any(isinstance(n, (ast.Attribute, ast.Subscript)) and U(n.value) == subj for n in ast.walk(e))
            isinst = isinstance(e, ast.Call) and isinstance(e.func, ast.Name) and e.func.id == "isinstance" and e.args and U(e.args[0]) == subj
            eqlit = any(t == text for t, _ in eq_lit.get(subj, []))
            # E == <str method result>: a str is never None
            eqstr = (isinstance(e, ast.Compare) and len(e.ops) == 1 and isinstance(e.ops[0], ast.Eq) and any(
                U(a) == subj and isinstance(c, ast.Call) and isinstance(c.func, ast.Attribute)
                and c.func.attr in ("lower", "upper", "rstrip", "lstrip", "strip", "format", "join")
                for a, c in ((e.left, e.comparators[0]), (e.comparators[0], e.left))))
            if derefs or isinst or eqlit or eqstr:
                out.append((tnone, text))
    return out


def _congruence(atom_nodes):
    """Forbidden combinations (atoms true, atoms false) from the congruence of == with literals."""
    lit = {}      # (subject text, literal repr) -> atom text
    var = {}      # frozenset({A, B}) -> atom text
    for text, e in atom_nodes.items():
        if isinstance(e, ast.Compare) and len(e.ops) == 1 and isinstance(e.ops[0], (ast.Eq, ast.NotEq)):
            l, r = e.left, e.comparators[0]
            if isinstance(r, ast.Constant) and r.value is not None and not isinstance(l, ast.Constant):
                lit[(U(l), repr(r.value))] = text
            elif isinstance(l, ast.Constant) and l.value is not None and not isinstance(r, ast.Constant):
                lit[(U(r), repr(l.value))] = text
            elif not isinstance(l, ast.Constant) and not isinstance(r, ast.Constant):
                var[frozenset((U(l), U(r)))] = text
    out = []
    for pair, tv in var.items():
        if len(pair) != 2:
            continue
        a, b = sorted(pair)
        consts = {c for (s, c) in lit if s in (a, b)}
        for c in consts:
            ta, tb = lit.get((a, c)), lit.get((b, c))
            if ta and tb:
                out.append(([ta, tb], [tv]))
                out.append(([tv, ta], [tb]))
                out.append(([tv, tb], [ta]))
    return out


def compare(code_func, spec_func, axioms=(), bases=None, consts=None):
    """Compare two decision functions. Returns (equal, info)."""
    bdd = BDD()
    sk_spec = Skeleton(spec_func, bdd)
    sk_code = Skeleton(code_func, bdd)
    diff = bdd.XOR(sk_code.result, sk_spec.result)
    # axioms: pairs (a, b) of atom texts that cannot both be true
    nodes = dict(getattr(sk_spec, "atom_nodes", {}))
    nodes.update(getattr(sk_code, "atom_nodes", {}))
    theory = list(axioms) + _theory(nodes, bases, consts)
    for a, bb in theory:
        if a in bdd.var_index and bb in bdd.var_index:
            diff = bdd.AND(diff, bdd.NOT(bdd.AND(bdd.var(a), bdd.var(bb))))
    # congruence of equality with literals: (A == c) and (B == c) imply (A == B); (A == B) and (A == c) imply (B == c)
    for pos, neg in _congruence(nodes):
        if all(t in bdd.var_index for t in pos + neg):
            cube = 1
            for t in pos:
                cube = bdd.AND(cube, bdd.var(t))
            for t in neg:
                cube = bdd.AND(cube, bdd.NOT(bdd.var(t)))
            diff = bdd.AND(diff, bdd.NOT(cube))
    info = {
        "atoms_code": len(sk_code.atoms), "atoms_spec": len(sk_spec.atoms),
        "bdd_nodes": bdd.count_nodes(sk_code.result),
        "only_in_code": sorted(set(sk_code.atoms) - set(sk_spec.atoms)),
        "only_in_spec": sorted(set(sk_spec.atoms) - set(sk_code.atoms)),
    }
    if diff == 0:
        return True, info
    # atoms that occur only in the code (calls of new helpers, table look-ups, ...) are uninterpreted: the two functions
    # certainly differ only if they differ for EVERY value of those atoms
    PURE_FUNCS = {"isinstance", "len", "str", "int", "bool", "type"}
    PURE_METHODS = {"lower", "upper", "rstrip", "lstrip", "strip", "startswith", "endswith", "get"}

    def uninterpreted(text):
        nd = nodes.get(text)
        if nd is None:
            return False
        for c in ast.walk(nd):
            if isinstance(c, ast.Call):
                if isinstance(c.func, ast.Name) and c.func.id not in PURE_FUNCS:
                    return True
                if isinstance(c.func, ast.Attribute) and c.func.attr not in PURE_METHODS and not c.func.attr.startswith(("_is_", "_check_")):
                    return True
                if not isinstance(c.func, (ast.Name, ast.Attribute)):
                    return True
            if isinstance(c, (ast.Lambda, ast.GeneratorExp, ast.ListComp, ast.Dict)):
                return True
        return False
    opaque = [t for t in info["only_in_code"] if uninterpreted(t)]
    info["opaque_atoms"] = opaque
    if opaque:
        certain = bdd.forall(diff, opaque)
        if certain == 0:
            info["undetermined"] = True
        else:
            diff = certain
    w = bdd.any_sat(diff)
    full = dict(w)
    info["witness"] = {k: v for k, v in w.items()}
    # what do both say under the witness (other atoms False)?
    def evalf(f):
        while f > 1:
            v, lo, hi = bdd.nodes[f]
            f = hi if full.get(bdd.var_names[v], False) else lo
        return bool(f)
    info["code_says"] = evalf(sk_code.result)
    info["spec_says"] = evalf(sk_spec.result)
    return False, info
