"""E2: statement-level control-flow graph for one function, plus structural guard queries.

Nodes are the function's statement nodes (a compound statement's node stands for its header:
the `if`/`while` test, the `for` iteration step, the `with` entry) and the strings ENTRY / EXIT.
Edge attribute `label`: True / False (branch outcome), "iter"/"done" (for), "exc" (into a
handler), "return", "raise", "break", "continue", None (fall through).
Comprehensions, lambdas and nested defs are atomic.
"""
import ast

import networkx as nx

from .srcmodel import parent

ENTRY = "ENTRY"
EXIT = "EXIT"
_ATOMIC = (ast.FunctionDef, ast.AsyncFunctionDef, ast.ClassDef)


class CFG:
    def __init__(self, func_node):
        self.func = func_node
        self.G = nx.DiGraph()
        self.G.add_node(ENTRY)
        self.G.add_node(EXIT)
        self.nodes = []
        first = self._seq(func_node.body, EXIT, None, None, [])
        self.G.add_edge(ENTRY, first, label=None)
        self._idom = None
        self._ipdom = None
        self._stmt_of = {}
        for s in self.nodes:
            self._map_stmt(s)

    # ---- construction ---------------------------------------------------------------------
    def _edge(self, a, b, label=None):
        if self.G.has_edge(a, b):
            # keep both labels visible
            old = self.G.edges[a, b].get("label")
            if old != label:
                self.G.edges[a, b]["label"] = (old, label)
        else:
            self.G.add_edge(a, b, label=label)

    def _seq(self, stmts, nxt, brk, cont, exc):
        cur = nxt
        for s in reversed(stmts):
            cur = self._stmt(s, cur, brk, cont, exc)
        return cur

    def _stmt(self, s, nxt, brk, cont, exc):
        self.G.add_node(s)
        self.nodes.append(s)
        for h in exc:
            self._edge(s, h, "exc")
        if isinstance(s, ast.If):
            self._edge(s, self._seq(s.body, nxt, brk, cont, exc), True)
            self._edge(s, self._seq(s.orelse, nxt, brk, cont, exc), False)
        elif isinstance(s, ast.While):
            else_entry = self._seq(s.orelse, nxt, brk, cont, exc)
            body_entry = self._seq(s.body, s, nxt, s, exc)
            self._edge(s, body_entry, True)
            if not (isinstance(s.test, ast.Constant) and s.test.value is True):
                self._edge(s, else_entry, False)
        elif isinstance(s, (ast.For, ast.AsyncFor)):
            else_entry = self._seq(s.orelse, nxt, brk, cont, exc)
            body_entry = self._seq(s.body, s, nxt, s, exc)
            self._edge(s, body_entry, "iter")
            self._edge(s, else_entry, "done")
        elif isinstance(s, (ast.With, ast.AsyncWith)):
            self._edge(s, self._seq(s.body, nxt, brk, cont, exc), None)
        elif isinstance(s, ast.Try) or s.__class__.__name__ == "TryStar":
            fin_entry = self._seq(s.finalbody, nxt, brk, cont, exc) if s.finalbody else nxt
            handler_entries = []
            for h in s.handlers:
                handler_entries.append(self._seq(h.body, fin_entry, brk, cont, exc))
            else_entry = self._seq(s.orelse, fin_entry, brk, cont, exc) if s.orelse else fin_entry
            body_entry = self._seq(s.body, else_entry, brk, cont, handler_entries + exc)
            self._edge(s, body_entry, None)
        elif isinstance(s, ast.Return):
            self._edge(s, EXIT, "return")
        elif isinstance(s, ast.Raise):
            if not exc:
                self._edge(s, EXIT, "raise")
        elif isinstance(s, ast.Break):
            self._edge(s, brk if brk is not None else EXIT, "break")
        elif isinstance(s, ast.Continue):
            self._edge(s, cont if cont is not None else EXIT, "continue")
        elif s.__class__.__name__ == "Match":
            for case in s.cases:
                self._edge(s, self._seq(case.body, nxt, brk, cont, exc), "case")
            self._edge(s, nxt, "nomatch")
        else:
            self._edge(s, nxt, None)
        return s

    def _map_stmt(self, s):
        """Map every expression node that is evaluated *at* CFG node s to s."""
        if isinstance(s, ast.If) or isinstance(s, ast.While):
            roots = [s.test]
        elif isinstance(s, (ast.For, ast.AsyncFor)):
            roots = [s.target, s.iter]
        elif isinstance(s, (ast.With, ast.AsyncWith)):
            roots = [i for it in s.items for i in (it.context_expr, it.optional_vars) if i]
        elif isinstance(s, ast.Try) or s.__class__.__name__ == "TryStar":
            roots = []
        elif isinstance(s, _ATOMIC):
            roots = []
        elif s.__class__.__name__ == "Match":
            roots = [s.subject]
        else:
            roots = [s]
        self._stmt_of[id(s)] = s
        for r in roots:
            for n in ast.walk(r):
                self._stmt_of[id(n)] = s

    # ---- queries ---------------------------------------------------------------------------
    def node_of(self, n):
        """The CFG node at which AST node `n` is evaluated."""
        if n in (ENTRY, EXIT):
            return n
        cur = n
        while cur is not None:
            s = self._stmt_of.get(id(cur))
            if s is not None:
                return s
            cur = parent(cur)
        raise KeyError("node not in this function's CFG")

    def idom(self):
        if self._idom is None:
            self._idom = nx.immediate_dominators(self.G, ENTRY)
        return self._idom

    def ipdom(self):
        if self._ipdom is None:
            self._ipdom = nx.immediate_dominators(self.G.reverse(copy=True), EXIT)
        return self._ipdom

    @staticmethod
    def _dom(tree, a, b):
        cur = b
        seen = set()
        while True:
            if cur is a or cur == a:
                return True
            nxt = tree.get(cur)
            if nxt is None or nxt is cur or nxt == cur or id(cur) in seen:
                return False
            seen.add(id(cur))
            cur = nxt

    def dominates(self, a, b):
        """Every path ENTRY -> b passes through a (a == b counts)."""
        a, b = self.node_of(a), self.node_of(b)
        if b not in self.idom():
            return True  # b unreachable
        return self._dom(self.idom(), a, b)

    def postdominates(self, a, b):
        """Every path b -> EXIT passes through a."""
        a, b = self.node_of(a), self.node_of(b)
        if b not in self.ipdom():
            return True
        return self._dom(self.ipdom(), a, b)

    def reachable(self, a, b, avoid=(), within=None):
        """Is there a path a -> b (length >= 1) that avoids the nodes in `avoid`?
        With `within` (a loop node) only paths that stay inside that loop's body are considered
        (b may be the loop header itself)."""
        a, b = self.node_of(a), self.node_of(b)
        avoid = {id(self.node_of(x)) for x in avoid}
        inside = None
        if within is not None:
            inside = {id(n) for st in within.body for n in ast.walk(st)}
        seen = set()
        work = [t for t in self.G.successors(a)]
        while work:
            cur = work.pop()
            if id(cur) in seen:
                continue
            seen.add(id(cur))
            if cur is b or cur == b:
                return True
            if id(cur) in avoid:
                continue
            if inside is not None and (isinstance(cur, str) or id(cur) not in inside):
                continue
            work.extend(self.G.successors(cur))
        return False

    def before_on_all_paths(self, a, b):
        """Within one pass, a is executed before b on every path reaching b: a dominates b."""
        return self.dominates(a, b) and self.node_of(a) is not self.node_of(b)

    def succ_on(self, s, label):
        s = self.node_of(s)
        out = []
        for t in self.G.successors(s):
            lab = self.G.edges[s, t].get("label")
            labs = lab if isinstance(lab, tuple) else (lab,)
            if label in labs:
                out.append(t)
        return out

    def exits_loop_on_all_paths(self, s, loop):
        """From statement s, every path leaves `loop` without returning to its header."""
        s = self.node_of(s)
        body_ids = {id(n) for st in loop.body for n in ast.walk(st)}
        seen = set()
        work = [s]
        while work:
            cur = work.pop()
            if id(cur) in seen:
                continue
            seen.add(id(cur))
            for t in self.G.successors(cur):
                if t is loop:
                    return False
                if t == EXIT or id(t) not in body_ids:
                    continue
                work.append(t)
        return True


# ---- structural guards ------------------------------------------------------------------------


def _terminates(stmts):
    """Does this block always leave the enclosing block (return/raise/continue/break)?"""
    if not stmts:
        return False
    last = stmts[-1]
    if isinstance(last, (ast.Return, ast.Raise, ast.Continue, ast.Break)):
        return True
    if isinstance(last, ast.If):
        return _terminates(last.body) and _terminates(last.orelse)
    return False


def guards_of(node, stop=None):
    """Conditions known to hold when `node` is evaluated, from the enclosing structure.

    Returns a list of (test_expr, polarity). Sources: enclosing if/elif/else and while bodies,
    conditional expressions, `and`/`or` short-circuit operands to the left, comprehension `if`s,
    and preceding `if c: <always leaves>` statements in the enclosing blocks (=> not c).
    """
    out = []
    cur = node
    while cur is not None and cur is not stop:
        p = parent(cur)
        if p is None:
            break
        if isinstance(p, ast.If) or isinstance(p, ast.While):
            if cur in p.body:
                out.append((p.test, True))
            elif cur in p.orelse and isinstance(p, ast.If):
                out.append((p.test, False))
        elif isinstance(p, ast.IfExp):
            if cur is p.body:
                out.append((p.test, True))
            elif cur is p.orelse:
                out.append((p.test, False))
        elif isinstance(p, ast.BoolOp):
            idx = p.values.index(cur) if cur in p.values else -1
            for left in p.values[: max(idx, 0)]:
                out.append((left, isinstance(p.op, ast.And)))
        elif isinstance(p, ast.comprehension):
            if cur in p.ifs:
                for left in p.ifs[: p.ifs.index(cur)]:
                    out.append((left, True))
        elif isinstance(p, (ast.ListComp, ast.SetComp, ast.GeneratorExp, ast.DictComp)):
            elts = [p.elt] if not isinstance(p, ast.DictComp) else [p.key, p.value]
            if cur in elts:
                for g in p.generators:
                    for c in g.ifs:
                        out.append((c, True))
        # early exits earlier in the same block
        for field in ("body", "orelse", "finalbody"):
            block = getattr(p, field, None)
            if isinstance(block, list) and cur in block:
                for prev in block[: block.index(cur)]:
                    if isinstance(prev, ast.If) and _terminates(prev.body) and not prev.orelse:
                        out.append((prev.test, False))
                    elif (
                        isinstance(prev, ast.If)
                        and prev.orelse
                        and _terminates(prev.orelse)
                        and not _terminates(prev.body)
                    ):
                        out.append((prev.test, True))
        if isinstance(p, (ast.FunctionDef, ast.AsyncFunctionDef, ast.Lambda)):
            break
        cur = p
    return out


def conjuncts(test, polarity=True):
    """Flatten a guard into atomic (expr, polarity) facts that certainly hold."""
    out = []
    if isinstance(test, ast.UnaryOp) and isinstance(test.op, ast.Not):
        return conjuncts(test.operand, not polarity)
    if isinstance(test, ast.BoolOp):
        if isinstance(test.op, ast.And) and polarity:
            for v in test.values:
                out.extend(conjuncts(v, True))
            return out
        if isinstance(test.op, ast.Or) and not polarity:
            for v in test.values:
                out.extend(conjuncts(v, False))
            return out
    return [(test, polarity)]


def facts_at(node, stop=None):
    out = []
    for t, pol in guards_of(node, stop):
        out.extend(conjuncts(t, pol))
    return out
