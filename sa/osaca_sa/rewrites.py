"""Behaviour-preserving whole-package rewrites used by the self-test (thorough tier) and tools/robustness.py.

Every check must give the same verdict on a copy of the package in which every applicable site has been rewritten by one of
these transformers. `rename` is listed separately: rules that name a local of an anchor function answer a renamed local with
ANALYSIS-ERROR (never with a violation), which the robustness tool tolerates and reports.
"""
import ast


class EqSwap(ast.NodeTransformer):
    def visit_Compare(self, n):
        self.generic_visit(n)
        if len(n.ops) == 1 and isinstance(n.ops[0], (ast.Eq, ast.NotEq)):
            n.left, n.comparators = n.comparators[0], [n.left]
        return n


class CmpFlip(ast.NodeTransformer):
    M = {ast.Lt: ast.Gt, ast.Gt: ast.Lt, ast.LtE: ast.GtE, ast.GtE: ast.LtE}

    def visit_Compare(self, n):
        self.generic_visit(n)
        if len(n.ops) == 1 and type(n.ops[0]) in self.M:
            n.left, n.comparators, n.ops = n.comparators[0], [n.left], [self.M[type(n.ops[0])]()]
        return n


class IfInvert(ast.NodeTransformer):
    def visit_If(self, n):
        self.generic_visit(n)
        if n.orelse and not (len(n.orelse) == 1 and isinstance(n.orelse[0], ast.If)):
            t = n.test
            if isinstance(t, ast.UnaryOp) and isinstance(t.op, ast.Not):
                n.test = t.operand
            else:
                n.test = ast.UnaryOp(op=ast.Not(), operand=t)
            n.body, n.orelse = n.orelse, n.body
        return n

    def visit_IfExp(self, n):
        self.generic_visit(n)
        t = n.test
        n.test = t.operand if isinstance(t, ast.UnaryOp) and isinstance(t.op, ast.Not) else ast.UnaryOp(op=ast.Not(), operand=t)
        n.body, n.orelse = n.orelse, n.body
        return n


class NotCmp(ast.NodeTransformer):
    M = {ast.Eq: ast.NotEq, ast.NotEq: ast.Eq, ast.In: ast.NotIn, ast.NotIn: ast.In, ast.Is: ast.IsNot, ast.IsNot: ast.Is}

    def visit_UnaryOp(self, n):
        self.generic_visit(n)
        if isinstance(n.op, ast.Not) and isinstance(n.operand, ast.Compare) and len(n.operand.ops) == 1 \
                and type(n.operand.ops[0]) in self.M:
            c = n.operand
            c.ops = [self.M[type(c.ops[0])]()]
            return c
        return n

    def visit_Compare(self, n):
        self.generic_visit(n)
        if len(n.ops) == 1 and isinstance(n.ops[0], (ast.NotEq, ast.NotIn, ast.IsNot)):
            n.ops = [self.M[type(n.ops[0])]()]
            return ast.UnaryOp(op=ast.Not(), operand=n)
        return n


class AugExpand(ast.NodeTransformer):
    def visit_AugAssign(self, n):
        self.generic_visit(n)
        if isinstance(n.target, ast.Name) and isinstance(n.value, ast.Constant) and isinstance(n.value.value, (int, float)) \
                and not isinstance(n.value.value, bool):
            return ast.Assign(targets=[ast.Name(id=n.target.id, ctx=ast.Store())],
                              value=ast.BinOp(left=ast.Name(id=n.target.id, ctx=ast.Load()), op=n.op, right=n.value), lineno=n.lineno)
        return n


class PassPad(ast.NodeTransformer):
    def _pad(self, body):
        return [ast.Expr(value=ast.Constant(value="no-op"))] + body

    def visit_For(self, n):
        self.generic_visit(n)
        n.body = self._pad(n.body)
        return n

    def visit_While(self, n):
        self.generic_visit(n)
        n.body = self._pad(n.body)
        return n

    def visit_If(self, n):
        self.generic_visit(n)
        n.body = self._pad(n.body)
        return n


class Rename(ast.NodeTransformer):
    """Consistent renaming of function locals (assigned names that are not parameters / global / nonlocal and are
    not used by nested functions, lambdas or comprehensions' own scopes in a way that would capture them differently)."""

    def visit_FunctionDef(self, f):
        # nested functions first
        self.generic_visit(f)
        params = {a.arg for a in f.args.posonlyargs + f.args.args + f.args.kwonlyargs}
        if f.args.vararg:
            params.add(f.args.vararg.arg)
        if f.args.kwarg:
            params.add(f.args.kwarg.arg)
        declared = set()
        stored = set()
        nested_uses = set()
        for n in ast.walk(f):
            if isinstance(n, (ast.Global, ast.Nonlocal)):
                declared |= set(n.names)
        def walk_own(node, own=True):
            for ch in ast.iter_child_nodes(node):
                if isinstance(ch, (ast.FunctionDef, ast.AsyncFunctionDef, ast.Lambda, ast.ClassDef)):
                    for x in ast.walk(ch):
                        if isinstance(x, ast.Name):
                            nested_uses.add(x.id)
                    continue
                if isinstance(ch, ast.Name) and isinstance(ch.ctx, (ast.Store, ast.Del)):
                    stored.add(ch.id)
                if isinstance(ch, ast.ExceptHandler) and ch.name:
                    declared.add(ch.name)
                if isinstance(ch, (ast.Import, ast.ImportFrom)):
                    for al in ch.names:
                        declared.add((al.asname or al.name).split(".")[0])
                walk_own(ch)
        walk_own(f)
        ren = {v for v in stored if v not in params and v not in declared and v not in nested_uses and not v.startswith("__")}
        # names used by exec()'d snippets must stay
        if any(isinstance(n, ast.Call) and isinstance(n.func, ast.Name) and n.func.id in ("exec", "eval", "locals", "vars") for n in ast.walk(f)):
            return f

        class R(ast.NodeTransformer):
            def visit_Name(self, n):
                if n.id in ren:
                    n.id = n.id + "_"
                return n

            def visit_FunctionDef(self, n):
                return n

            visit_AsyncFunctionDef = visit_FunctionDef
            visit_Lambda = visit_FunctionDef
            visit_ClassDef = visit_FunctionDef

        for i, st in enumerate(f.body):
            f.body[i] = R().visit(st)
        return f

    visit_AsyncFunctionDef = visit_FunctionDef


class Annotate(ast.NodeTransformer):
    """Type hints: every parameter except self/cls gets an annotation, every function a return annotation, and a
    simple `name = <constant / display>` at function level becomes `name: T = ...` (PEP 526)."""

    def visit_FunctionDef(self, node):
        self.generic_visit(node)
        for a in node.args.posonlyargs + node.args.args + node.args.kwonlyargs:
            if a.arg not in ("self", "cls") and a.annotation is None:
                a.annotation = ast.Name(id="object", ctx=ast.Load())
        if node.returns is None:
            node.returns = ast.Name(id="object", ctx=ast.Load())
        return node

    def visit_Assign(self, node):
        self.generic_visit(node)
        if len(node.targets) == 1 and isinstance(node.targets[0], ast.Name) and isinstance(
                node.value, (ast.Constant, ast.List, ast.Dict)) and not isinstance(getattr(node.value, "value", None), type(None)):
            t = {ast.List: "list", ast.Dict: "dict"}.get(type(node.value)) or type(node.value.value).__name__
            return ast.copy_location(ast.AnnAssign(target=node.targets[0], annotation=ast.Name(id=t, ctx=ast.Load()),
                                                   value=node.value, simple=1), node)
        return node


class FString(ast.NodeTransformer):
    """pyupgrade-style: "a {} b {:>4}".format(x, y) -> f"a {x} b {y:>4}" (auto-numbered fields, positional arguments that
    are names / attributes / subscripts / calls without string literals inside; everything else is left alone)."""

    def visit_Call(self, node):
        self.generic_visit(node)
        f = node.func
        if not (isinstance(f, ast.Attribute) and f.attr == "format" and isinstance(f.value, ast.Constant) and isinstance(f.value.value, str)
                and not node.keywords and node.args and not any(isinstance(a, ast.Starred) for a in node.args)):
            return node
        import re as _re
        tmpl = f.value.value
        if "{{" in tmpl or "}}" in tmpl or "\\" in tmpl:
            return node
        fields = _re.findall(r"\{([^{}]*)\}", tmpl)
        if len(fields) != len(node.args) or any(not (x == "" or x.startswith(":")) or "{" in x for x in fields):
            return node
        if any(isinstance(c, ast.Constant) and isinstance(c.value, str) for a in node.args for c in ast.walk(a)):
            return node
        if any(isinstance(c, (ast.Lambda, ast.Dict, ast.Set, ast.DictComp, ast.SetComp, ast.JoinedStr, ast.Await, ast.Yield)) for a in node.args for c in ast.walk(a)):
            return node
        parts, pos, i = [], 0, 0
        for m in _re.finditer(r"\{([^{}]*)\}", tmpl):
            if m.start() > pos:
                parts.append(ast.Constant(value=tmpl[pos:m.start()]))
            spec = m.group(1)[1:] if m.group(1).startswith(":") else None
            parts.append(ast.FormattedValue(value=node.args[i], conversion=-1,
                                            format_spec=ast.JoinedStr(values=[ast.Constant(value=spec)]) if spec else None))
            i += 1
            pos = m.end()
        if pos < len(tmpl):
            parts.append(ast.Constant(value=tmpl[pos:]))
        return ast.copy_location(ast.JoinedStr(values=parts), node)


class MethodOrder(ast.NodeTransformer):
    """The methods of every class in reverse order of definition (class-level assignments and the docstring stay first;
    decorated properties keep getter before setter by being moved as a group)."""

    def visit_ClassDef(self, node):
        self.generic_visit(node)
        head = [s for s in node.body if not isinstance(s, (ast.FunctionDef, ast.AsyncFunctionDef))]
        funcs = [s for s in node.body if isinstance(s, (ast.FunctionDef, ast.AsyncFunctionDef))]
        groups, seen = [], {}
        for fn in funcs:
            if fn.name in seen:
                seen[fn.name].append(fn)
            else:
                seen[fn.name] = [fn]
                groups.append(seen[fn.name])
        node.body = head + [fn for g in reversed(groups) for fn in g]
        return node


class IsinstanceMerge(ast.NodeTransformer):
    """isinstance(x, A) or isinstance(x, B) -> isinstance(x, (A, B))"""

    def visit_BoolOp(self, node):
        self.generic_visit(node)
        if not isinstance(node.op, ast.Or):
            return node
        out = []
        for v in node.values:
            if out and self._isi(v) and self._isi(out[-1]) and ast.dump(v.args[0]) == ast.dump(out[-1].args[0]):
                prev = out[-1]
                a = prev.args[1].elts if isinstance(prev.args[1], ast.Tuple) else [prev.args[1]]
                b = v.args[1].elts if isinstance(v.args[1], ast.Tuple) else [v.args[1]]
                prev.args[1] = ast.Tuple(elts=list(a) + list(b), ctx=ast.Load())
            else:
                out.append(v)
        if len(out) == 1:
            return out[0]
        node.values = out
        return node

    @staticmethod
    def _isi(v):
        return isinstance(v, ast.Call) and isinstance(v.func, ast.Name) and v.func.id == "isinstance" and len(v.args) == 2 and not v.keywords


class UnElse(ast.NodeTransformer):
    """ruff RET505-508 / pylint R1705: `if c: ...; return x  else: REST`  ->  `if c: ...; return x` followed by REST
    (also for raise / continue / break), applied to every block."""

    @staticmethod
    def _leaves(body):
        return bool(body) and isinstance(body[-1], (ast.Return, ast.Raise, ast.Continue, ast.Break))

    def _fix(self, stmts):
        out = []
        for st in stmts:
            if isinstance(st, ast.If) and st.orelse and self._leaves(st.body):
                rest = st.orelse
                st.orelse = []
                out.append(st)
                out.extend(self._fix(rest))
            else:
                out.append(st)
        return out

    def generic_visit(self, node):
        super().generic_visit(node)
        for f in ("body", "orelse", "finalbody"):
            b = getattr(node, f, None)
            if isinstance(b, list) and b and isinstance(b[0], ast.stmt):
                setattr(node, f, self._fix(b))
        return node


class ElseAfterReturn(ast.NodeTransformer):
    """the inverse: `if c: ...; return x` followed by REST in the same block -> `if c: ...; return x else: REST`"""

    def generic_visit(self, node):
        super().generic_visit(node)
        for f in ("body", "orelse", "finalbody"):
            b = getattr(node, f, None)
            if isinstance(b, list) and b and isinstance(b[0], ast.stmt):
                setattr(node, f, self._fix(b))
        return node

    def _fix(self, stmts):
        for i, st in enumerate(stmts):
            if isinstance(st, ast.If) and not st.orelse and UnElse._leaves(st.body) and i + 1 < len(stmts) and not isinstance(
                    node_parent_is_loop := None, int):
                rest = stmts[i + 1:]
                if any(isinstance(x, (ast.FunctionDef, ast.ClassDef)) for x in rest):
                    continue
                st.orelse = self._fix(rest)
                return stmts[:i + 1]
        return stmts


class CompToLoop(ast.NodeTransformer):
    """`x = [elt for a in b if c]` (one generator, plain name target not used inside) -> `x = []` + for/if/append loop."""

    def _fix(self, stmts):
        out = []
        for st in stmts:
            if isinstance(st, ast.Assign) and len(st.targets) == 1 and isinstance(st.targets[0], ast.Name) \
                    and isinstance(st.value, ast.ListComp) and len(st.value.generators) == 1 and not st.value.generators[0].is_async:
                g = st.value.generators[0]
                name = st.targets[0].id
                used = {x.id for x in ast.walk(st.value) if isinstance(x, ast.Name)}
                bound = {x.id for x in ast.walk(g.target) if isinstance(x, ast.Name)}
                if name not in used and not (bound & {name}):
                    app = ast.Expr(value=ast.Call(func=ast.Attribute(value=ast.Name(id=name, ctx=ast.Load()), attr="append", ctx=ast.Load()),
                                                  args=[st.value.elt], keywords=[]))
                    body = [app]
                    for c in reversed(g.ifs):
                        body = [ast.If(test=c, body=body, orelse=[])]
                    loop = ast.For(target=g.target, iter=g.iter, body=body, orelse=[])
                    init = ast.Assign(targets=[ast.Name(id=name, ctx=ast.Store())], value=ast.List(elts=[], ctx=ast.Load()))
                    for n in (init, loop):
                        ast.copy_location(n, st)
                        ast.fix_missing_locations(n)
                    out.extend([init, loop])
                    continue
            out.append(st)
        return out

    def generic_visit(self, node):
        super().generic_visit(node)
        if isinstance(node, (ast.Module, ast.ClassDef)):
            return node         # module / class level constants stay displays
        for f in ("body", "orelse", "finalbody"):
            b = getattr(node, f, None)
            if isinstance(b, list) and b and isinstance(b[0], ast.stmt):
                setattr(node, f, self._fix(b))
        return node


class LoopGuard(ast.NodeTransformer):
    """reduce nesting: a loop body that ends in `if c: BODY` (no else) -> `if not c: continue` followed by BODY"""

    def _loop(self, node):
        self.generic_visit(node)
        if node.body and isinstance(node.body[-1], ast.If) and not node.body[-1].orelse:
            last = node.body[-1]
            guard = ast.If(test=ast.UnaryOp(op=ast.Not(), operand=last.test), body=[ast.Continue()], orelse=[])
            ast.copy_location(guard, last)
            ast.fix_missing_locations(guard)
            node.body = node.body[:-1] + [guard] + last.body
        return node

    visit_For = _loop
    visit_While = _loop


class LoopNest(ast.NodeTransformer):
    """the inverse: `if c: continue` followed by REST at the end of a loop body -> `if not c: REST`"""

    def _loop(self, node):
        self.generic_visit(node)
        for i, st in enumerate(node.body):
            if isinstance(st, ast.If) and not st.orelse and len(st.body) == 1 and isinstance(st.body[0], ast.Continue) and i + 1 < len(node.body):
                rest = node.body[i + 1:]
                new = ast.If(test=ast.UnaryOp(op=ast.Not(), operand=st.test), body=rest, orelse=[])
                ast.copy_location(new, st)
                ast.fix_missing_locations(new)
                node.body = node.body[:i] + [new]
                break
        return node

    visit_For = _loop
    visit_While = _loop


def _is_boolean(e):
    if isinstance(e, ast.Compare):
        return True
    if isinstance(e, ast.UnaryOp) and isinstance(e.op, ast.Not):
        return True
    if isinstance(e, ast.BoolOp):
        return all(_is_boolean(v) for v in e.values)
    if isinstance(e, ast.Call) and isinstance(e.func, ast.Name) and e.func.id in ("isinstance", "bool", "any", "all", "callable", "hasattr"):
        return True
    if isinstance(e, ast.Constant) and isinstance(e.value, bool):
        return True
    return False


class BoolReturn(ast.NodeTransformer):
    """pylint R1703 / ruff SIM103: `if c: return True` followed by `return False` (or with else) -> `return c`
    (c syntactically boolean); `if c: return False` + `return True` -> `return not c`."""

    def _fix(self, stmts):
        out, i = [], 0
        while i < len(stmts):
            st = stmts[i]
            nxt = stmts[i + 1] if i + 1 < len(stmts) else None
            cand = None
            if isinstance(st, ast.If) and len(st.body) == 1 and isinstance(st.body[0], ast.Return) and isinstance(st.body[0].value, ast.Constant) \
                    and isinstance(st.body[0].value.value, bool) and _is_boolean(st.test):
                other = None
                if st.orelse and len(st.orelse) == 1 and isinstance(st.orelse[0], ast.Return):
                    other, skip = st.orelse[0], 1
                elif not st.orelse and isinstance(nxt, ast.Return):
                    other, skip = nxt, 2
                if other is not None and isinstance(other.value, ast.Constant) and isinstance(other.value.value, bool) \
                        and other.value.value != st.body[0].value.value:
                    val = st.test if st.body[0].value.value else ast.UnaryOp(op=ast.Not(), operand=st.test)
                    cand = ast.copy_location(ast.Return(value=val), st)
                    ast.fix_missing_locations(cand)
                    out.append(cand)
                    i += skip
                    continue
            out.append(st)
            i += 1
        return out

    def generic_visit(self, node):
        super().generic_visit(node)
        for f in ("body", "orelse", "finalbody"):
            b = getattr(node, f, None)
            if isinstance(b, list) and b and isinstance(b[0], ast.stmt):
                setattr(node, f, self._fix(b))
        return node


class BoolReturnExpand(ast.NodeTransformer):
    """the inverse: `return <boolean expression>` -> `if <expr>: return True` + `return False`"""

    def _fix(self, stmts):
        out = []
        for st in stmts:
            if isinstance(st, ast.Return) and st.value is not None and _is_boolean(st.value) and not isinstance(st.value, ast.Constant):
                i = ast.If(test=st.value, body=[ast.Return(value=ast.Constant(value=True))], orelse=[])
                r = ast.Return(value=ast.Constant(value=False))
                for n in (i, r):
                    ast.copy_location(n, st)
                    ast.fix_missing_locations(n)
                out.extend([i, r])
            else:
                out.append(st)
        return out

    def generic_visit(self, node):
        ast.NodeTransformer.generic_visit(self, node)
        for f in ("body", "orelse", "finalbody"):
            b = getattr(node, f, None)
            if isinstance(b, list) and b and isinstance(b[0], ast.stmt):
                setattr(node, f, self._fix(b))
        return node


class MemTuple(ast.NodeTransformer):
    """`x in [a, b]` -> `x in (a, b)`; `list()` -> `[]`; `dict()` -> `{}`"""

    def visit_Compare(self, node):
        self.generic_visit(node)
        if len(node.ops) == 1 and isinstance(node.ops[0], (ast.In, ast.NotIn)) and isinstance(node.comparators[0], ast.List):
            node.comparators[0] = ast.copy_location(ast.Tuple(elts=node.comparators[0].elts, ctx=ast.Load()), node.comparators[0])
        return node

    def visit_Call(self, node):
        self.generic_visit(node)
        if isinstance(node.func, ast.Name) and not node.args and not node.keywords:
            if node.func.id == "list":
                return ast.copy_location(ast.List(elts=[], ctx=ast.Load()), node)
            if node.func.id == "dict":
                return ast.copy_location(ast.Dict(keys=[], values=[]), node)
        return node


class DictGet(ast.NodeTransformer):
    """`d[k] if k in d else default` -> `d.get(k, default)` (d a plain name or attribute chain, k a constant)"""

    def visit_IfExp(self, node):
        self.generic_visit(node)
        t = node.test
        if isinstance(t, ast.Compare) and len(t.ops) == 1 and isinstance(t.ops[0], ast.In) and isinstance(t.left, ast.Constant) \
                and isinstance(node.body, ast.Subscript) and ast.dump(node.body.value) == ast.dump(t.comparators[0]) \
                and isinstance(node.body.slice, ast.Constant) and node.body.slice.value == t.left.value \
                and isinstance(t.comparators[0], (ast.Name, ast.Attribute)):
            args = [t.left] + ([] if (isinstance(node.orelse, ast.Constant) and node.orelse.value is None) else [node.orelse])
            return ast.copy_location(ast.Call(func=ast.Attribute(value=t.comparators[0], attr="get", ctx=ast.Load()), args=args, keywords=[]), node)
        return node


class BoolSwap(ast.NodeTransformer):
    """operands of `and` / `or` in reverse order where every operand is free of calls and subscripts (no side effects, no
    exception that short-circuiting would have prevented ... attribute access on None is excluded by requiring that no
    operand tests another operand's object for None)"""

    def visit_Module(self, node):
        from .canon import mark_bool_contexts
        mark_bool_contexts(node)
        self.generic_visit(node)
        return node

    def visit_BoolOp(self, node):
        from .canon import swappable
        self.generic_visit(node)
        if swappable(node):
            node.values = list(reversed(node.values))
        return node


class IfExpToStmt(ast.NodeTransformer):
    """`x = A if c else B` (statement level, simple target) -> if c: x = A else: x = B"""

    def _fix(self, stmts):
        out = []
        for st in stmts:
            if isinstance(st, ast.Assign) and len(st.targets) == 1 and isinstance(st.targets[0], (ast.Name, ast.Attribute)) \
                    and isinstance(st.value, ast.IfExp):
                a = ast.Assign(targets=[st.targets[0]], value=st.value.body)
                b = ast.Assign(targets=[st.targets[0]], value=st.value.orelse)
                new = ast.If(test=st.value.test, body=[a], orelse=[b])
                for n in (a, b, new):
                    ast.copy_location(n, st)
                ast.fix_missing_locations(new)
                out.append(new)
            else:
                out.append(st)
        return out

    def generic_visit(self, node):
        ast.NodeTransformer.generic_visit(self, node)
        if isinstance(node, (ast.Module, ast.ClassDef)):
            return node
        for f in ("body", "orelse", "finalbody"):
            b = getattr(node, f, None)
            if isinstance(b, list) and b and isinstance(b[0], ast.stmt):
                setattr(node, f, self._fix(b))
        return node


TRANSFORMS = {"eqswap": EqSwap, "cmpflip": CmpFlip, "ifinvert": IfInvert, "notcmp": NotCmp, "augexpand": AugExpand, "annotate": Annotate, "fstring": FString, "methodorder": MethodOrder, "isimerge": IsinstanceMerge, "unelse": UnElse, "elseafter": ElseAfterReturn, "comp2loop": CompToLoop, "loopguard": LoopGuard, "loopnest": LoopNest, "boolreturn": BoolReturn, "boolexpand": BoolReturnExpand, "memtuple": MemTuple, "dictget": DictGet, "boolswap": BoolSwap, "ifexp2stmt": IfExpToStmt,
              "passpad": PassPad, "rename": Rename}

SILENT_VARIANTS = ("eqswap", "cmpflip", "ifinvert", "notcmp", "augexpand", "passpad", "annotate", "fstring", "methodorder", "isimerge", "unelse", "elseafter", "comp2loop", "loopguard", "loopnest", "boolreturn", "boolexpand", "memtuple", "dictget", "rename", "boolswap", "ifexp2stmt")
