"""Behaviour-preserving whole-package rewrites used by the self-test (thorough tier) and tools/robustness.py.

Every check must give the same verdict on a copy of the package in which every applicable site has been rewritten by one of
these transformers. `rename` is listed separately: rules that name a local of an anchor function answer a renamed local with
ANALYSIS-ERROR (never with a violation), which the robustness tool tolerates and reports.
"""
import ast


class EqSwap(ast.NodeTransformer):
    def visit_Compare(self, n):
        self.generic_visit(n)
        if len(n.ops) == 1 and isinstance(n.ops[0], (ast.Eq, ast.NotEq)):
            n.left, n.comparators = n.comparators[0], [n.left]
        return n


class CmpFlip(ast.NodeTransformer):
    M = {ast.Lt: ast.Gt, ast.Gt: ast.Lt, ast.LtE: ast.GtE, ast.GtE: ast.LtE}

    def visit_Compare(self, n):
        self.generic_visit(n)
        if len(n.ops) == 1 and type(n.ops[0]) in self.M:
            n.left, n.comparators, n.ops = n.comparators[0], [n.left], [self.M[type(n.ops[0])]()]
        return n


class IfInvert(ast.NodeTransformer):
    def visit_If(self, n):
        self.generic_visit(n)
        if n.orelse and not (len(n.orelse) == 1 and isinstance(n.orelse[0], ast.If)):
            t = n.test
            if isinstance(t, ast.UnaryOp) and isinstance(t.op, ast.Not):
                n.test = t.operand
            else:
                n.test = ast.UnaryOp(op=ast.Not(), operand=t)
            n.body, n.orelse = n.orelse, n.body
        return n

    def visit_IfExp(self, n):
        self.generic_visit(n)
        t = n.test
        n.test = t.operand if isinstance(t, ast.UnaryOp) and isinstance(t.op, ast.Not) else ast.UnaryOp(op=ast.Not(), operand=t)
        n.body, n.orelse = n.orelse, n.body
        return n


class NotCmp(ast.NodeTransformer):
    M = {ast.Eq: ast.NotEq, ast.NotEq: ast.Eq, ast.In: ast.NotIn, ast.NotIn: ast.In, ast.Is: ast.IsNot, ast.IsNot: ast.Is}

    def visit_UnaryOp(self, n):
        self.generic_visit(n)
        if isinstance(n.op, ast.Not) and isinstance(n.operand, ast.Compare) and len(n.operand.ops) == 1 \
                and type(n.operand.ops[0]) in self.M:
            c = n.operand
            c.ops = [self.M[type(c.ops[0])]()]
            return c
        return n

    def visit_Compare(self, n):
        self.generic_visit(n)
        if len(n.ops) == 1 and isinstance(n.ops[0], (ast.NotEq, ast.NotIn, ast.IsNot)):
            n.ops = [self.M[type(n.ops[0])]()]
            return ast.UnaryOp(op=ast.Not(), operand=n)
        return n


class AugExpand(ast.NodeTransformer):
    def visit_AugAssign(self, n):
        self.generic_visit(n)
        if isinstance(n.target, ast.Name) and isinstance(n.value, ast.Constant) and isinstance(n.value.value, (int, float)) \
                and not isinstance(n.value.value, bool):
            return ast.Assign(targets=[ast.Name(id=n.target.id, ctx=ast.Store())],
                              value=ast.BinOp(left=ast.Name(id=n.target.id, ctx=ast.Load()), op=n.op, right=n.value), lineno=n.lineno)
        return n


class PassPad(ast.NodeTransformer):
    def _pad(self, body):
        return [ast.Expr(value=ast.Constant(value="no-op"))] + body

    def visit_For(self, n):
        self.generic_visit(n)
        n.body = self._pad(n.body)
        return n

    def visit_While(self, n):
        self.generic_visit(n)
        n.body = self._pad(n.body)
        return n

    def visit_If(self, n):
        self.generic_visit(n)
        n.body = self._pad(n.body)
        return n


class Rename(ast.NodeTransformer):
    """Consistent renaming of function locals (assigned names that are not parameters / global / nonlocal and are
    not used by nested functions, lambdas or comprehensions' own scopes in a way that would capture them differently)."""

    def visit_FunctionDef(self, f):
        # nested functions first
        self.generic_visit(f)
        params = {a.arg for a in f.args.posonlyargs + f.args.args + f.args.kwonlyargs}
        if f.args.vararg:
            params.add(f.args.vararg.arg)
        if f.args.kwarg:
            params.add(f.args.kwarg.arg)
        declared = set()
        stored = set()
        nested_uses = set()
        for n in ast.walk(f):
            if isinstance(n, (ast.Global, ast.Nonlocal)):
                declared |= set(n.names)
        def walk_own(node, own=True):
            for ch in ast.iter_child_nodes(node):
                if isinstance(ch, (ast.FunctionDef, ast.AsyncFunctionDef, ast.Lambda, ast.ClassDef)):
                    for x in ast.walk(ch):
                        if isinstance(x, ast.Name):
                            nested_uses.add(x.id)
                    continue
                if isinstance(ch, ast.Name) and isinstance(ch.ctx, (ast.Store, ast.Del)):
                    stored.add(ch.id)
                if isinstance(ch, ast.ExceptHandler) and ch.name:
                    declared.add(ch.name)
                if isinstance(ch, (ast.Import, ast.ImportFrom)):
                    for al in ch.names:
                        declared.add((al.asname or al.name).split(".")[0])
                walk_own(ch)
        walk_own(f)
        ren = {v for v in stored if v not in params and v not in declared and v not in nested_uses and not v.startswith("__")}
        # names used by exec()'d snippets must stay
        if any(isinstance(n, ast.Call) and isinstance(n.func, ast.Name) and n.func.id in ("exec", "eval", "locals", "vars") for n in ast.walk(f)):
            return f

        class R(ast.NodeTransformer):
            def visit_Name(self, n):
                if n.id in ren:
                    n.id = n.id + "_"
                return n

            def visit_FunctionDef(self, n):
                return n

            visit_AsyncFunctionDef = visit_FunctionDef
            visit_Lambda = visit_FunctionDef
            visit_ClassDef = visit_FunctionDef

        for i, st in enumerate(f.body):
            f.body[i] = R().visit(st)
        return f

    visit_AsyncFunctionDef = visit_FunctionDef


TRANSFORMS = {"eqswap": EqSwap, "cmpflip": CmpFlip, "ifinvert": IfInvert, "notcmp": NotCmp, "augexpand": AugExpand,
              "passpad": PassPad, "rename": Rename}

SILENT_VARIANTS = ("eqswap", "cmpflip", "ifinvert", "notcmp", "augexpand", "passpad")
