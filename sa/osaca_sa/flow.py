"""E3: reaching definitions for locals, origin expansion, repository-wide field def/use."""
import ast

from .cfg import CFG, ENTRY, EXIT
from .pm import U
from .srcmodel import parent


def _target_names(t):
    """Names (strong definitions) bound by an assignment target."""
    if isinstance(t, ast.Name):
        return [t.id]
    if isinstance(t, (ast.Tuple, ast.List)):
        out = []
        for e in t.elts:
            out.extend(_target_names(e))
        return out
    if isinstance(t, ast.Starred):
        return _target_names(t.value)
    return []


class Def:
    """One definition of a local name."""

    def __init__(self, name, stmt, value, kind, target=None):
        self.name = name
        self.stmt = stmt  # CFG node
        self.value = value  # RHS expression (None for params / loop targets of unknown shape)
        self.kind = kind  # param | assign | aug | for | with | unpack | walrus | except | import
        self.target = target

    def __repr__(self):
        return "<def %s:%s @%s>" % (self.name, self.kind, getattr(self.stmt, "lineno", "?"))


class Flow:
    def __init__(self, func_node, cfg=None):
        self.func = func_node
        self.cfg = cfg or CFG(func_node)
        self.defs_at = {}  # id(cfg node) -> [Def]
        self.all_defs = {}  # name -> [Def]
        self.param_defs = []
        a = func_node.args
        for arg in a.posonlyargs + a.args + a.kwonlyargs + ([a.vararg] if a.vararg else []) + (
            [a.kwarg] if a.kwarg else []
        ):
            d = Def(arg.arg, ENTRY, None, "param")
            self.param_defs.append(d)
            self.all_defs.setdefault(arg.arg, []).append(d)
        for s in self.cfg.nodes:
            ds = self._defs_of_stmt(s)
            self.defs_at[id(s)] = ds
            for d in ds:
                self.all_defs.setdefault(d.name, []).append(d)
        self._in = None

    def _defs_of_stmt(self, s):
        out = []
        if isinstance(s, ast.Assign):
            for t in s.targets:
                if isinstance(t, ast.Name):
                    out.append(Def(t.id, s, s.value, "assign", t))
                elif isinstance(t, (ast.Tuple, ast.List)):
                    names = _target_names(t)
                    if isinstance(s.value, (ast.Tuple, ast.List)) and len(s.value.elts) == len(
                        t.elts
                    ):
                        for te, ve in zip(t.elts, s.value.elts):
                            for n in _target_names(te):
                                out.append(Def(n, s, ve, "assign", te))
                    else:
                        for i, n in enumerate(names):
                            out.append(Def(n, s, s.value, "unpack", t))
        elif isinstance(s, ast.AnnAssign) and isinstance(s.target, ast.Name) and s.value:
            out.append(Def(s.target.id, s, s.value, "assign", s.target))
        elif isinstance(s, ast.AugAssign) and isinstance(s.target, ast.Name):
            out.append(Def(s.target.id, s, s.value, "aug", s.target))
        elif isinstance(s, (ast.For, ast.AsyncFor)):
            for n in _target_names(s.target):
                out.append(Def(n, s, s.iter, "for", s.target))
        elif isinstance(s, (ast.With, ast.AsyncWith)):
            for it in s.items:
                if it.optional_vars is not None:
                    for n in _target_names(it.optional_vars):
                        out.append(Def(n, s, it.context_expr, "with", it.optional_vars))
        elif isinstance(s, (ast.Import, ast.ImportFrom)):
            for al in s.names:
                out.append(Def((al.asname or al.name).split(".")[0], s, None, "import"))
        elif isinstance(s, (ast.FunctionDef, ast.AsyncFunctionDef, ast.ClassDef)):
            out.append(Def(s.name, s, None, "def"))
        # walrus anywhere in the statement's own expressions
        roots = []
        if isinstance(s, (ast.If, ast.While)):
            roots = [s.test]
        elif isinstance(s, (ast.Assign, ast.AugAssign, ast.Expr, ast.Return, ast.AnnAssign)):
            roots = [s]
        for r in roots:
            for n in ast.walk(r):
                if isinstance(n, ast.NamedExpr) and isinstance(n.target, ast.Name):
                    out.append(Def(n.target.id, s, n.value, "walrus", n.target))
        if isinstance(s, ast.Try):
            pass
        return out

    # ---- reaching definitions --------------------------------------------------------------
    def _solve(self):
        G = self.cfg.G
        IN = {n if isinstance(n, str) else id(n): set() for n in G.nodes}
        OUT = dict((k, set()) for k in IN)
        key = lambda n: n if isinstance(n, str) else id(n)
        OUT[ENTRY] = set(self.param_defs)
        # handler names
        work = list(G.nodes)
        while work:
            n = work.pop()
            k = key(n)
            new_in = set()
            for p in G.predecessors(n):
                new_in |= OUT[key(p)]
            if n == ENTRY:
                new_out = set(self.param_defs)
            else:
                ds = self.defs_at.get(k, []) if not isinstance(n, str) else []
                killed = {d.name for d in ds if d.kind != "aug"}
                new_out = {d for d in new_in if d.name not in killed} | set(ds)
                # an augmented assignment keeps older defs alive (value depends on them)
            if new_in != IN[k] or new_out != OUT[k]:
                IN[k] = new_in
                OUT[k] = new_out
                work.extend(G.successors(n))
        self._in = IN
        self._out = OUT

    def reaching(self, at_node, name):
        """Definitions of `name` that may reach the evaluation of `at_node`."""
        if self._in is None:
            self._solve()
        s = self.cfg.node_of(at_node)
        k = s if isinstance(s, str) else id(s)
        return [d for d in self._in.get(k, ()) if d.name == name]

    def is_local(self, name):
        return name in self.all_defs

    # ---- origin expansion ------------------------------------------------------------------
    def expand(self, expr, depth=8, _seen=None):
        """Leaf expressions `expr` may be a plain copy of (following `x = y` chains).

        Returns a list of AST nodes: for a Name with reaching plain assignments, the expansions
        of their right-hand sides; otherwise the expression itself.
        """
        _seen = _seen or set()
        if isinstance(expr, ast.Name) and depth > 0 and self.is_local(expr.id):
            try:
                ds = self.reaching(expr, expr.id)
            except KeyError:
                ds = self.all_defs.get(expr.id, [])
            if not ds:
                ds = self.all_defs.get(expr.id, [])
            out = []
            for d in ds:
                if (id(d), expr.id) in _seen:
                    continue
                if d.kind in ("assign", "walrus") and d.value is not None:
                    out.extend(self.expand(d.value, depth - 1, _seen | {(id(d), expr.id)}))
                else:
                    out.append(DefLeaf(d))
            return out or [expr]
        return [expr]

    def origin_text(self, expr, depth=8):
        return sorted({U(e) if isinstance(e, ast.AST) else repr(e) for e in self.expand(expr, depth)})

    _MUTATORS = {"append", "extend", "insert", "add", "update", "setdefault", "pop", "popitem", "remove", "discard", "clear", "sort", "reverse"}

    def _mutated_container(self, name, value):
        """`name` was bound to a fresh container and the function edits that container in place (append, item store, ...): the
        name then does not stand for its defining expression any more."""
        fresh = isinstance(value, (ast.List, ast.Dict, ast.Set, ast.ListComp, ast.DictComp, ast.SetComp)) or (
            isinstance(value, ast.Call) and isinstance(value.func, ast.Name) and value.func.id in ("list", "dict", "set", "defaultdict", "OrderedDict"))
        if not fresh:
            return False
        cache = self.__dict__.setdefault("_mut_cache", {})
        if name not in cache:
            hit = False
            for n in ast.walk(self.func):
                if isinstance(n, ast.Call) and isinstance(n.func, ast.Attribute) and n.func.attr in self._MUTATORS \
                        and isinstance(n.func.value, ast.Name) and n.func.value.id == name:
                    hit = True
                elif isinstance(n, (ast.Subscript, ast.Attribute)) and isinstance(n.ctx, (ast.Store, ast.Del)) \
                        and isinstance(n.value, ast.Name) and n.value.id == name:
                    hit = True
                elif isinstance(n, ast.AugAssign) and isinstance(n.target, ast.Name) and n.target.id == name:
                    hit = True
            cache[name] = hit
        return cache[name]

    def subst(self, expr, depth=6):
        """Copy of `expr` with every local name that has exactly one plain reaching definition
        replaced by (the substitution of) that definition's right-hand side."""
        flow = self

        def go(node, depth, bound=frozenset()):
            if isinstance(node, list):
                return [go(x, depth, bound) for x in node]
            if not isinstance(node, ast.AST):
                return node
            if isinstance(node, (ast.ListComp, ast.SetComp, ast.GeneratorExp, ast.DictComp)):
                # names bound by the comprehension itself are its own
                own = {t for g in node.generators for t in _target_names(g.target)}
                bound = bound | own
            if isinstance(node, ast.Lambda):
                bound = bound | {a.arg for a in node.args.args}
            if (
                isinstance(node, ast.Name)
                and depth > 0
                and isinstance(node.ctx, ast.Load)
                and node.id not in bound
                and flow.is_local(node.id)
            ):
                try:
                    ds = flow.reaching(node, node.id)
                except KeyError:
                    ds = []
                if len(ds) == 1 and ds[0].kind == "assign" and ds[0].value is not None and not flow._mutated_container(node.id, ds[0].value):
                    return go(ds[0].value, depth - 1)
            new = type(node)()
            for f in node._fields:
                setattr(new, f, go(getattr(node, f, None), depth, bound))
            for a in node._attributes:
                if hasattr(node, a):
                    setattr(new, a, getattr(node, a))
            return new

        return go(expr, depth)


def clone(node):
    """Copy of an AST without the parent back-pointers (cheap, unlike copy.deepcopy)."""
    if isinstance(node, list):
        return [clone(x) for x in node]
    if not isinstance(node, ast.AST):
        return node
    new = type(node)()
    for f in node._fields:
        setattr(new, f, clone(getattr(node, f, None)))
    for a in node._attributes:
        if hasattr(node, a):
            setattr(new, a, getattr(node, a))
    return new


class DefLeaf:
    """A non-copy definition reached by origin expansion (parameter, loop target, ...)."""

    def __init__(self, d):
        self.d = d

    def __repr__(self):
        if self.d.kind == "param":
            return "param:%s" % self.d.name
        return "%s:%s<-%s" % (self.d.kind, self.d.name, U(self.d.value) if self.d.value else "?")


# ---- repository-wide field def/use ----------------------------------------------------------


def attr_stores(repo, attr, private_alias=True):
    """All sites storing attribute `attr` (or `_attr`) on any object: (FuncInfo, stmt, value)."""
    names = {attr, "_" + attr} if private_alias else {attr}
    out = []
    for f in repo.all_funcs():
        for n in ast.walk(f.node):
            if isinstance(n, ast.Assign):
                for t in n.targets:
                    for tt in ([t] if not isinstance(t, (ast.Tuple, ast.List)) else t.elts):
                        if isinstance(tt, ast.Attribute) and tt.attr in names:
                            out.append((f, n, n.value, tt))
            elif isinstance(n, ast.AugAssign):
                if isinstance(n.target, ast.Attribute) and n.target.attr in names:
                    out.append((f, n, n.value, n.target))
            elif isinstance(n, ast.Call) and isinstance(n.func, ast.Name) and n.func.id == "setattr":
                if len(n.args) >= 3 and isinstance(n.args[1], ast.Constant) and n.args[1].value in names:
                    out.append((f, n, n.args[2], n))
    return out


def attr_loads(repo, attr):
    out = []
    for f in repo.all_funcs():
        for n in ast.walk(f.node):
            if isinstance(n, ast.Attribute) and n.attr == attr and isinstance(n.ctx, ast.Load):
                out.append((f, n))
    return out


def func_of(repo, node):
    """FuncInfo whose body contains `node`."""
    cur = node
    while cur is not None:
        if isinstance(cur, (ast.FunctionDef, ast.AsyncFunctionDef)):
            for f in repo.all_funcs():
                if f.node is cur:
                    return f
        cur = parent(cur)
    return None
