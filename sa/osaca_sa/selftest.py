"""Thorough tier: test the checker both ways on scratch copies of /repo's current tree.

fires    every mutant of the property (one rule instance broken by a small source/data edit that
         still compiles) must produce a NEW finding (not present on the unmodified tree) of the
         expected rule;
silent   on a copy whose Python files were all rewritten by ast.unparse (comments, layout and
         parenthesisation gone) the findings must be exactly those of the unmodified tree.

Scratch trees are created with tempfile.mkdtemp outside /repo and /verif, consist of symlinks to
the repository's files except for the one edited file, and are removed before returning.
A self-test failure is an ANALYSIS-ERROR (the checker is broken), never a property violation.
"""
import ast
import os
import json
import shutil
import subprocess
import tempfile
from concurrent.futures import ProcessPoolExecutor
from pathlib import Path

from .srcmodel import AnalysisError

VERIF = Path(__file__).resolve().parents[2]


class Mutant:
    def __init__(self, mid, file, old, new, rule=None, why="", first=False, tier="quick"):
        self.id = mid
        self.file = file
        self.old = old
        self.new = new
        self.rule = rule
        self.why = why
        self.first = first  # replace only the first occurrence of a repeated anchor (data files)
        self.tier = tier  # rules of which tier must catch it


def _link_tree(src_root, dst_root, replace=None):
    """Mirror <src_root>/{osaca,README.rst} into dst_root with symlinks; files in `replace`
    (rel path -> text) are written as real files."""
    replace = replace or {}
    src_root = Path(src_root)
    dst_root = Path(dst_root)
    for dirpath, dirnames, filenames in os.walk(src_root / "osaca"):
        dirnames[:] = [d for d in dirnames if d != "__pycache__"]
        rel_dir = Path(dirpath).relative_to(src_root)
        (dst_root / rel_dir).mkdir(parents=True, exist_ok=True)
        for fn in filenames:
            if fn.endswith((".pyc", ".pickle")):
                continue
            rel = str(rel_dir / fn)
            if rel in replace:
                (dst_root / rel).write_text(replace[rel])
            else:
                os.symlink(Path(dirpath) / fn, dst_root / rel)
    for extra in ("README.rst",):
        if (src_root / extra).exists():
            if extra in replace:
                (dst_root / extra).write_text(replace[extra])
            else:
                os.symlink(src_root / extra, dst_root / extra)


def _finding_keys(prop, root, tier="quick", complete=False):
    from . import report
    from .cli import analyse

    ctx, _ = analyse(prop, tier, root)
    if complete and ctx.incomplete is not None:
        raise ctx.incomplete
    return sorted({(f.rule, f.key) for f in ctx.findings})


def _run_mutant(args):
    prop, repo_root, scratch, m = args
    src = Path(repo_root) / m["file"]
    try:
        text = src.read_text()
    except OSError:
        return m["id"], "stale", "file missing"
    olds = m["old"] if isinstance(m["old"], (list, tuple)) else [m["old"]]
    news = m["new"] if isinstance(m["new"], (list, tuple)) else [m["new"]]
    new_text = text
    for o, nw in zip(olds, news):
        cnt = new_text.count(o)
        if cnt != 1 and not (m.get("first") and cnt > 1):
            return m["id"], "stale", "anchor text occurs %d times: %r" % (cnt, o[:50])
        new_text = new_text.replace(o, nw, 1)
    if m["file"].endswith(".py"):
        try:
            compile(new_text, m["file"], "exec")
        except SyntaxError as e:
            return m["id"], "error", "mutant does not compile: %s" % e
    root = Path(scratch) / ("m_" + m["id"])
    root.mkdir()
    try:
        _link_tree(repo_root, root, {m["file"]: new_text})
        try:
            keys = _finding_keys(prop, root, m.get("tier", "quick"))
        except AnalysisError as e:
            return m["id"], "analysis-error", str(e)[:300]
        except Exception as e:  # a rule crashed on the mutant: a bug of the checker
            import traceback

            return m["id"], "error", "rule crashed: %r %s" % (e, traceback.format_exc()[-400:])
        return m["id"], "ran", keys
    finally:
        shutil.rmtree(root, ignore_errors=True)


def _run_normalised(args):
    prop, repo_root, scratch = args[:3]
    variant = args[3] if len(args) > 3 else "unparse"
    root = Path(scratch) / ("normalised_" + variant)
    root.mkdir()
    try:
        replace = {}
        for p in (Path(repo_root) / "osaca").rglob("*.py"):
            rel = str(p.relative_to(repo_root))
            if rel.startswith("osaca/data/"):
                continue
            tree = ast.parse(p.read_text())
            if variant != "unparse":
                from .rewrites import TRANSFORMS

                tree = TRANSFORMS[variant]().visit(tree)
                ast.fix_missing_locations(tree)
            replace[rel] = ast.unparse(tree) + "\n"
        _link_tree(repo_root, root, replace)
        try:
            return "ran", _finding_keys(prop, root, complete=True)
        except AnalysisError as e:
            return "analysis-error", str(e)[:300]
    finally:
        shutil.rmtree(root, ignore_errors=True)


def _patched_files(repo_root, patch_path):
    """{rel path: new text} of the files a unified diff touches, applied to copies of <repo_root>'s files with patch(1)."""
    text = Path(patch_path).read_text()
    rels = sorted({l[6:].strip() for l in text.splitlines() if l.startswith("+++ b/")})
    tmp = tempfile.mkdtemp(prefix="osaca_sa_patch_")
    try:
        for rel in rels:
            src = Path(repo_root) / rel
            (Path(tmp) / rel).parent.mkdir(parents=True, exist_ok=True)
            if src.exists():
                shutil.copy(src, Path(tmp) / rel)
        r = subprocess.run(["patch", "-p1", "-s", "-d", tmp, "-i", str(Path(patch_path).resolve())], capture_output=True, text=True)
        if r.returncode != 0:
            return None
        return {rel: (Path(tmp) / rel).read_text() for rel in rels if (Path(tmp) / rel).exists()}
    finally:
        shutil.rmtree(tmp, ignore_errors=True)


def _run_patch(args):
    """Findings of `prop` on the tree with a stored patch (seeded change or refactoring) applied."""
    prop, repo_root, scratch, name, patch_path = args
    replace = _patched_files(repo_root, patch_path)
    if replace is None:
        return name, "stale", "patch does not apply to the current tree"
    root = Path(scratch) / ("p_" + name)
    root.mkdir()
    try:
        _link_tree(repo_root, root, replace)
        try:
            from .cli import analyse

            ctx, _ = analyse(prop, "quick", root)
            keys = sorted({(f.rule, f.key) for f in ctx.findings})
            if ctx.incomplete is not None and not keys:
                return name, "analysis-error", str(ctx.incomplete)[:300]
            return name, "ran", keys
        except AnalysisError as e:
            return name, "analysis-error", str(e)[:300]
        except Exception as e:
            import traceback

            return name, "error", "rule crashed: %r %s" % (e, traceback.format_exc()[-400:])
    finally:
        shutil.rmtree(root, ignore_errors=True)


def stored_patches(prop):
    """(seeded changes this property's check must catch, refactorings no check may object to)."""
    seeded, refac = [], []
    for d in sorted((VERIF / "seeded").glob("*")):
        meta = d / "meta.json"
        if not (d / "patch.diff").exists() or not meta.exists():
            continue
        try:
            m = json.loads(meta.read_text())
        except ValueError:
            continue
        if prop in (m.get("caught_by") or []) and (m.get("property") == prop or m.get("property") == "C14"):
            seeded.append((d.name, str(d / "patch.diff")))
    for d in sorted((VERIF / "refactors").glob("*")):
        if (d / "patch.diff").exists():
            refac.append((d.name, str(d / "patch.diff")))
    return seeded, refac


def run(prop, ctx):
    from .mutants import MUTANTS

    muts = MUTANTS.get(prop, [])
    repo_root = str(ctx.repo.root)
    base = sorted({(f.rule, f.key) for f in ctx.findings})
    base_keys = {k for _, k in base}
    scratch = tempfile.mkdtemp(prefix="osaca_sa_selftest_")
    results = {"mutants": len(muts), "caught": 0, "stale": 0, "missed": 0, "details": []}
    try:
        jobs = [(prop, repo_root, scratch, dict(id=m.id, file=m.file, old=m.old, new=m.new, first=m.first, tier=m.tier)) for m in muts]
        with ProcessPoolExecutor(max_workers=min(16, max(1, len(jobs) + 1))) as ex:
            norm_future = ex.submit(_run_normalised, (prop, repo_root, scratch))
            from .rewrites import SILENT_VARIANTS

            var_futures = {v: ex.submit(_run_normalised, (prop, repo_root, scratch, v)) for v in SILENT_VARIANTS}
            seeded, refac = stored_patches(prop)
            patch_futures = [(kind, ex.submit(_run_patch, (prop, repo_root, scratch, name, path)))
                             for kind, lst in (("seeded", seeded), ("refactoring", refac)) for name, path in lst]
            outs = list(ex.map(_run_mutant, jobs))
            patch_outs = [(kind, fu.result()) for kind, fu in patch_futures]
            norm = norm_future.result()
            variants = {v: f.result() for v, f in var_futures.items()}
        by_id = {m.id: m for m in muts}
        missed = []
        for mid, status, payload in outs:
            m = by_id[mid]
            if status == "stale":
                results["stale"] += 1
                results["details"].append({"mutant": mid, "status": "stale", "reason": payload})
                continue
            if status in ("error", "analysis-error"):
                results["details"].append({"mutant": mid, "status": status, "reason": payload})
                missed.append("%s (%s: %s)" % (mid, status, payload))
                continue
            new = [(r, k) for r, k in payload if k not in base_keys]
            hit = [k for r, k in new if m.rule is None or r == m.rule]
            if m.rule == "SILENT":
                # behaviour-preserving (or property-preserving) edit: no new finding allowed
                if new:
                    missed.append("%s (property-preserving edit raised: %s)" % (mid, [k[:100] for _, k in new][:3]))
                    results["details"].append({"mutant": mid, "status": "false-alarm"})
                else:
                    results["caught"] += 1
                    results["details"].append({"mutant": mid, "status": "silent-as-required", "edit": "%s: %r -> %r" % (
                        m.file, str(m.old)[:70], str(m.new)[:70])})
                continue
            if hit:
                results["caught"] += 1
                results["details"].append({"mutant": mid, "status": "caught", "rule": m.rule,
                                           "finding": hit[0][:200], "edit": "%s: %r -> %r" % (
                                               m.file, str(m.old)[:70], str(m.new)[:70])})
            else:
                missed.append("%s (expected a new %s finding; new findings: %s)" % (
                    mid, m.rule or "any", [k[:80] for _, k in new][:3]))
                results["details"].append({"mutant": mid, "status": "missed"})
        # stored patches: every seeded change of this property is reported, no refactoring is
        results["seeded_changes"] = {}
        results["refactorings"] = {}
        for kind, (name, status, payload) in patch_outs:
            if status == "stale":
                results[kind == "seeded" and "seeded_changes" or "refactorings"][name] = "stale (does not apply)"
                continue
            if kind == "seeded":
                new = [(r, k) for r, k in payload if k not in base_keys] if status == "ran" else []
                results["seeded_changes"][name] = "caught" if new else "MISSED (%s)" % status
                if not new:
                    missed.append("seeded change %s is not reported (%s%s)" % (name, status, ": " + str(payload)[:120] if status != "ran" else ""))
            else:
                if status == "ran":
                    new = [(r, k) for r, k in payload if k not in base_keys]
                    results["refactorings"][name] = "silent" if not new else "FALSE ALARM"
                    if new:
                        missed.append("behaviour-preserving refactoring %s raised %s" % (name, [k[:90] for _, k in new][:2]))
                elif status == "analysis-error":
                    results["refactorings"][name] = "not understood (exit 2)"
                else:
                    results["refactorings"][name] = status
                    missed.append("refactoring %s: %s %s" % (name, status, str(payload)[:200]))
        results["missed"] = len(missed)
        if norm[0] == "ran":
            results["silent_ok"] = sorted(k for _, k in norm[1]) == sorted(base_keys)
            if not results["silent_ok"]:
                diff = set(k for _, k in norm[1]) ^ base_keys
                raise AnalysisError("%s self-test: findings differ on the ast.unparse-normalised copy "
                                    "(formatting-sensitive rule): %s" % (prop, sorted(diff)[:4]))
        else:
            raise AnalysisError("%s self-test: analysis failed on the normalised copy: %s" % (prop, norm[1]))
        results["silent_on_rewrites"] = {}
        for v, res in variants.items():
            if res[0] != "ran":
                raise AnalysisError("%s self-test: analysis failed on the `%s` rewritten copy: %s" % (prop, v, res[1]))
            same = sorted(k for _, k in res[1]) == sorted(base_keys)
            results["silent_on_rewrites"][v] = same
            if not same:
                diff = set(k for _, k in res[1]) ^ base_keys
                raise AnalysisError("%s self-test: findings differ on the copy rewritten by `%s` (a behaviour-preserving "
                                    "whole-package rewrite, see osaca_sa/rewrites.py): %s" % (prop, v, sorted(diff)[:4]))
        results["silent_on_eq_operand_swap"] = results["silent_on_rewrites"].get("eqswap", False)
        if missed:
            raise AnalysisError("%s self-test: %d mutant(s) not detected: %s" % (prop, len(missed), "; ".join(missed)[:1500]))
        live = results["mutants"] - results["stale"]
        if muts and live < max(1, (len(muts) * 2) // 3) and not base_keys:
            raise AnalysisError("%s self-test: %d of %d mutants are stale on a clean tree - the mutant table "
                                "must be refreshed" % (prop, results["stale"], len(muts)))
        return results
    finally:
        shutil.rmtree(scratch, ignore_errors=True)
