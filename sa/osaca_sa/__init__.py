"""Repository-specific static analyser for RRZE-HPC/OSACA (see /verif/DESIGN.md).

Nothing in this package imports or executes `osaca`; the sources under the repository
root are parsed with `ast`, the data files are read as data.
"""
