"""E10 (part 1): grammar IR obtained by abstractly interpreting a parser's `construct_parser`.

`construct_parser` is straight-line combinator code (assignments only). Each right-hand side is
evaluated *symbolically* into a small grammar IR: terminals (lit, word, regex, quoted), seq, alt
(ordered `|` and longest `^` alike), opt, rep0, rep1, group, combine, suppress, delim, with the
result name set by setResultsName. pyparsing itself is never imported or run.

From the IR the rules derive
  * the tree of result names an expression can produce (what asDict() of a parse can contain),
  * terminal summaries (character sets, literals) for vocabulary checks,
  * whether a slot's token may be hexadecimal.
"""
import ast
import string

from .pm import U
from .srcmodel import AnalysisError

PP_CONSTS = {
    "nums": string.digits,
    "alphas": string.ascii_letters,
    "alphanums": string.ascii_letters + string.digits,
    "hexnums": string.digits + "ABCDEFabcdef",
    "printables": "".join(c for c in string.printable if c not in string.whitespace),
}


class G:
    __slots__ = ("kind", "kids", "name", "a", "src")

    def __init__(self, kind, kids=(), name=None, **a):
        self.kind = kind
        self.kids = list(kids)
        self.name = name
        self.a = a
        self.src = None

    def named(self, n):
        g = G(self.kind, self.kids, n, **self.a)
        g.src = self.src
        return g

    def __repr__(self):
        core = self.kind
        if self.kind in ("lit", "clit"):
            core += "(%r)" % self.a.get("text")
        elif self.kind == "word":
            core += "(%d chars%s)" % (len(self.a.get("chars", "")), ", exact=%s" % self.a["exact"] if self.a.get("exact") else "")
        elif self.kind == "regex":
            core += "(%r)" % self.a.get("pattern")
        elif self.kids:
            core += "[%s]" % ", ".join(repr(k) for k in self.kids)
        return core + (":%s" % self.name if self.name else "")


def seq(*kids):
    out = []
    for k in kids:
        if k.kind == "seq" and k.name is None:
            out.extend(k.kids)
        else:
            out.append(k)
    return G("seq", out)


class Grammar:
    """IR of all expressions bound in construct_parser (locals and self.<attr>)."""

    def __init__(self, repo, clsname):
        self.repo = repo
        self.cls = repo.cls(clsname)
        f = repo.resolve_method(clsname, "construct_parser")
        if f is None or f.cls.name != clsname:
            raise AnalysisError("construct_parser of %s not found" % clsname)
        self.func = f
        self.env = {}
        self.consts = {}
        for c in repo.mro(clsname):
            for k, v in repo.classes[c].class_attrs.items():
                if isinstance(v, ast.Constant) and isinstance(v.value, str):
                    self.consts.setdefault(k, v.value)
                else:
                    try:
                        lv = ast.literal_eval(v)
                    except Exception:
                        continue
                    if isinstance(lv, (tuple, list)) and all(isinstance(x, str) for x in lv):
                        self.consts.setdefault(k, list(lv))
        self.order = []
        self.local_funcs = {}
        for st in f.node.body:
            if isinstance(st, ast.Expr) and isinstance(st.value, ast.Constant):
                continue
            if isinstance(st, ast.FunctionDef) and not (st.args.args or st.args.kwonlyargs or st.args.vararg or st.args.kwarg):
                body = [x for x in st.body if not (isinstance(x, ast.Expr) and isinstance(x.value, ast.Constant))]
                if len(body) == 1 and isinstance(body[0], ast.Return) and body[0].value is not None:
                    # a local helper without parameters that builds one grammar element: its calls stand for that expression
                    self.local_funcs[st.name] = body[0].value
                    continue
            if isinstance(st, ast.Assign) and len(st.targets) == 1 and isinstance(st.targets[0], (ast.Tuple, ast.List)) \
                    and all(isinstance(x, ast.Name) for x in st.targets[0].elts):
                val = self.ev(st.value)
                if isinstance(val, (list, tuple)) and len(val) == len(st.targets[0].elts):
                    for x, v_ in zip(st.targets[0].elts, val):
                        self.env[x.id] = v_
                        self.order.append(x.id)
                    continue
            if not isinstance(st, ast.Assign) or len(st.targets) != 1:
                raise AnalysisError("construct_parser of %s contains a statement that is not a plain assignment: %s" % (
                    clsname, U(st)[:80]))
            t = st.targets[0]
            key = t.id if isinstance(t, ast.Name) else "self." + t.attr if isinstance(t, ast.Attribute) else None
            if key is None:
                raise AnalysisError("unsupported assignment target in construct_parser: %s" % U(t))
            val = self.ev(st.value)
            if isinstance(val, G):
                val.src = st
            self.env[key] = val
            self.order.append(key)

    # ---- symbolic evaluation of combinator expressions
    def ev(self, e):
        if isinstance(e, ast.Constant):
            return e.value
        if isinstance(e, ast.Name):
            if e.id in self.env:
                return self.env[e.id]
            raise AnalysisError("construct_parser uses unknown name %r" % e.id)
        if isinstance(e, ast.Attribute):
            if isinstance(e.value, ast.Name) and e.value.id == "pp":
                if e.attr in PP_CONSTS:
                    return PP_CONSTS[e.attr]
                if e.attr in ("quotedString", "quoted_string"):
                    return G("quoted")
                raise AnalysisError("pp.%s is not modelled" % e.attr)
            if isinstance(e.value, ast.Name) and e.value.id == "self":
                k = "self." + e.attr
                if k in self.env:
                    return self.env[k]
                if e.attr in self.consts:
                    return self.consts[e.attr]
                raise AnalysisError("construct_parser reads self.%s before it is defined" % e.attr)
            raise AnalysisError("unsupported attribute %s" % U(e))
        if isinstance(e, ast.BinOp):
            l, r = self.ev(e.left), self.ev(e.right)
            if isinstance(e.op, ast.Add):
                if isinstance(l, str) and isinstance(r, str):
                    return l + r
                return seq(self.g(l), self.g(r))
            if isinstance(e.op, (ast.BitOr, ast.BitXor)):
                kind = "alt"
                kids = []
                for x in (self.g(l), self.g(r)):
                    if x.kind == "alt" and x.name is None and x.a.get("op") == type(e.op).__name__:
                        kids.extend(x.kids)
                    else:
                        kids.append(x)
                return G("alt", kids, op=type(e.op).__name__)
            raise AnalysisError("unsupported operator in grammar: %s" % U(e))
        if isinstance(e, ast.Call):
            return self.call(e)
        if isinstance(e, (ast.Tuple, ast.List)):
            return [self.ev(x) for x in e.elts]
        if isinstance(e, (ast.GeneratorExp, ast.ListComp)) and len(e.generators) == 1 and not e.generators[0].ifs \
                and isinstance(e.generators[0].target, ast.Name):
            items = self.ev(e.generators[0].iter)
            if isinstance(items, str):
                items = list(items)
            if isinstance(items, (list, tuple)):
                out, nm = [], e.generators[0].target.id
                saved = self.env.get(nm, None)
                for it in items:
                    self.env[nm] = it
                    out.append(self.ev(e.elt))
                if saved is None:
                    self.env.pop(nm, None)
                else:
                    self.env[nm] = saved
                return out
        raise AnalysisError("unsupported grammar expression: %s" % U(e)[:80])

    def g(self, v):
        if isinstance(v, G):
            return v
        if isinstance(v, str):
            return G("lit", text=v)
        raise AnalysisError("not a grammar element: %r" % (v,))

    def call(self, c):
        f = c.func
        if isinstance(f, ast.Name) and f.id in self.local_funcs and not c.args and not c.keywords:
            return self.ev(self.local_funcs[f.id])
        fname = U(f)
        if fname in ("functools.reduce", "reduce") and len(c.args) == 2 and U(c.args[0]) in (
                "operator.xor", "xor", "operator.or_", "or_", "operator.add", "add"):
            # reduce(xor, elements): the elements joined with that operator, left to right
            items = self.ev(c.args[1])
            if isinstance(items, (list, tuple)) and items:
                opn = U(c.args[0]).split(".")[-1]
                acc = self.g(items[0])
                for it in items[1:]:
                    if opn == "add":
                        acc = seq(acc, self.g(it))
                    else:
                        kind = "BitXor" if opn == "xor" else "BitOr"
                        kids = list(acc.kids) if acc.kind == "alt" and acc.name is None and acc.a.get("op") == kind else [acc]
                        acc = G("alt", kids + [self.g(it)], op=kind)
                return acc
        kw = {k.arg: self.ev(k.value) for k in c.keywords}
        if isinstance(f, ast.Attribute) and not (isinstance(f.value, ast.Name) and f.value.id == "pp"):
            base = self.ev(f.value)
            m = f.attr
            if m in ("setResultsName", "set_results_name"):
                return self.g(base).named(self.ev(c.args[0]))
            if m in ("setName", "set_name", "setDebug", "streamline", "copy", "leaveWhitespace", "leave_whitespace",
                     "setParseAction", "set_parse_action", "addParseAction"):
                g = self.g(base)
                if m in ("leaveWhitespace", "leave_whitespace"):
                    g = G(g.kind, g.kids, g.name, **dict(g.a, leave_ws=True))
                return g
            raise AnalysisError("grammar method .%s() is not modelled" % m)
        name = f.attr if isinstance(f, ast.Attribute) else f.id
        args = [self.ev(a) for a in c.args]
        if name == "Literal":
            return G("lit", text=args[0])
        if name in ("CaselessLiteral", "CaselessKeyword"):
            return G("clit", text=args[0])
        if name == "Keyword":
            return G("lit", text=args[0])
        if name == "Word":
            chars = args[0]
            body = args[1] if len(args) > 1 and isinstance(args[1], str) else kw.get("bodyChars") or kw.get("body_chars")
            ex = kw.get("excludeChars") or kw.get("exclude_chars") or ""
            chars = "".join(ch for ch in chars if ch not in ex)
            if body:
                body = "".join(ch for ch in body if ch not in ex)
            return G("word", chars=chars, body=body, exact=kw.get("exact", 0), min=kw.get("min", 1), max=kw.get("max", 0))
        if name == "Regex":
            return G("regex", pattern=args[0])
        if name in ("oneOf", "one_of"):
            words = args[0].split() if isinstance(args[0], str) else list(args[0])
            kind = "clit" if kw.get("caseless") else "lit"
            # pyparsing orders longest first
            words = sorted(words, key=lambda w: -len(w))
            return G("alt", [G(kind, text=w) for w in words], op="oneOf")
        if name == "Optional" or name == "Opt":
            return G("opt", [self.g(args[0])])
        if name == "ZeroOrMore":
            return G("rep0", [self.g(args[0])])
        if name == "OneOrMore":
            return G("rep1", [self.g(args[0])])
        if name == "Group":
            return G("group", [self.g(args[0])])
        if name == "Combine":
            return G("combine", [self.g(args[0])], join=kw.get("joinString", kw.get("join_string", "")),
                     adjacent=kw.get("adjacent", True))
        if name == "Suppress":
            return G("suppress", [self.g(args[0])])
        if name in ("delimitedList", "delimited_list", "DelimitedList"):
            d = kw.get("delim", args[1] if len(args) > 1 else ",")
            return G("delim", [self.g(args[0]), self.g(d)])
        if name == "Empty":
            return G("seq", [])
        if name in ("And", "MatchFirst", "Or"):
            kids = [self.g(x) for x in args[0]]
            return seq(*kids) if name == "And" else G("alt", kids, op=name)
        raise AnalysisError("pyparsing combinator %s is not modelled (grammar must be re-derived)" % name)

    # ---- queries
    def get(self, key):
        if key not in self.env or not isinstance(self.env[key], G):
            raise AnalysisError("grammar variable %r not found in %s.construct_parser" % (key, self.cls.name))
        return self.env[key]


def _merge(dst, src):
    for k, v in src.items():
        if k not in dst:
            dst[k] = {}
        _merge(dst[k], v)
    return dst


def _inner(group):
    out = {}
    for k in group.kids:
        _merge(out, names_tree(k))
    return out


def _groups_at_level(n):
    """Group nodes reachable from n without crossing another group (n itself excluded if group)."""
    out = []
    for k in n.kids:
        if k.kind == "group":
            out.append(k)
        elif k.kind != "combine":
            out.extend(_groups_at_level(k))
    return out


def names_tree(n):
    """Result names visible at the nesting level where n's match lands: {name: subtree}.

    pyparsing semantics (over-approximated): a named Group nests its inner names under its name; an
    unnamed Group hides them; names inside any other expression propagate upwards; a named non-group
    additionally maps its name to its tokens - when those are nested group results, to the union of
    the groups' inner names; Combine yields a plain string (inner names dropped); a Regex yields its
    named groups."""
    if n.kind == "combine":
        own = {}
    elif n.kind == "regex":
        import re as _re

        try:
            own = {nm: {} for nm in _re.compile(n.a["pattern"]).groupindex}
        except Exception:
            own = {}
    elif n.kind == "group":
        own = {}
    else:
        own = {}
        for k in n.kids:
            _merge(own, names_tree(k))
    if n.name is None:
        return own
    if n.kind == "group":
        return {n.name: _inner(n)}
    val = {}
    if n.kind != "combine":
        for g in _groups_at_level(n):
            _merge(val, _inner(g))
    out = dict(own)
    _merge(out, {n.name: val})
    return out


def contains_literal(g, text):
    if g.kind in ("lit", "clit") and g.a.get("text") == text:
        return True
    return any(contains_literal(k, text) for k in g.kids)


def terminals(g):
    out = []
    if g.kind in ("lit", "clit", "word", "regex", "quoted"):
        out.append(g)
    for k in g.kids:
        out.extend(terminals(k))
    return out


def find_named(g, name, _seen=None):
    """All sub-expressions carrying result name `name`."""
    out = []
    if g.name == name:
        out.append(g)
    for k in g.kids:
        out.extend(find_named(k, name))
    return out


def may_be_hex(g):
    """Can a token of this expression be a hexadecimal literal (0x..)?"""
    if contains_literal(g, "0x") or contains_literal(g, "0X"):
        return True
    from . import automata

    try:
        nfa, start = automata.envelope(g)
        return nfa.accepts("0x1f", start)
    except Exception:
        return False
