"""E9 support: the shipped YAML data, read as *data* (ruamel safe loader), never through osaca.

Parsed files are cached as pickles keyed by the SHA-256 of the file's bytes under
/verif/.cache (git-ignored, a pure speed-up: a miss re-parses).
"""
import hashlib
import os
import pickle
from concurrent.futures import ProcessPoolExecutor
from pathlib import Path

from .srcmodel import AnalysisError, AnchorMissing

CACHE = Path(__file__).resolve().parents[2] / ".cache"


def _sha(path):
    return hashlib.sha256(Path(path).read_bytes()).hexdigest()


def _load_one(path):
    path = str(path)
    size = os.path.getsize(path)
    if size == 0:
        return path, None, "empty"
    sha = _sha(path)
    cp = CACHE / (sha + ".pickle")
    if cp.exists():
        try:
            with open(cp, "rb") as f:
                return path, pickle.load(f), "cache"
        except Exception:
            pass
    import ruamel.yaml

    y = ruamel.yaml.YAML(typ="safe", pure=True)
    try:
        with open(path) as f:
            data = y.load(f)
    except Exception as e:  # malformed YAML is a data defect, reported by the caller
        return path, e, "error"
    try:
        CACHE.mkdir(exist_ok=True)
        tmp = cp.with_suffix(".tmp%d" % os.getpid())
        with open(tmp, "wb") as f:
            pickle.dump(data, f, protocol=pickle.HIGHEST_PROTOCOL)
        os.replace(tmp, cp)
    except OSError:
        pass
    return path, data, "parsed"


class DataSet:
    """Lazy access to <repo>/osaca/data/*.yml and isa/*.yml."""

    def __init__(self, root):
        self.root = Path(root)
        self.dir = self.root / "osaca" / "data"
        if not self.dir.is_dir():
            raise AnchorMissing("data directory %s missing" % self.dir)
        self._loaded = {}
        self.status = {}

    def model_files(self):
        return sorted(self.dir.glob("*.yml"))

    def isa_files(self):
        return sorted((self.dir / "isa").glob("*.yml"))

    def rel(self, path):
        return str(Path(path).relative_to(self.root))

    def load(self, paths):
        todo = [str(p) for p in paths if str(p) not in self._loaded]
        if todo:
            # biggest first, one process per file
            todo.sort(key=lambda p: -os.path.getsize(p))
            if len(todo) == 1:
                results = [_load_one(todo[0])]
            else:
                with ProcessPoolExecutor(max_workers=min(16, len(todo))) as ex:
                    results = list(ex.map(_load_one, todo))
            for path, data, status in results:
                self._loaded[path] = data
                self.status[path] = status
        return {str(p): self._loaded[str(p)] for p in paths}

    def get(self, path):
        return self.load([path])[str(path)]

    def models(self):
        """{path: data} for every non-empty model file; empty files are reported as skipped."""
        files = self.model_files()
        loaded = self.load(files)
        return {p: d for p, d in loaded.items() if d is not None}

    def isas(self):
        files = self.isa_files()
        loaded = self.load(files)
        return {p: d for p, d in loaded.items() if d is not None}

    def skipped(self):
        return [self.rel(p) for p, s in self.status.items() if s == "empty"]


def sig_of_entry(entry):
    """Short operand signature of a YAML instruction-form entry (for finding keys)."""
    ops = entry.get("operands") if isinstance(entry, dict) else None
    out = []
    if not isinstance(ops, list):
        return "<no operand list>"
    for o in ops:
        if not isinstance(o, dict):
            out.append("?")
            continue
        c = o.get("class")
        if c == "register":
            out.append("reg(%s)" % ",".join(
                str(o[k]) for k in ("prefix", "name", "shape") if k in o and o[k] is not None))
        elif c == "memory":
            out.append("mem(%s)" % ",".join(
                "%s=%s" % (k[0], _short(o.get(k))) for k in ("base", "offset", "index", "scale")))
        elif c == "immediate":
            out.append("imm(%s)" % o.get("imd"))
        else:
            out.append(str(c))
    return " ".join(out)


def _short(v):
    if isinstance(v, dict):
        return v.get("name", "?")
    return v


def entry_names(entry):
    n = entry.get("name") if isinstance(entry, dict) else None
    if isinstance(n, list):
        return [str(x) for x in n]
    return [str(n)]
