"""./check <property> [--tier quick|thorough] [--replay PATH]

exit 0  every obligation discharged (listed known findings are printed, not counted)
exit 1  VIOLATION property=<id> replay=<path>   (one line per finding not listed as known)
exit 2  ANALYSIS-ERROR ...                       (anchor vanished / idiom not understood / bug)
"""
import argparse
import importlib
import json
import os
import sys
import time
import traceback

from . import report
from .srcmodel import AnalysisError, Repo
from .yamldata import DataSet

PROPS = ["C%02d" % i for i in range(1, 21)]


def load_rules(prop):
    try:
        return importlib.import_module("osaca_sa.rules.%s" % prop.lower())
    except ModuleNotFoundError as e:
        if "rules.%s" % prop.lower() in str(e):
            raise AnalysisError("no rule module for %s (property not claimed)" % prop)
        raise


def analyse(prop, tier, root=None):
    """Run the rules of `prop` on the tree under `root`; returns the Ctx (known not applied)."""
    # caches keyed by id() of syntax nodes must not survive from an earlier analysis in the same process (the self-test runs
    # many analyses per worker process; a freed node's id can be reused by a node of the next tree)
    from .rules import common as _common
    _common._cache.clear()
    try:
        from .rules import c18 as _c18
        _c18._effects_cache.clear()
    except Exception:
        pass
    repo = Repo(root)
    data = DataSet(repo.root)
    ctx = report.Ctx(prop, repo, tier, data)
    mod = load_rules(prop)
    ctx.incomplete = None
    try:
        mod.run(ctx)
    except AnalysisError as e:
        # A rule stopped understanding the code *after* specific violations were already established: those
        # are reported (exit 1); with no finding to show, the run is an analysis error (exit 2).
        if not ctx.findings:
            raise
        ctx.incomplete = e
        ctx.notes.append("analysis stopped early (%s); the findings reported are those established before" % e)
    unknowns = getattr(ctx, "unknowns", [])
    if unknowns and ctx.incomplete is None:
        ctx.incomplete = AnalysisError("%s: %d construct(s) not understood (idiom the rule was not written for): %s" % (
            prop, len(unknowns), " || ".join(unknowns)[:900]))
        if ctx.findings:
            ctx.notes.append(str(ctx.incomplete))
    return ctx, mod


def main(argv=None):
    ap = argparse.ArgumentParser(prog="check")
    ap.add_argument("prop")
    ap.add_argument("--tier", default=os.environ.get("VERIF_TIER") or "quick",
                    choices=["quick", "thorough"])
    ap.add_argument("--replay", default=None)
    ap.add_argument("--repo", default=None)
    ap.add_argument("--no-evidence", action="store_true")
    ap.add_argument("--emit-known", action="store_true",
                    help="developer aid: print the current unlisted findings as JSON entries for "
                         "known_findings.json (printing only; the file is never written at run time)")
    args = ap.parse_args(argv)
    prop = args.prop.upper()
    t0 = time.time()
    try:
        if prop not in PROPS:
            raise AnalysisError("unknown property id %r" % prop)
        ctx, mod = analyse(prop, args.tier, args.repo)
        stale = report.apply_known(ctx)
        if ctx.incomplete is not None and not [f for f in ctx.findings if not f.known]:
            raise ctx.incomplete
        selftest_result = None
        if args.tier == "thorough" and not args.replay:
            from . import selftest

            selftest_result = selftest.run(prop, ctx)
        if args.replay:
            return replay(ctx, args.replay)
        if args.emit_known:
            print(json.dumps([{"property": prop, "key": f.key, "what": f.detail[:200]}
                              for f in ctx.findings if not f.known], indent=1))
            return 0
        print("property %s  tier=%s  repo=%s  digest=%s" % (
            prop, args.tier, ctx.repo.root, ctx.repo.digest.hexdigest()[:12]))
        print("analysed: %d function(s) in %d file(s); %d obligation(s), %d distinct" % (
            len(ctx.functions), len(ctx.files), len(ctx.obligations),
            len({(o["rule"], o["instance"]) for o in ctx.obligations})))
        per = {}
        for o in ctx.obligations:
            d = per.setdefault(o["rule"], [0, 0])
            d[0] += 1
            d[1] += o["status"] == "discharged"
        for rid in sorted(set(per) | set(ctx.rules)):
            n, okc = per.get(rid, (0, 0))
            print("  rule %-5s %3d/%-3d discharged  %s" % (rid, okc, n, ctx.rules.get(rid, "")))
        for n in ctx.notes:
            print("NOTE: %s" % n)
        for k in stale:
            print("NOTE: listed known finding not reproduced on this tree: %s" % k["key"])
        new = [f for f in ctx.findings if not f.known]
        for f in ctx.findings:
            if f.known:
                print("KNOWN-FINDING: property=%s %s [%s at %s]" % (
                    prop, f.known.get("what", f.detail), f.rule, f.where))
        for f in new:
            p = report.write_replay(f)
            print("VIOLATION property=%s replay=%s" % (prop, p))
            print("  rule %s at %s in %s" % (f.rule, f.where, f.scope))
            print("  construct: %s" % f.construct[:300])
            print("  %s" % f.detail)
        if selftest_result is not None:
            print("selftest: %(mutants)d mutant(s): %(caught)d caught, %(stale)d stale, "
                  "%(missed)d missed; silent-on-normalised-copy=%(silent_ok)s; silent-on-rewrites=%(silent_on_rewrites)s" % selftest_result)
            sc, rf = selftest_result.get("seeded_changes", {}), selftest_result.get("refactorings", {})
            print("selftest: stored patches: %d/%d seeded change(s) of this property reported; %d refactoring(s): %d silent, %d not understood, %d false alarm(s)" % (
                sum(1 for v in sc.values() if v == "caught"), len(sc), len(rf), sum(1 for v in rf.values() if v == "silent"),
                sum(1 for v in rf.values() if v.startswith("not understood")), sum(1 for v in rf.values() if v == "FALSE ALARM")))
        if not args.no_evidence:
            report.write_evidence(
                ctx, len(new), mod.EXPLANATION, mod.ASSUMPTIONS,
                ["CPython ast", "ruamel.yaml safe loader (data only)", "networkx (dominators)",
                 "/verif/spec/*.json reference tables", "/verif/sa/osaca_sa (this analyser)"],
                mod.NOT_DECIDED, selftest_result, getattr(mod, "EXHAUSTIVE", None))
        print("wall %.2fs  -> %s" % (time.time() - t0, "VIOLATED" if new else "holds"))
        return 1 if new else 0
    except AnalysisError as e:
        print("ANALYSIS-ERROR property=%s %s" % (prop, e))
        return 2
    except Exception:
        print("ANALYSIS-ERROR property=%s internal error in the analyser:" % prop)
        traceback.print_exc(file=sys.stdout)
        return 2


def replay(ctx, path):
    want = json.loads(open(path).read())
    hits = [f for f in ctx.findings if f.key == want["key"]]
    if not hits:
        print("replay: finding %s is NOT reproduced on the current tree" % want["key"])
        return 0
    for f in hits:
        print("VIOLATION property=%s replay=%s" % (ctx.prop, path))
        print("  rule %s at %s in %s" % (f.rule, f.where, f.scope))
        print("  %s" % f.detail)
        if f.excerpt:
            print(f.excerpt)
    return 1


if __name__ == "__main__":
    sys.exit(main())
