"""E12: inlining of *new* private helpers and *new* literal constants.

The rules are written against the decomposition of the package into functions that existed when they were
written (spec/known_symbols.json: names only). The most common behaviour-preserving refactoring - "extract method" /
"introduce named constant" - creates symbols that are not in that list. Before any rule runs, calls to such new
helpers are expanded in place and references to such new constants are replaced by their literal, so that the rules
see the code in the decomposition they understand. Nothing is guessed: a helper that cannot be expanded exactly
(generator, loop or try/with containing a return, *args, recursion, decorator other than staticmethod/classmethod)
is left alone, and the rules then either still understand the caller or answer ANALYSIS-ERROR.

Expansion is exact for the purposes of a static analysis: arguments that are simple (names, attribute chains,
constants) are substituted, others are bound to fresh locals first; helper locals are renamed apart; `return e`
becomes an assignment to the call's target (statements after an `if` that returns are moved into its else branch).
"""
import ast
import copy
import json
from pathlib import Path

KNOWN = Path(__file__).resolve().parents[2] / "spec" / "known_symbols.json"


class NotInlinable(Exception):
    pass


def load_known():
    d = json.loads(KNOWN.read_text())
    return set(d["functions"]), set(d["constants"]), {k: set(v) for k, v in d.get("locals", {}).items()}


def _clone(n):
    """Deep copy without parent pointers."""
    if isinstance(n, list):
        return [_clone(x) for x in n]
    if not isinstance(n, ast.AST):
        return n
    new = type(n)()
    for f in n._fields:
        if hasattr(n, f):
            setattr(new, f, _clone(getattr(n, f)))
    for a in ("lineno", "col_offset", "end_lineno", "end_col_offset"):
        if hasattr(n, a):
            setattr(new, a, getattr(n, a))
    return new


def _simple(e):
    if isinstance(e, (ast.Name, ast.Constant)):
        return True
    if isinstance(e, ast.Attribute):
        return _simple(e.value)
    if isinstance(e, ast.Subscript):
        return _simple(e.value) and isinstance(e.slice, ast.Constant)
    return False


def _body(fn):
    b = fn.body
    if b and isinstance(b[0], ast.Expr) and isinstance(b[0].value, ast.Constant) and isinstance(b[0].value.value, str):
        b = b[1:]
    return b


def _contains(node, types, stop=(ast.FunctionDef, ast.AsyncFunctionDef, ast.Lambda, ast.ClassDef)):
    for ch in ast.iter_child_nodes(node):
        if isinstance(ch, stop):
            continue
        if isinstance(ch, types) or _contains(ch, types, stop):
            return True
    return False


def _has_return(stmts):
    return any(isinstance(s, ast.Return) or _contains(s, ast.Return) for s in stmts)


def _to_expr(stmts):
    if not stmts:
        raise NotInlinable("falls off the end")
    s = stmts[0]
    if isinstance(s, ast.Return):
        if s.value is None:
            raise NotInlinable("bare return")
        return s.value
    if isinstance(s, ast.If):
        if _always_returns(s.body):
            return ast.IfExp(test=s.test, body=_to_expr(s.body), orelse=_to_expr(list(s.orelse) + list(stmts[1:])))
        if s.orelse and _always_returns(s.orelse):
            return ast.IfExp(test=s.test, body=_to_expr(list(s.body) + list(stmts[1:])), orelse=_to_expr(s.orelse))
    raise NotInlinable("not a chain of if-returns")


class Helper:
    """An inlinable helper."""

    def __init__(self, qname, node, cls):
        self.qname, self.node, self.cls = qname, node, cls
        a = node.args
        if a.vararg or a.kwarg or a.posonlyargs:
            raise NotInlinable("star/positional-only parameters")
        decos = [ast.unparse(d) for d in node.decorator_list]
        if any(d not in ("staticmethod", "classmethod") for d in decos):
            raise NotInlinable("decorated")
        self.static = "staticmethod" in decos
        self.classmethod = "classmethod" in decos
        if _contains(node, (ast.Yield, ast.YieldFrom, ast.Await, ast.Global, ast.Nonlocal), stop=()):
            raise NotInlinable("generator / global")
        if any(isinstance(n, (ast.FunctionDef, ast.AsyncFunctionDef, ast.ClassDef)) for n in ast.walk(node) if n is not node):
            raise NotInlinable("nested definitions")
        self.body = _body(node)
        self.params = [x.arg for x in a.args + a.kwonlyargs]
        self.defaults = {}
        pos = a.args
        for p, d in zip(pos[len(pos) - len(a.defaults):], a.defaults):
            self.defaults[p.arg] = d
        for p, d in zip(a.kwonlyargs, a.kw_defaults):
            if d is not None:
                self.defaults[p.arg] = d
        self.expr = self.body[0].value if len(self.body) == 1 and isinstance(self.body[0], ast.Return) and self.body[0].value is not None else None
        if self.expr is None:
            # `if c: return A` ... `return B` is the expression `A if c else B`
            try:
                self.expr = _to_expr(self.body)
            except NotInlinable:
                self.expr = None
        # returns inside loops / try / with cannot be turned into assignments
        for n in ast.walk(node):
            if isinstance(n, (ast.For, ast.While, ast.Try, ast.With, ast.AsyncFor, ast.AsyncWith)) and _contains(n, ast.Return):
                if self.expr is None:
                    self.loop_return = True
                    break
        else:
            self.loop_return = False
        self.assigned = {n.id for n in ast.walk(node) if isinstance(n, ast.Name) and isinstance(n.ctx, (ast.Store, ast.Del))}
        for n in ast.walk(node):
            if isinstance(n, ast.ExceptHandler) and n.name:
                self.assigned.add(n.name)


class _Subst(ast.NodeTransformer):
    def __init__(self, mapping, rename):
        self.mapping, self.rename = mapping, rename

    def visit_Name(self, n):
        if n.id in self.mapping:
            return _clone(self.mapping[n.id])
        if n.id in self.rename:
            n.id = self.rename[n.id]
        return n

    def visit_ExceptHandler(self, n):
        self.generic_visit(n)
        if n.name in self.rename:
            n.name = self.rename[n.name]
        return n


def _bind(h, call, receiver, counter, caller_names=frozenset(), keep=frozenset()):
    """(pre-statements, mapping param->expr, rename map) for one call."""
    params = list(h.params)
    mapping, pre = {}, []
    tag = "__%s%d" % (h.node.name.strip("_"), counter)
    if not h.static and h.cls is not None:
        if not params:
            raise NotInlinable("method without self")
        selfp = params.pop(0)
        mapping[selfp] = receiver if receiver is not None else ast.Name(id="self", ctx=ast.Load())
    if any(isinstance(a, ast.Starred) for a in call.args) or any(k.arg is None for k in call.keywords):
        raise NotInlinable("star arguments")
    if len(call.args) > len(params):
        raise NotInlinable("arity")
    actual = dict(zip(params, call.args))
    for k in call.keywords:
        if k.arg not in params or k.arg in actual:
            raise NotInlinable("keyword")
        actual[k.arg] = k.value
    for p in params:
        if p not in actual:
            if p not in h.defaults:
                raise NotInlinable("missing argument")
            actual[p] = h.defaults[p]
    for p in params:
        a = actual[p]
        uses = sum(1 for n in ast.walk(h.node) if isinstance(n, ast.Name) and n.id == p and isinstance(n.ctx, ast.Load))
        if p not in h.assigned and (_simple(a) or (h.expr is not None and uses <= 1)):
            mapping[p] = a
        else:
            if h.expr is not None:
                # expression helpers cannot introduce statements: substitute anyway (evaluated more than once - harmless here)
                mapping[p] = a
            else:
                new = p + tag if p in caller_names else p
                pre.append(ast.Assign(targets=[ast.Name(id=new, ctx=ast.Store())], value=_clone(a)))
                mapping[p] = ast.Name(id=new, ctx=ast.Load())
    argnames = {x.id for a in list(call.args) + [k.value for k in call.keywords] for x in ast.walk(a) if isinstance(x, ast.Name)}
    keep = {k for k in keep if k not in argnames}
    rename = {v: v + tag for v in h.assigned if v not in params and v in caller_names and v not in keep}
    # parameters that are re-assigned inside the helper were bound to a fresh local above; route stores to it
    for p in params:
        if p in h.assigned and isinstance(mapping.get(p), ast.Name):
            rename[p] = mapping[p].id
            del mapping[p]
    return pre, mapping, rename


def _conv(stmts, kind, targets):
    """Turn `return e` into the continuation (`targets = e` / nothing); statements after an if that returns move into
    the other branch. Returns the new statement list."""
    out = []
    for i, s in enumerate(stmts):
        if isinstance(s, ast.Return):
            if kind == "assign":
                val = s.value if s.value is not None else ast.Constant(value=None)
                out.append(ast.Assign(targets=[_clone(t) for t in targets], value=val))
            elif kind == "expr" and s.value is not None and not isinstance(s.value, (ast.Constant, ast.Name)):
                out.append(ast.Expr(value=s.value))
            return out, True
        if isinstance(s, ast.If) and _has_return([s]):
            rest = stmts[i + 1:]
            body, tb = _conv(s.body + ([] if _always_returns(s.body) else _clone(rest)), kind, targets)
            orelse, to = _conv((s.orelse or []) + ([] if _always_returns(s.orelse or []) else _clone(rest)), kind, targets)
            new = ast.If(test=s.test, body=body or [ast.Pass()], orelse=orelse)
            out.append(new)
            return out, tb and to
        if _contains(s, ast.Return):
            raise NotInlinable("return inside a compound statement")
        out.append(s)
    if kind == "assign":
        out.append(ast.Assign(targets=[_clone(t) for t in targets], value=ast.Constant(value=None)))
    return out, False


def _always_returns(stmts):
    if not stmts:
        return False
    last = stmts[-1]
    if isinstance(last, (ast.Return, ast.Raise)):
        return True
    if isinstance(last, ast.If):
        return _always_returns(last.body) and _always_returns(last.orelse)
    return False


def _replace_node(root, old, new):
    for n in ast.walk(root):
        for fld, v in ast.iter_fields(n):
            if v is old:
                setattr(n, fld, new)
                return True
            if isinstance(v, list):
                for i, x in enumerate(v):
                    if x is old:
                        v[i] = new
                        return True
    return False


PURE_CALLS = {"len", "int", "float", "str", "bool", "min", "max", "sum", "abs", "round", "isinstance", "any", "all", "repr",
              "list", "tuple", "sorted", "set", "frozenset", "dict", "enumerate", "zip", "range", "reversed", "getattr", "Path"}
PURE_METHODS = {"index", "get", "lower", "upper", "keys", "values", "items", "startswith", "endswith", "strip", "lstrip", "rstrip",
                "split", "format", "join", "count", "find", "partition", "with_name", "with_suffix", "hexdigest", "read_bytes",
                "get_ports", "get_ISA", "get_data_ports", "subgraph", "has_node", "has_edge", "descendants", "ancestors", "has_path", "match", "fullmatch", "search", "group", "groups"}
CREATORS = {"list", "tuple", "sorted", "set", "frozenset", "dict", "enumerate", "zip", "range", "reversed"}
MUTATING = {"append", "add", "insert", "extend", "update", "remove", "pop", "sort", "reverse", "clear", "setdefault", "discard", "popitem"}


def _pure(e):
    for n in ast.walk(e):
        if isinstance(n, ast.Call):
            if isinstance(n.func, ast.Name):
                if n.func.id not in PURE_CALLS:
                    return False
            elif isinstance(n.func, ast.Attribute):
                if n.func.attr not in PURE_METHODS:
                    return False
            else:
                return False
        elif isinstance(n, (ast.Lambda, ast.Yield, ast.YieldFrom, ast.Await, ast.NamedExpr, ast.Starred)):
            return False
    return True


def _creates(e):
    if isinstance(e, (ast.List, ast.Dict, ast.Set, ast.ListComp, ast.SetComp, ast.DictComp, ast.GeneratorExp)):
        return True
    if isinstance(e, ast.Call) and isinstance(e.func, ast.Name) and e.func.id in CREATORS:
        return True
    if isinstance(e, ast.BinOp):
        return _creates(e.left) or _creates(e.right)
    if isinstance(e, ast.IfExp):
        return _creates(e.body) or _creates(e.orelse)
    return False


class Inliner:
    def __init__(self, repo, known_funcs, known_consts, known_locals=None):
        self.repo = repo
        self.known_funcs, self.known_consts = known_funcs, known_consts
        self.known_locals = known_locals or {}
        self.temps = []          # (function qname, local name) propagated
        self.helpers = {}
        self.rejected = {}
        self.counter = 0
        self.expanded = []       # (caller qname, helper qname)
        self.consts = {}         # "Class.NAME"/"stem.NAME" -> literal node
        for q, f in repo.funcs.items():
            if q in known_funcs or f.file.startswith("osaca/data/") or f.name.startswith("__"):
                continue
            try:
                self.helpers[q] = Helper(q, f.node, f.cls)
            except NotInlinable as e:
                self.rejected[q] = str(e)
        for c in repo.classes.values():
            for name, v in c.class_attrs.items():
                self._const("%s.%s" % (c.name, name), name, v)
        for m in repo.modules.values():
            if m.rel.startswith("osaca/data/"):
                continue
            for name, v in m.globals.items():
                self._const("%s.%s" % (m.stem, name), name, v)

    READONLY_CALLS = {"len", "set", "frozenset", "sorted", "tuple", "list", "dict", "enumerate", "zip", "sum", "any", "all",
                      "max", "min", "reversed", "iter", "isinstance"}
    READONLY_METHODS = {"get", "keys", "items", "values", "index", "count", "copy"}

    def _readonly_everywhere(self, name, v):
        """A constant whose literal is a MUTABLE display (list/dict/set) is one shared object; replacing a reference by
        the display gives every use a fresh object. That is the same program only if no use can edit or leak the object:
        every reference in the package must be a membership test, an iteration, an argument of a pure builtin, a
        read-only method call or (when all elements are immutable) a subscript load."""
        flat = all(isinstance(x, ast.Constant) for x in (
            (v.values if isinstance(v, ast.Dict) else getattr(v, "elts", []))))
        for m in self.repo.modules.values():
            if m.rel.startswith("osaca/data/"):
                continue
            par = {}
            for n in ast.walk(m.tree):
                for c in ast.iter_child_nodes(n):
                    par[id(c)] = n
            for n in ast.walk(m.tree):
                ref = (isinstance(n, ast.Name) and n.id == name) or (isinstance(n, ast.Attribute) and n.attr == name)
                if not ref:
                    continue
                if isinstance(n.ctx, ast.Store):
                    if isinstance(par.get(id(n)), (ast.Assign, ast.AnnAssign)) and isinstance(par.get(id(par[id(n)])), (ast.Module, ast.ClassDef)):
                        continue        # the definition itself
                    return False
                p = par.get(id(n))
                if isinstance(p, ast.Compare) and any(n is c for c in p.comparators) and all(
                        isinstance(o, (ast.In, ast.NotIn)) for o in p.ops):
                    continue
                if isinstance(p, (ast.For, ast.comprehension)) and p.iter is n:
                    continue
                if isinstance(p, ast.Call) and isinstance(p.func, ast.Name) and p.func.id in self.READONLY_CALLS and any(n is a for a in p.args):
                    continue
                if isinstance(p, ast.Attribute) and p.value is n and p.attr in self.READONLY_METHODS and isinstance(par.get(id(p)), ast.Call) \
                        and (flat or p.attr in ("keys", "index", "count")):
                    continue
                if isinstance(p, ast.Subscript) and p.value is n and isinstance(p.ctx, ast.Load) and flat:
                    continue
                if isinstance(p, (ast.alias,)):
                    continue
                return False
        return True

    def _const(self, q, name, v):
        if q in self.known_consts or not name.upper() == name or not name.strip("_"):
            return
        try:
            ast.literal_eval(v)
        except Exception:
            return
        if any(isinstance(x, (ast.List, ast.Dict, ast.Set)) for x in ast.walk(v)) and not self._readonly_everywhere(name, v):
            self.rejected["const " + q] = "mutable constant with a use that may edit or leak it"
            return
        self.consts[q] = v

    # ---- resolution -------------------------------------------------------------------------
    def _callee(self, f, call):
        fn = call.func
        if isinstance(fn, ast.Name):
            q = "%s.%s" % (f.module.stem, fn.id)
            return self.helpers.get(q), None
        if isinstance(fn, ast.Attribute) and isinstance(fn.value, ast.Name):
            owner = None
            if fn.value.id in ("self", "cls") and f.cls is not None:
                owner = f.cls.name
            elif fn.value.id in self.repo.classes:
                owner = fn.value.id
            if owner is not None:
                for c in self.repo.mro(owner):
                    q = "%s.%s" % (c, fn.attr)
                    if q in self.repo.funcs:
                        h = self.helpers.get(q)
                        return h, (fn.value if fn.value.id == "self" else None)
        return None, None

    def _const_of(self, f, e):
        if isinstance(e, ast.Name) and isinstance(e.ctx, ast.Load):
            return self.consts.get("%s.%s" % (f.module.stem, e.id))
        if isinstance(e, ast.Attribute) and isinstance(e.value, ast.Name) and isinstance(e.ctx, ast.Load):
            owner = None
            if e.value.id in ("self", "cls") and f.cls is not None:
                owner = f.cls.name
            elif e.value.id in self.repo.classes:
                owner = e.value.id
            if owner is not None:
                for c in self.repo.mro(owner):
                    if e.attr in self.repo.classes[c].class_attrs:
                        return self.consts.get("%s.%s" % (c, e.attr))
        return None

    # ---- expansion --------------------------------------------------------------------------
    def run(self):
        for f in self.repo.funcs.values():
            if not f.file.startswith("osaca/data/"):
                self._names(f)
        for _ in range(5):
            changed = False
            # constants and temps first: a helper whose body becomes a single return expression can be substituted anywhere
            for f in self.repo.funcs.values():
                if f.file.startswith("osaca/data/"):
                    continue
                self._inline_constants(f)
                before = len(self.temps)
                self._propagate_temps(f)
                changed = changed or len(self.temps) != before
            for q in list(self.helpers):
                try:
                    self.helpers[q] = Helper(q, self.repo.funcs[q].node, self.repo.funcs[q].cls)
                except NotInlinable as e:
                    self.rejected[q] = str(e)
                    del self.helpers[q]
            order = sorted(self.repo.funcs.values(), key=lambda f: (f.qname not in self.helpers, f.qname))
            for f in order:
                if f.file.startswith("osaca/data/"):
                    continue
                if self._expand_function(f):
                    changed = True
            if not changed:
                break
        return self

    def _propagate_temps(self, f):
        """Locals that did not exist when the rules were written (or that this pass introduced), are assigned exactly once
        from a pure expression and only read afterwards, are replaced by that expression (undoing "introduce local")."""
        known = self.known_locals.get(f.qname)
        if known is None:
            known = set()      # a new (not expandable) helper: every temp is fair game
        from .cfg import CFG

        for _ in range(6):
            stores = {}
            # (the target of a comprehension is a variable of the comprehension's own scope, not a store of the function's local)
            comp_targets = {id(x) for c_ in ast.walk(f.node) if isinstance(c_, ast.comprehension) for x in ast.walk(c_.target)}
            for n in ast.walk(f.node):
                if isinstance(n, ast.Name) and isinstance(n.ctx, (ast.Store, ast.Del)) and id(n) not in comp_targets:
                    stores.setdefault(n.id, []).append(n)
            params = {a.arg for a in ast.walk(f.node.args) if isinstance(a, ast.arg)}
            cand = None
            for name, sts in stores.items():
                if name in known or name in params or len(sts) != 1:
                    continue
                st = sts[0]
                par = getattr(st, "_p", None)
                asg = self._assign_of(f, st)
                if asg is None or not _pure(asg.value):
                    continue
                # free names of the value must be stable: parameters / self / names stored at most once / loop targets
                free = {x.id for x in ast.walk(asg.value) if isinstance(x, ast.Name)}
                if name in free:
                    continue
                uses = [x for x in ast.walk(f.node) if isinstance(x, ast.Name) and x.id == name and isinstance(x.ctx, ast.Load)]
                if not uses:
                    continue
                if any(len(stores.get(v, [])) > 1 for v in free):
                    # allowed for `t = x` whose single use is in the very next statement of the same block, or when no
                    # store of a free name can execute after the definition
                    adjacent = isinstance(asg.value, ast.Name) and len(uses) == 1 and self._next_stmt_uses(f.node, asg, uses[0])
                    if not adjacent:
                        try:
                            cfg0 = CFG(f.node)
                            later = any(cfg0.reachable(asg, cfg0.node_of(st2)) for v in free if len(stores.get(v, [])) > 1
                                        for st2 in stores[v])
                        except Exception:
                            later = True
                        if later:
                            continue
                if not self._only_read(f, name, creates=_creates(asg.value)):
                    continue
                # attribute / item reads of the value must not be overwritten after the definition (`saved = lib.setting;
                # lib.setting = new; ...; lib.setting = saved` - the local holds the OLD value)
                reads = {ast.unparse(x) for x in ast.walk(asg.value) if isinstance(x, (ast.Attribute, ast.Subscript))}
                forwarded = {}      # id(use) -> expression that holds the value there (the location the local was stored to)
                if reads:
                    clobber = []
                    for n2 in ast.walk(f.node):
                        if isinstance(n2, (ast.Assign, ast.AugAssign, ast.AnnAssign, ast.Delete)):
                            tg2 = n2.targets if isinstance(n2, (ast.Assign, ast.Delete)) else [n2.target]
                            for t2 in tg2:
                                for x2 in ast.walk(t2):
                                    if isinstance(x2, (ast.Attribute, ast.Subscript)) and isinstance(x2.ctx, (ast.Store, ast.Del)):
                                        tx = ast.unparse(x2)
                                        if any(r == tx or r.startswith(tx + ".") or r.startswith(tx + "[") for r in reads):
                                            clobber.append(n2)
                    if clobber:
                        try:
                            cfg1 = CFG(f.node)
                            clobber = [c2 for c2 in clobber if cfg1.reachable(asg, c2)]
                            # a use is dirty when a clobbering store can execute between the definition and it
                            dirty = {}
                            for u in uses:
                                un = cfg1.node_of(u)
                                for c2 in clobber:
                                    if cfg1.reachable(c2, un, avoid=[asg]) if un is not c2 else cfg1.reachable(c2, c2, avoid=[asg]):
                                        dirty.setdefault(id(u), []).append(c2)
                            if dirty:
                                # `t = f(X); X = t; ... t ...`: after the store the location X holds the value - later uses
                                # read X (this undoes "introduce a local for the value stored"), nothing else qualifies
                                c2s = {id(c) for cs in dirty.values() for c in cs}
                                c2 = clobber[[id(c) for c in clobber].index(next(iter(c2s)))] if len(c2s) == 1 else None
                                ok2 = (c2 is not None and len(clobber) == 1 and isinstance(c2, ast.Assign) and len(c2.targets) == 1
                                       and isinstance(c2.value, ast.Name) and c2.value.id == name
                                       and ast.unparse(c2.targets[0]) in reads
                                       and all(cfg1.dominates(c2, u) and cfg1.node_of(u) is not c2 for u in uses if id(u) in dirty))
                                if not ok2:
                                    continue
                                for u in uses:
                                    if id(u) in dirty:
                                        forwarded[id(u)] = c2.targets[0]
                        except Exception:
                            continue
                try:
                    cfg = CFG(f.node)
                    if not all(cfg.dominates(asg, u) and cfg.node_of(u) is not asg for u in uses):
                        continue
                except Exception:
                    continue
                cand = (name, asg, uses, forwarded)
                break
            if cand is None:
                return
            name, asg, uses, forwarded = cand
            for u in uses:
                src = forwarded.get(id(u))
                if src is not None:
                    src = _clone(src)
                    for x in ast.walk(src):
                        if hasattr(x, "ctx"):
                            x.ctx = ast.Load()
                _replace_node(f.node, u, ast.copy_location(src if src is not None else _clone(asg.value), u))
            self._remove_stmt(f.node, asg)
            self.temps.append((f.qname, name))

    @staticmethod
    def _next_stmt_uses(root, asg, use):
        for n in ast.walk(root):
            for fld in ("body", "orelse", "finalbody"):
                b = getattr(n, fld, None)
                if isinstance(b, list) and asg in b:
                    i = b.index(asg)
                    if i + 1 < len(b) and not isinstance(b[i + 1], (ast.For, ast.While, ast.If, ast.With, ast.Try)):
                        return any(x is use for x in ast.walk(b[i + 1]))
        return False

    @staticmethod
    def _assign_of(f, store_name):
        for n in ast.walk(f.node):
            if isinstance(n, ast.Assign) and len(n.targets) == 1 and n.targets[0] is store_name:
                return n
        return None

    @staticmethod
    def _only_read(f, name, creates):
        for n in ast.walk(f.node):
            if isinstance(n, ast.Call) and isinstance(n.func, ast.Attribute) and isinstance(n.func.value, ast.Name) \
                    and n.func.value.id == name and n.func.attr in MUTATING:
                return False
            if isinstance(n, (ast.Assign, ast.AugAssign, ast.Delete)):
                tg = n.targets if isinstance(n, (ast.Assign, ast.Delete)) else [n.target]
                for t in tg:
                    for x in ast.walk(t):
                        if isinstance(x, (ast.Subscript, ast.Attribute)) and isinstance(x.ctx, (ast.Store, ast.Del)):
                            b = x.value
                            while isinstance(b, (ast.Subscript, ast.Attribute)):
                                b = b.value
                            if isinstance(b, ast.Name) and b.id == name:
                                return False
                if isinstance(n, ast.AugAssign) and isinstance(n.target, ast.Name) and n.target.id == name:
                    return False
            if creates:
                # a freshly created container must not escape (argument of a non-pure call, returned, stored)
                if isinstance(n, ast.Call):
                    pure = (isinstance(n.func, ast.Name) and n.func.id in PURE_CALLS) or (
                        isinstance(n.func, ast.Attribute) and n.func.attr in PURE_METHODS)
                    # `**name` copies the mapping: not an escape
                    if not pure and any(isinstance(a, ast.Name) and a.id == name
                                        for a in list(n.args) + [k.value for k in n.keywords if k.arg is not None]):
                        return False
                if isinstance(n, (ast.Return, ast.Yield)) and n.value is not None and any(
                        isinstance(x, ast.Name) and x.id == name for x in ast.walk(n.value)):
                    return False
                if isinstance(n, ast.Assign) and isinstance(n.value, ast.Name) and n.value.id == name:
                    return False
        return True

    @staticmethod
    def _remove_stmt(root, stmt):
        for n in ast.walk(root):
            for fld in ("body", "orelse", "finalbody"):
                b = getattr(n, fld, None)
                if isinstance(b, list) and stmt in b:
                    b.remove(stmt)
                    if not b and fld == "body":
                        b.append(ast.copy_location(ast.Pass(), stmt))
                    return

    def _inline_constants(self, f):
        inl = self

        class C(ast.NodeTransformer):
            def visit_Name(self, n):
                v = inl._const_of(f, n)
                if v is not None and not any(a.arg == n.id for a in f.node.args.args):
                    locs = {x.id for x in ast.walk(f.node) if isinstance(x, ast.Name) and isinstance(x.ctx, ast.Store)}
                    if n.id not in locs:
                        return ast.copy_location(_clone(v), n)
                return n

            def visit_Attribute(self, n):
                v = inl._const_of(f, n)
                if v is not None:
                    return ast.copy_location(_clone(v), n)
                self.generic_visit(n)
                return n

        f.node.body = [C().visit(s) for s in f.node.body]

    def _expand_function(self, f):
        changed = False
        caller_locals = {n.id for n in ast.walk(f.node) if isinstance(n, ast.Name)}

        def expand_block(stmts):
            nonlocal changed
            out = []
            for s in stmts:
                # recurse into compound statements first
                for fld in ("body", "orelse", "finalbody"):
                    b = getattr(s, fld, None)
                    if isinstance(b, list) and b and isinstance(b[0], ast.stmt):
                        setattr(s, fld, expand_block(b))
                if isinstance(s, ast.Try):
                    for h in s.handlers:
                        h.body = expand_block(h.body)
                new = self._expand_stmt(f, s)
                if new is not None:
                    changed = True
                    out.extend(new)
                else:
                    out.append(s)
            return out

        f.node.body = expand_block(f.node.body)
        return changed

    def _names(self, f):
        """Names the caller used before anything was expanded into it."""
        self._orig_names = getattr(self, "_orig_names", {})
        if f.qname not in self._orig_names:
            self._orig_names[f.qname] = frozenset(n.id for n in ast.walk(f.node) if isinstance(n, ast.Name)) | frozenset(
                a.arg for a in ast.walk(f.node) if isinstance(a, ast.arg))
        return self._orig_names[f.qname]

    def _fresh(self):
        self.counter += 1
        return self.counter

    def _expand_stmt(self, f, s):
        """Statements replacing `s`, or None when nothing was expanded."""
        # 1. expression helpers anywhere in the statement's own expressions
        did = False
        inl = self

        class E(ast.NodeTransformer):
            def visit_Call(self, n):
                self.generic_visit(n)
                h, recv = inl._callee(f, n)
                if h is None or h.expr is None or h.qname == f.qname:
                    return n
                try:
                    _, mapping, rename = _bind(h, n, recv, inl._fresh(), inl._names(f))
                except NotInlinable:
                    return n
                nonlocal did
                did = True
                inl.expanded.append((f.qname, h.qname))
                e = _Subst(mapping, rename).visit(_clone(h.expr))
                return ast.copy_location(e, n)

            def visit_FunctionDef(self, n):
                return n

            visit_Lambda = visit_FunctionDef

        def own_exprs(st):
            """(field, value) pairs of the statement's own expressions (not its nested blocks)."""
            for fld, v in ast.iter_fields(st):
                if fld in ("body", "orelse", "finalbody", "handlers"):
                    continue
                yield fld, v

        for fld, v in list(own_exprs(s)):
            if isinstance(v, ast.AST):
                setattr(s, fld, E().visit(v))
            elif isinstance(v, list):
                setattr(s, fld, [E().visit(x) if isinstance(x, ast.AST) else x for x in v])
        # 2. statement helpers: T = h(...) / return h(...) / h(...)
        call, kind, targets = None, None, None
        if isinstance(s, ast.Assign) and isinstance(s.value, ast.Call):
            call, kind, targets = s.value, "assign", s.targets
        elif isinstance(s, ast.Return) and isinstance(s.value, ast.Call):
            call, kind = s.value, "return"
        elif isinstance(s, ast.Expr) and isinstance(s.value, ast.Call):
            call, kind = s.value, "expr"
        if call is not None:
            h, recv = self._callee(f, call)
            if h is not None and h.expr is None and h.qname != f.qname and not h.loop_return:
                try:
                    keep = frozenset(x.id for t in (targets or []) for x in ([t] if isinstance(t, ast.Name) else (
                        t.elts if isinstance(t, (ast.Tuple, ast.List)) else [])) if isinstance(x, ast.Name))
                    pre, mapping, rename = _bind(h, call, recv, self._fresh(), self._names(f), keep)
                    body = [_Subst(mapping, rename).visit(_clone(x)) for x in h.body]
                    if kind == "return":
                        new = body
                        if not _always_returns(body):
                            new = body + [ast.Return(value=ast.Constant(value=None))]
                    else:
                        new, _ = _conv(body, kind, targets)
                    new = pre + new
                    for n in new:
                        for x in ast.walk(n):
                            ast.copy_location(x, s)
                    self.expanded.append((f.qname, h.qname))
                    return new or [ast.Pass()]
                except NotInlinable as e:
                    self.rejected[h.qname] = str(e)
        # 3. statement helpers nested inside a simple statement: hoisted into a fresh local first
        if isinstance(s, (ast.Assign, ast.Expr, ast.Return, ast.AugAssign, ast.AnnAssign)):
            hit = self._nested_helper_call(f, s)
            if hit is not None:
                c, h, recv = hit
                tmp = "%s__ret%d" % (h.node.name.strip("_"), self._fresh())
                try:
                    pre, mapping, rename = _bind(h, c, recv, self._fresh(), self._names(f))
                    body = [_Subst(mapping, rename).visit(_clone(x)) for x in h.body]
                    new, _ = _conv(body, "assign", [ast.Name(id=tmp, ctx=ast.Store())])
                    new = pre + new
                    for n in new:
                        for x in ast.walk(n):
                            ast.copy_location(x, s)
                    _replace_node(s, c, ast.copy_location(ast.Name(id=tmp, ctx=ast.Load()), c))
                    self.expanded.append((f.qname, h.qname))
                    self.hoisted = getattr(self, "hoisted", set()) | {(f.qname, tmp)}
                    return new + [s]
                except NotInlinable as e:
                    self.rejected[h.qname] = str(e)
        return [s] if did else None

    def _nested_helper_call(self, f, s):
        """A call to a multi-statement helper that is evaluated unconditionally as part of simple statement `s`."""
        def walk(n, cond):
            for ch in ast.iter_child_nodes(n):
                if isinstance(ch, (ast.Lambda, ast.ListComp, ast.SetComp, ast.DictComp, ast.GeneratorExp)):
                    continue
                # (the first operand of and/or and the test of a conditional expression are always evaluated)
                c2 = cond or (isinstance(n, ast.BoolOp) and ch is not n.values[0]) or (isinstance(n, ast.IfExp) and ch is not n.test)
                if isinstance(ch, ast.Call) and not c2:
                    h, recv = self._callee(f, ch)
                    if h is not None and h.expr is None and h.qname != f.qname and not h.loop_return:
                        return ch, h, recv
                r = walk(ch, c2)
                if r is not None:
                    return r
            return None
        return walk(s, False)
