"""E14: undoing pure renames of locals.

The rules refer to some locals of the anchored functions by name (spec/known_symbols.json). Renaming a local is the most
common behaviour-preserving edit there is, and it must not turn a check into "re-anchor me". For every function of the
package spec/function_shapes.json records (generated deliberately, like known_symbols.json) the names of its locals in
order of first occurrence and a digest of the function's canonical text with those locals replaced by positional
placeholders. When a function of the analysed tree has the same placeholder digest but other local names - i.e. it is
alpha-equivalent to the recorded one - its locals are renamed back to the recorded names before anything else looks at it.
Any other difference changes the digest and nothing is renamed: the digest is never a rule, only an aid."""
import ast
import hashlib
import json
from pathlib import Path

SPEC = Path(__file__).resolve().parents[2] / "spec" / "function_shapes.json"


def _params(fn):
    a = fn.args
    out = {x.arg for x in a.posonlyargs + a.args + a.kwonlyargs}
    if a.vararg:
        out.add(a.vararg.arg)
    if a.kwarg:
        out.add(a.kwarg.arg)
    return out


def local_names(fn):
    """Locals of fn in order of first occurrence (depth-first, source order): every name stored in the function (also
    comprehension / loop targets, `as` names), minus parameters and global/nonlocal names."""
    skip = set(_params(fn))
    for n in ast.walk(fn):
        if isinstance(n, (ast.Global, ast.Nonlocal)):
            skip.update(n.names)
    stored = set()
    for n in ast.walk(fn):
        if n is not fn and isinstance(n, (ast.FunctionDef, ast.AsyncFunctionDef, ast.ClassDef)):
            stored.add(n.name)
        if isinstance(n, ast.Name) and isinstance(n.ctx, (ast.Store, ast.Del)):
            stored.add(n.id)
        if isinstance(n, ast.ExceptHandler) and n.name:
            stored.add(n.name)
        if isinstance(n, ast.arg) and n is not None:
            pass
    # parameters of nested lambdas / defs are locals of those, leave them alone
    for n in ast.walk(fn):
        if n is not fn and isinstance(n, (ast.Lambda, ast.FunctionDef, ast.AsyncFunctionDef)):
            skip.update(_params(n))
    stored -= skip
    order = []

    class V(ast.NodeVisitor):
        def visit_Name(self, n):
            if n.id in stored and n.id not in order:
                order.append(n.id)

        def visit_ExceptHandler(self, n):
            if n.name and n.name in stored and n.name not in order:
                order.append(n.name)
            self.generic_visit(n)

        def visit_FunctionDef(self, n):
            if n is not fn and n.name in stored and n.name not in order:
                order.append(n.name)
            self.generic_visit(n)
    V().visit(fn)
    return order


class _Rename(ast.NodeTransformer):
    def __init__(self, mapping):
        self.m = mapping

    def visit_Name(self, n):
        if n.id in self.m:
            n.id = self.m[n.id]
        return n

    def visit_ExceptHandler(self, n):
        if n.name in self.m:
            n.name = self.m[n.name]
        self.generic_visit(n)
        return n

    def visit_FunctionDef(self, n):
        if n.name in self.m and getattr(self, "_root", None) is not n:
            n.name = self.m[n.name]
        self.generic_visit(n)
        return n


def shape(fn):
    """(digest of the placeholder text, locals in order)"""
    order = local_names(fn)
    fwd = {nm: "_v%d" % i for i, nm in enumerate(order)}
    back = {v: k for k, v in fwd.items()}
    # (renamed in place and renamed back: a deep copy would follow the parent links through the whole module)
    r = _Rename(fwd)
    r._root = fn
    r.visit(fn)
    name, doc = fn.name, None
    fn.name = "_f"
    if fn.body and isinstance(fn.body[0], ast.Expr) and isinstance(fn.body[0].value, ast.Constant) and isinstance(fn.body[0].value.value, str) \
            and len(fn.body) > 1:
        doc = fn.body.pop(0)
    decos, fn.decorator_list = fn.decorator_list, []
    try:
        text = ast.unparse(fn)
    finally:
        fn.decorator_list = decos
        if doc is not None:
            fn.body.insert(0, doc)
        fn.name = name
        r2 = _Rename(back)
        r2._root = fn
        r2.visit(fn)
    return hashlib.sha1(text.encode()).hexdigest(), order


def load():
    try:
        return json.loads(SPEC.read_text())
    except Exception:
        return {}


def undo_renames(repo):
    """Rename alpha-equivalent functions' locals back to the recorded names. Returns [(qname, {new: old})]."""
    rec = load()
    done = []
    for q, f in repo.funcs.items():
        r = rec.get(q)
        if not r:
            continue
        h, order = shape(f.node)
        if h == r["digest"] and order != r["locals"] and len(order) == len(r["locals"]) and len(set(r["locals"])) == len(r["locals"]):
            m = {a: b for a, b in zip(order, r["locals"]) if a != b}
            # two-step rename so that swaps (a->b, b->a) work
            tmp = {a: "__r%d__" % i for i, a in enumerate(m)}
            t1 = _Rename(tmp)
            t1._root = f.node
            t1.visit(f.node)
            t2 = _Rename({tmp[a]: m[a] for a in m})
            t2._root = f.node
            t2.visit(f.node)
            done.append((q, m))
    return done
