"""E14: undoing pure renames of locals.

The rules refer to some locals of the anchored functions by name (spec/known_symbols.json). Renaming a local is the most
common behaviour-preserving edit there is, and it must not turn a check into "re-anchor me". For every function of the
package spec/function_shapes.json records (generated deliberately, like known_symbols.json) the names of its locals in
order of first occurrence and a digest of the function's canonical text with those locals replaced by positional
placeholders. When a function of the analysed tree has the same placeholder digest but other local names - i.e. it is
alpha-equivalent to the recorded one - its locals are renamed back to the recorded names before anything else looks at it.
Any other difference changes the digest; then (E14b) a recorded local that is no longer bound is matched with a new local
that is bound from exactly the same expressions (all locals written `_`), if that match is unique both ways. A consistent
renaming of a local never changes behaviour, whatever the match: the digest and the signatures are never rules, only aids
that let the rules keep referring to locals by their recorded names."""
import ast
import hashlib
import json
from pathlib import Path

SPEC = Path(__file__).resolve().parents[2] / "spec" / "function_shapes.json"


def _params(fn):
    a = fn.args
    out = {x.arg for x in a.posonlyargs + a.args + a.kwonlyargs}
    if a.vararg:
        out.add(a.vararg.arg)
    if a.kwarg:
        out.add(a.kwarg.arg)
    return out


def local_names(fn):
    """Locals of fn in order of first occurrence (depth-first, source order): every name stored in the function (also
    comprehension / loop targets, `as` names), minus parameters and global/nonlocal names."""
    skip = set(_params(fn))
    for n in ast.walk(fn):
        if isinstance(n, (ast.Global, ast.Nonlocal)):
            skip.update(n.names)
    stored = set()
    for n in ast.walk(fn):
        if n is not fn and isinstance(n, (ast.FunctionDef, ast.AsyncFunctionDef, ast.ClassDef)):
            stored.add(n.name)
        if isinstance(n, ast.Name) and isinstance(n.ctx, (ast.Store, ast.Del)):
            stored.add(n.id)
        if isinstance(n, ast.ExceptHandler) and n.name:
            stored.add(n.name)
        if isinstance(n, ast.arg) and n is not None:
            pass
    # parameters of nested lambdas / defs are locals of those, leave them alone
    for n in ast.walk(fn):
        if n is not fn and isinstance(n, (ast.Lambda, ast.FunctionDef, ast.AsyncFunctionDef)):
            skip.update(_params(n))
    stored -= skip
    order = []

    class V(ast.NodeVisitor):
        def visit_Name(self, n):
            if n.id in stored and n.id not in order:
                order.append(n.id)

        def visit_ExceptHandler(self, n):
            if n.name and n.name in stored and n.name not in order:
                order.append(n.name)
            self.generic_visit(n)

        def visit_FunctionDef(self, n):
            if n is not fn and n.name in stored and n.name not in order:
                order.append(n.name)
            self.generic_visit(n)
    V().visit(fn)
    return order


class _Rename(ast.NodeTransformer):
    def __init__(self, mapping):
        self.m = mapping

    def visit_Name(self, n):
        if n.id in self.m:
            n.id = self.m[n.id]
        return n

    def visit_ExceptHandler(self, n):
        if n.name in self.m:
            n.name = self.m[n.name]
        self.generic_visit(n)
        return n

    def visit_FunctionDef(self, n):
        if n.name in self.m and getattr(self, "_root", None) is not n:
            n.name = self.m[n.name]
        self.generic_visit(n)
        return n


def shape(fn):
    """(digest of the placeholder text, locals in order)"""
    order = local_names(fn)
    fwd = {nm: "_v%d" % i for i, nm in enumerate(order)}
    back = {v: k for k, v in fwd.items()}
    # (renamed in place and renamed back: a deep copy would follow the parent links through the whole module)
    r = _Rename(fwd)
    r._root = fn
    r.visit(fn)
    name, doc = fn.name, None
    fn.name = "_f"
    if fn.body and isinstance(fn.body[0], ast.Expr) and isinstance(fn.body[0].value, ast.Constant) and isinstance(fn.body[0].value.value, str) \
            and len(fn.body) > 1:
        doc = fn.body.pop(0)
    decos, fn.decorator_list = fn.decorator_list, []
    try:
        text = ast.unparse(fn)
    finally:
        fn.decorator_list = decos
        if doc is not None:
            fn.body.insert(0, doc)
        fn.name = name
        r2 = _Rename(back)
        r2._root = fn
        r2.visit(fn)
    return hashlib.sha1(text.encode()).hexdigest(), order


def signatures(fn):
    """{local: sorted binding signatures}: the canonical text of every expression the local is bound from (assignment value,
    loop iterable, context manager, augmented operand) with all locals of the function written `_`."""
    order = local_names(fn)
    loc = set(order)

    class Anon(ast.NodeTransformer):
        def visit_Name(self, n):
            return ast.copy_location(ast.Name(id="_", ctx=n.ctx), n) if n.id in loc else n

    def text(e):
        import copy as _copy
        try:
            e2 = _copy.copy(e)
        except Exception:
            e2 = e
        # (a shallow structural copy: rebuild the expression without touching parent links)
        def clone(x):
            if isinstance(x, list):
                return [clone(y) for y in x]
            if not isinstance(x, ast.AST):
                return x
            new = type(x)()
            for f_ in x._fields:
                if hasattr(x, f_):
                    setattr(new, f_, clone(getattr(x, f_)))
            return new
        return ast.unparse(Anon().visit(clone(e)))[:200]

    def targets(t):
        if isinstance(t, ast.Name):
            return [t.id]
        if isinstance(t, (ast.Tuple, ast.List)):
            return [x for e in t.elts for x in targets(e)]
        if isinstance(t, ast.Starred):
            return targets(t.value)
        return []

    sigs = {}
    for n in ast.walk(fn):
        if isinstance(n, ast.Assign):
            for t in n.targets:
                names = targets(t)
                for i, nm in enumerate(names):
                    kind = "assign" if isinstance(t, ast.Name) else "unpack%d/%d" % (i, len(names))
                    sigs.setdefault(nm, set()).add("%s:%s" % (kind, text(n.value)))
        elif isinstance(n, ast.AugAssign) and isinstance(n.target, ast.Name):
            sigs.setdefault(n.target.id, set()).add("aug%s:%s" % (type(n.op).__name__, text(n.value)))
        elif isinstance(n, (ast.For, ast.comprehension)):
            names = targets(n.target)
            for i, nm in enumerate(names):
                sigs.setdefault(nm, set()).add("for%d/%d:%s" % (i, len(names), text(n.iter)))
        elif isinstance(n, ast.With):
            for it in n.items:
                if it.optional_vars is not None:
                    for nm in targets(it.optional_vars):
                        sigs.setdefault(nm, set()).add("with:%s" % text(it.context_expr))
        elif isinstance(n, ast.ExceptHandler) and n.name:
            sigs.setdefault(n.name, set()).add("except:%s" % (text(n.type) if n.type is not None else ""))
    return {k: sorted(v) for k, v in sigs.items() if k in loc}


def load():
    try:
        return json.loads(SPEC.read_text())
    except Exception:
        return {}


def undo_renames(repo):
    """Rename alpha-equivalent functions' locals back to the recorded names. Returns [(qname, {new: old})]."""
    rec = load()
    done = []
    for q, f in repo.funcs.items():
        r = rec.get(q)
        if not r:
            continue
        h, order = shape(f.node)
        if h == r["digest"] and order != r["locals"] and len(order) == len(r["locals"]) and len(set(r["locals"])) == len(r["locals"]):
            m = {a: b for a, b in zip(order, r["locals"]) if a != b}
            # two-step rename so that swaps (a->b, b->a) work
            tmp = {a: "__r%d__" % i for i, a in enumerate(m)}
            t1 = _Rename(tmp)
            t1._root = f.node
            t1.visit(f.node)
            t2 = _Rename({tmp[a]: m[a] for a in m})
            t2._root = f.node
            t2.visit(f.node)
            done.append((q, m))
            continue
        if h == r["digest"] or "sigs" not in r:
            continue
        # E14b: the function was edited AND some locals were renamed. A recorded local that is no longer bound is matched
        # with a new local that is bound from exactly the same expressions (locals anonymised); the match must be unique
        # in both directions, and the recorded name must not be in use for anything else in the function.
        cur = signatures(f.node)
        ref = r["sigs"]
        used = {n.id for n in ast.walk(f.node) if isinstance(n, ast.Name)} | _params(f.node)
        missing = [k for k in r["locals"] if k not in cur and k not in used and k in ref]
        extra = [k for k in cur if k not in r["locals"]]
        m = {}
        for k in missing:
            cands = [e for e in extra if cur[e] == ref[k]]
            rivals = [k2 for k2 in missing if ref[k2] == ref[k]]
            if len(cands) == 1 and len(rivals) == 1:
                m[cands[0]] = k
        if m:
            t2 = _Rename(m)
            t2._root = f.node
            t2.visit(f.node)
            done.append((q, m))
        # a recorded local that only named a numeric constant (`INC = 0.01`) and is gone because the constant now lives
        # elsewhere (module / class constant, written in place): the name is bound again, to the same value
        used = {n.id for n in ast.walk(f.node) if isinstance(n, ast.Name)} | _params(f.node)
        for k in r["locals"]:
            sg = ref.get(k, [])
            if k in used or len(sg) != 1 or not sg[0].startswith("assign:"):
                continue
            try:
                val = ast.literal_eval(sg[0][len("assign:"):])
            except Exception:
                continue
            if not isinstance(val, (int, float)) or isinstance(val, bool) or val in (0, 1, -1, 2):
                continue
            hits = [n for n in ast.walk(f.node) if isinstance(n, ast.Constant) and type(n.value) is type(val) and n.value == val]
            if not hits:
                continue

            class _Bind(ast.NodeTransformer):
                def visit_Constant(self, n):
                    if type(n.value) is type(val) and n.value == val:
                        return ast.copy_location(ast.Name(id=k, ctx=ast.Load()), n)
                    return n
            body0 = f.node.body
            i0 = 1 if body0 and isinstance(body0[0], ast.Expr) and isinstance(body0[0].value, ast.Constant) and isinstance(body0[0].value.value, str) else 0
            f.node.body = body0[:i0] + [_Bind().visit(st) for st in body0[i0:]]
            asg = ast.Assign(targets=[ast.Name(id=k, ctx=ast.Store())], value=ast.Constant(value=val))
            ast.copy_location(asg, f.node.body[i0] if len(f.node.body) > i0 else f.node)
            ast.fix_missing_locations(asg)
            f.node.body.insert(i0, asg)
            done.append((q, {repr(val): k}))
    return done
