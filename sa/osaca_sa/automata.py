"""E10 (part 2): regular envelope of a pyparsing grammar and language inclusion of a specification.

The grammar IR (ppgrammar.G) is compiled to an NFA over characters that OVER-approximates what
pyparsing accepts: ordered choice and longest choice become union, possessive repetition becomes
Kleene star, whitespace (" \\t\\r\\n") may be skipped before every terminal outside Combine, and
parseAll allows trailing whitespace. Hence  L(pyparsing grammar) is a subset of L(NFA), and a
specification string that the NFA rejects is certainly rejected by the real parser (no false
alarm); an accepted specification language is evidence, not proof.

The specification language (the property's quantifier: rendered instruction lines etc.) is built
with the same IR node kinds but with explicit whitespace, compiled without automatic skipping, and
inclusion L(spec) <= L(envelope) is decided by an on-the-fly product of the spec NFA with the
subset construction of the envelope; a failure yields a shortest witness line.
"""
import string
from collections import deque

from .ppgrammar import G, names_tree
from .srcmodel import AnalysisError

WS = " \t\r\n"
ALPHABET = frozenset(string.printable) - frozenset("\x0b\x0c")


class NFA:
    def __init__(self):
        self.eps = []
        self.trans = []  # per state: list of (frozenset chars, target)
        self.accept = set()

    def new(self):
        self.eps.append([])
        self.trans.append([])
        return len(self.eps) - 1

    def e(self, a, b):
        self.eps[a].append(b)

    def t(self, a, chars, b):
        self.trans[a].append((frozenset(chars), b))

    def closure(self, states):
        out = set(states)
        work = list(states)
        while work:
            s = work.pop()
            for t in self.eps[s]:
                if t not in out:
                    out.add(t)
                    work.append(t)
        return frozenset(out)

    def step(self, S, ch):
        nxt = set()
        for s in S:
            for chars, t in self.trans[s]:
                if ch in chars:
                    nxt.add(t)
        return self.closure(nxt)

    def accepts(self, text, start):
        S = self.closure([start])
        for ch in text:
            S = self.step(S, ch)
            if not S:
                return False
        return bool(S & self.accept)


def _regex_to_g(pattern):
    """Small subset of Python regex -> IR (literals, classes, groups, ?, *, +, |)."""
    import re._parser as sp
    import re._constants as sc

    def conv(items):
        out = []
        for op, av in items:
            if op is sc.LITERAL:
                out.append(G("cset", chars=chr(av)))
            elif op is sc.IN:
                chars = set()
                neg = False
                for o2, a2 in av:
                    if o2 is sc.NEGATE:
                        neg = True
                    elif o2 is sc.LITERAL:
                        chars.add(chr(a2))
                    elif o2 is sc.RANGE:
                        chars |= {chr(c) for c in range(a2[0], a2[1] + 1)}
                    elif o2 is sc.CATEGORY:
                        if a2 is sc.CATEGORY_DIGIT:
                            chars |= set(string.digits)
                        elif a2 is sc.CATEGORY_WORD:
                            chars |= set(string.ascii_letters + string.digits + "_")
                        elif a2 is sc.CATEGORY_SPACE:
                            chars |= set(WS)
                        else:
                            raise AnalysisError("regex category not modelled")
                if neg:
                    chars = set(ALPHABET) - chars
                out.append(G("cset", chars="".join(sorted(chars))))
            elif op is sc.ANY:
                out.append(G("cset", chars="".join(sorted(ALPHABET - {"\n"}))))
            elif op is sc.SUBPATTERN:
                out.append(conv(av[3]))
            elif op is sc.BRANCH:
                out.append(G("alt", [conv(b) for b in av[1]]))
            elif op in (sc.MAX_REPEAT, sc.MIN_REPEAT):
                lo, hi, sub = av
                g = conv(sub)
                parts = [g] * lo
                if hi == sc.MAXREPEAT:
                    parts.append(G("rep0", [g]))
                else:
                    for _ in range(hi - lo):
                        parts.append(G("opt", [g]))
                out.append(G("seq", parts))
            else:
                raise AnalysisError("regex construct %s not modelled" % op)
        return G("seq", out)

    return conv(sp.parse(pattern))


def build(g, nfa, skip_ws, in_combine=False):
    """Compile IR node g; returns (start, end)."""
    s, e = nfa.new(), nfa.new()

    def ws_loop(state):
        if skip_ws and not in_combine:
            nfa.t(state, WS, state)

    k = g.kind
    if k in ("lit", "clit"):
        text = g.a["text"]
        ws_loop(s)
        cur = s
        for i, ch in enumerate(text):
            nxt = nfa.new() if i < len(text) - 1 else e
            chars = {ch.lower(), ch.upper()} if k == "clit" else {ch}
            nfa.t(cur, chars, nxt)
            cur = nxt
        if not text:
            nfa.e(s, e)
    elif k == "cset":
        ws_loop(s)
        nfa.t(s, g.a["chars"], e)
    elif k == "word":
        ws_loop(s)
        init = g.a["chars"]
        body = g.a.get("body") or init
        exact = g.a.get("exact") or 0
        mx = g.a.get("max") or 0
        mn = g.a.get("min") or 1
        if exact:
            cur = s
            for i in range(exact):
                nxt = nfa.new() if i < exact - 1 else e
                nfa.t(cur, init if i == 0 else body, nxt)
                cur = nxt
        else:
            cur = s
            n_fixed = max(mn, 1)
            for i in range(n_fixed):
                nxt = nfa.new()
                nfa.t(cur, init if i == 0 else body, nxt)
                cur = nxt
            if mx:
                for i in range(mx - n_fixed):
                    nxt = nfa.new()
                    nfa.t(cur, body, nxt)
                    nfa.e(cur, e)
                    cur = nxt
                nfa.e(cur, e)
            else:
                nfa.t(cur, body, cur)
                nfa.e(cur, e)
    elif k == "regex":
        ws_loop(s)
        a, b = build(_regex_to_g(g.a["pattern"]), nfa, False, True)
        nfa.e(s, a)
        nfa.e(b, e)
    elif k == "quoted":
        ws_loop(s)
        for q in "\"'":
            m = nfa.new()
            nfa.t(s, q, m)
            nfa.t(m, ALPHABET - {q, "\n"}, m)
            nfa.t(m, q, e)
    elif k == "seq":
        cur = s
        for kid in g.kids:
            a, b = build(kid, nfa, skip_ws, in_combine)
            nfa.e(cur, a)
            cur = b
        nfa.e(cur, e)
    elif k == "alt":
        for kid in g.kids:
            a, b = build(kid, nfa, skip_ws, in_combine)
            nfa.e(s, a)
            nfa.e(b, e)
    elif k == "opt":
        a, b = build(g.kids[0], nfa, skip_ws, in_combine)
        nfa.e(s, a)
        nfa.e(b, e)
        nfa.e(s, e)
    elif k in ("rep0", "rep1"):
        a, b = build(g.kids[0], nfa, skip_ws, in_combine)
        nfa.e(s, a)
        nfa.e(b, a)
        nfa.e(b, e)
        if k == "rep0":
            nfa.e(s, e)
    elif k in ("group", "suppress"):
        a, b = build(g.kids[0], nfa, skip_ws, in_combine)
        nfa.e(s, a)
        nfa.e(b, e)
    elif k == "combine":
        ws_loop(s)
        a, b = build(g.kids[0], nfa, skip_ws, True if g.a.get("adjacent", True) else in_combine)
        nfa.e(s, a)
        nfa.e(b, e)
    elif k == "delim":
        a, b = build(g.kids[0], nfa, skip_ws, in_combine)
        d1, d2 = build(g.kids[1], nfa, skip_ws, in_combine)
        a2, b2 = build(g.kids[0], nfa, skip_ws, in_combine)
        nfa.e(s, a)
        nfa.e(b, e)
        nfa.e(b, d1)
        nfa.e(d2, a2)
        nfa.e(b2, d1)
        nfa.e(b2, e)
    else:
        raise AnalysisError("IR node kind %r cannot be compiled" % k)
    return s, e


def envelope(g):
    """NFA of a top-level grammar expression used with parseString(..., parseAll=True)."""
    nfa = NFA()
    s, e = build(g, nfa, True)
    nfa.t(e, WS, e)
    nfa.accept.add(e)
    return nfa, s


def spec_nfa(g):
    nfa = NFA()
    s, e = build(g, nfa, False)
    nfa.accept.add(e)
    return nfa, s


def inclusion(spec, env, limit=400000):
    """Is L(spec) <= L(env)?  Returns (True, stats) or (False, witness string, stats)."""
    snfa, s0 = spec
    enfa, e0 = env
    start = (snfa.closure([s0]), enfa.closure([e0]))
    seen = {start: None}
    q = deque([start])
    explored = 0
    while q:
        cur = q.popleft()
        P, S = cur
        explored += 1
        if explored > limit:
            raise AnalysisError("inclusion check exceeded %d product states" % limit)
        if P & snfa.accept and not (S & enfa.accept):
            # reconstruct
            out = []
            c = cur
            while seen[c] is not None:
                c, ch = seen[c]
                out.append(ch)
            return False, "".join(reversed(out)), {"product_states": explored}
        # group spec moves per character
        chars = set()
        for p in P:
            for cs, t in snfa.trans[p]:
                chars |= cs
        # characters with identical behaviour on both sides can share a successor; cheap grouping by result
        succ = {}
        for ch in chars:
            P2 = snfa.step(P, ch)
            if not P2:
                continue
            S2 = enfa.step(S, ch) if S else frozenset()
            succ.setdefault((P2, S2), ch)
        for nxt, ch in succ.items():
            if nxt not in seen:
                seen[nxt] = (cur, ch)
                q.append(nxt)
    return True, {"product_states": explored}


# --------------------------------------------------------------------------------------- specification languages
def L(text):
    return G("lit", text=text)


def CS(chars):
    return G("cset", chars=chars)


def S(*kids):
    return G("seq", list(kids))


def A(*kids):
    return G("alt", list(kids))


def O(k):
    return G("opt", [k])


def R0(k):
    return G("rep0", [k])


def R1(k):
    return G("rep1", [k])


BL = R0(CS(" \t"))      # optional blanks
BL1 = R1(CS(" \t"))     # at least one blank
DIG = CS(string.digits)
HEX = CS(string.digits + "abcdefABCDEF")


def x86_line_spec():
    """Rendered AT&T instruction lines as in the property's quantifier: 0-4 operands; all GPR widths,
    xmm/ymm/zmm 0-31; decimal / hexadecimal / negative immediates; the 2^3 base/index/displacement shapes;
    scales 1/2/4/8; arbitrary blanks and tabs; trailing comment."""
    gpr = ["rax", "eax", "ax", "al", "ah", "rbx", "ebx", "bx", "bl", "bh", "rcx", "ecx", "cx", "cl", "ch", "rdx", "edx", "dx",
           "dl", "dh", "rsp", "esp", "sp", "spl", "rbp", "ebp", "bp", "bpl", "rsi", "esi", "si", "sil", "rdi", "edi", "di", "dil"]
    num = A(*[L(str(i)) for i in range(8, 16)])
    numbered = S(L("r"), num, O(CS("dwb")))
    vec = S(CS("xyz"), L("mm"), A(S(CS("12"), DIG), S(L("3"), CS("01")), DIG))
    regname = A(*([L(x) for x in gpr] + [numbered, vec]))
    reg = S(L("%"), regname)
    number = A(S(O(L("-")), R1(DIG)), S(O(L("-")), L("0x"), R1(HEX)))
    imm = S(L("$"), number)
    scale = CS("1248")
    inner = A(
        S(reg),                                                     # (base)
        S(reg, BL, L(","), BL, reg),                                # (base,index)
        S(reg, BL, L(","), BL, reg, BL, L(","), BL, scale),         # (base,index,scale)
        S(L(","), BL, reg, BL, L(","), BL, scale),                  # (,index,scale)
    )
    mem = A(S(O(number), L("("), BL, inner, BL, L(")")))
    operand = A(reg, imm, mem)
    mnem = R1(CS(string.ascii_lowercase + string.digits))
    ops = S(BL1, operand, R0(S(BL, L(","), BL, operand)))
    ops4 = S(BL1, operand, O(S(BL, L(","), BL, operand, O(S(BL, L(","), BL, operand, O(S(BL, L(","), BL, operand)))))))
    comment = S(BL, L("#"), R0(CS("".join(sorted(ALPHABET - set("\n\r"))))))
    return S(BL, mnem, O(ops4), O(comment), BL)


def x86_other_specs():
    ident = S(CS(string.ascii_letters + "_."), R0(CS(string.ascii_letters + string.digits + "_.$")))
    comment_tail = S(BL, L("#"), R0(CS("".join(sorted(ALPHABET - set("\n\r"))))))
    label = S(BL, ident, L(":"), O(comment_tail), BL)
    comment = S(BL, A(L("#"), L("//")), R0(CS("".join(sorted(ALPHABET - set("\n\r"))))))
    directive = S(BL, L("."), R1(CS(string.ascii_lowercase + "_")), O(S(BL1, R1(DIG), R0(S(BL, L(","), BL, R1(DIG))))), O(comment_tail), BL)
    return {"self.label": label, "self.comment": comment, "self.directive": directive}


def aarch64_line_spec():
    """Rendered AArch64 instruction lines: scalar / vector (lanes, shape, element index) / SVE / predicate
    registers, register lists and ranges, immediates with or without '#', decimal / hex / float, condition codes,
    memory references [base], [base, #imm], [base, index], [base, index, lsl #n], pre-index '!', post-index, sp base."""
    n31 = A(S(CS("12"), DIG), S(L("3"), CS("01")), DIG)
    scalar = S(CS("xwbhsdq"), n31)
    vshape = S(L("."), O(A(L("16"), L("8"), L("4"), L("2"), L("1"))), CS("bhsdq"))
    vector = S(CS("vz"), n31, O(vshape), O(S(L("["), DIG, L("]"))))
    pred = S(L("p"), A(S(L("1"), CS("012345")), DIG), O(A(S(L("/"), CS("zm")), S(L("."), CS("bhsd")))))
    sp = A(L("sp"), L("wsp"), L("xzr"), L("wzr"))
    reg = A(scalar, vector, pred, sp)
    lelem = A(S(CS("vz"), n31, O(vshape)), scalar)
    rlist = S(L("{"), BL, lelem, A(R0(S(BL, L(","), BL, lelem)), S(BL, L("-"), BL, lelem)), BL, L("}"), O(S(L("["), DIG, L("]"))))
    dec = S(O(L("-")), R1(DIG))
    hexn = S(O(L("-")), L("0x"), R1(HEX))
    flt = S(O(L("-")), R1(DIG), L("."), R1(DIG), O(S(CS("eE"), CS("+-"), R1(DIG))))
    imm = S(O(L("#")), A(dec, hexn, flt))
    cond = A(*[L(c) for c in ("eq", "ne", "cs", "hs", "cc", "lo", "mi", "pl", "vs", "vc", "hi", "ls", "ge", "lt", "gt", "le", "al",
                              "EQ", "NE", "GE", "LT")])
    base = A(S(L("x"), n31), L("sp"))
    index = A(S(CS("xw"), n31))
    shift = S(BL, L(","), BL, A(L("lsl"), L("sxtw"), L("uxtw")), BL1, S(L("#"), CS("01234")))
    mem = S(L("["), BL, base, O(A(S(BL, L(","), BL, S(L("#"), A(dec, hexn))), S(BL, L(","), BL, index, O(shift)))), BL, L("]"),
            O(A(L("!"), S(BL, L(","), BL, S(L("#"), dec)))))
    operand = A(reg, imm, cond, rlist)
    mnem = S(R1(CS(string.ascii_lowercase)), R0(CS(string.ascii_lowercase + string.digits)), O(S(L("."), R1(CS(string.ascii_lowercase)))))
    comment = S(BL, L("//"), R0(CS("".join(sorted(ALPHABET - set("\n\r"))))))
    rest = R0(S(BL, L(","), BL, operand))
    ops = A(S(BL1, operand, O(S(BL, L(","), BL, operand, O(S(BL, L(","), BL, operand, O(S(BL, L(","), BL, operand))))))),
            S(BL1, A(reg, rlist), O(S(BL, L(","), BL, reg)), BL, L(","), BL, mem))
    return S(BL, mnem, O(ops), O(comment), BL)


def aarch64_other_specs():
    ident = S(CS(string.ascii_letters + "_."), R0(CS(string.ascii_letters + string.digits + "_.")))
    comment_tail = S(BL, L("//"), R0(CS("".join(sorted(ALPHABET - set("\n\r"))))))
    label = S(BL, ident, L(":"), O(comment_tail), BL)
    comment = S(BL, L("//"), R0(CS("".join(sorted(ALPHABET - set("\n\r"))))))
    directive = S(BL, L("."), R1(CS(string.ascii_lowercase + "_")), O(S(BL1, R1(DIG), R0(S(BL, L(","), BL, R1(DIG))))), O(comment_tail), BL)
    return {"self.label": label, "self.comment": comment, "self.directive": directive}


def envelope_check(ctx, cls, gr):
    """R7: inclusion of the property's line languages in the grammar's regular envelope."""
    ctx.rule("R7", "language of rendered lines (property quantifier) is included in the grammar's regular envelope")
    if cls == "ParserX86ATT":
        specs = dict(x86_other_specs())
        specs["self.instruction_parser"] = x86_line_spec()
    else:
        specs = dict(aarch64_other_specs())
        specs["self.instruction_parser"] = aarch64_line_spec()
    stats = {}
    for key, spec in specs.items():
        g = gr.get(key)
        env = envelope(g)
        sp = spec_nfa(spec)
        res = inclusion(sp, env)
        stats[key] = {"envelope_states": len(env[0].eps), "spec_states": len(sp[0].eps)}
        if res[0]:
            stats[key].update(res[1])
            ctx.ok("R7", "%s: L(spec) included in L(envelope) (%d product states)" % (key, res[1]["product_states"]),
                   gr.func.where(g.src) if g.src is not None else gr.func.where())
        else:
            stats[key].update(res[2])
            ctx.bad("R7", "%s rejects a line of the promised language" % key,
                    gr.func.where(g.src) if g.src is not None else gr.func.where(),
                    "the grammar's regular envelope (which accepts at least everything pyparsing accepts) rejects the line "
                    "%r, which belongs to the language the property promises to parse: the real parser certainly rejects it "
                    "too" % res[1], gr.func.qname, "%s rejects %r" % (key, res[1]))
    ctx.extra["envelope"] = stats


# --------------------------------------------------------------------------------------- ties of longest-match alternations
def common_word(ga, gb, limit=200000):
    """A shortest string that the envelopes of BOTH expressions match completely (same start, same end), or None.
    pyparsing's Or (`^`) picks the longest match and, among equally long ones, the alternative listed first: a common
    word of two alternatives is an input on which their ORDER decides the result."""
    na, nb = NFA(), NFA()
    sa, ea = build(ga, na, True)
    sb, eb = build(gb, nb, True)
    na.accept.add(ea)
    nb.accept.add(eb)
    start = (na.closure([sa]), nb.closure([sb]))
    seen = {start: None}
    q = deque([start])
    n = 0
    while q:
        cur = q.popleft()
        A, B = cur
        n += 1
        if n > limit:
            raise AnalysisError("tie analysis exceeded %d product states" % limit)
        if (A & na.accept) and (B & nb.accept) and seen[cur] is not None:
            out = []
            c = cur
            while seen[c] is not None:
                c, ch = seen[c]
                out.append(ch)
            return "".join(reversed(out))
        chars = set()
        for p in A:
            for cs, t in na.trans[p]:
                chars |= cs
        succ = {}
        for ch in sorted(chars):
            A2 = na.step(A, ch)
            if not A2:
                continue
            B2 = nb.step(B, ch)
            if not B2:
                continue
            succ.setdefault((A2, B2), ch)
        for nxt, ch in succ.items():
            if nxt not in seen:
                seen[nxt] = (cur, ch)
                q.append(nxt)
    return None


def alternations(g, op="BitXor", _seen=None):
    """All alt nodes with the given operator reachable from g (each once)."""
    _seen = _seen if _seen is not None else set()
    out = []
    if id(g) in _seen:
        return out
    _seen.add(id(g))
    if g.kind == "alt" and g.a.get("op") == op:
        out.append(g)
    for k in g.kids:
        out.extend(alternations(k, op, _seen))
    return out


def alt_class(k):
    """What an alternative yields, as far as the post-processing can tell: its result name, else its shape."""
    if k.name:
        return k.name
    t = names_tree(k)
    if t:
        return "{" + ",".join(sorted(t)) + "}"
    return k.kind


def ties(g):
    """[(alt node, i, j, class_i, class_j, witness)] for every pair of alternatives of a `^` alternation under g that
    can match the same text completely."""
    out = []
    for a in alternations(g):
        for i in range(len(a.kids)):
            for j in range(i + 1, len(a.kids)):
                w = common_word(a.kids[i], a.kids[j])
                if w is not None:
                    out.append((a, i, j, alt_class(a.kids[i]), alt_class(a.kids[j]), w.strip()))
    return out


def shadow_word(ga, gb, limit=200000):
    """(w, w+x): a shortest pair such that the envelope of `ga` matches w and the envelope of `gb` matches the longer w+x
    (x non-empty and not only white space), or None. In a first-match alternation (`|`) with ga listed BEFORE gb, ga
    commits on w and gb never sees w+x."""
    na, nb = NFA(), NFA()
    sa, ea = build(ga, na, True)
    sb, eb = build(gb, nb, True)
    na.accept.add(ea)
    nb.accept.add(eb)
    # states of nb from which acceptance is reachable by at least one non-blank character
    start = (na.closure([sa]), nb.closure([sb]))
    seen = {start: None}
    q = deque([start])
    n = 0

    def word(c):
        out = []
        while seen[c] is not None:
            c, ch = seen[c]
            out.append(ch)
        return "".join(reversed(out))

    def extension(B):
        seenb = {B: None}
        qb = deque([B])
        while qb:
            cur = qb.popleft()
            if (cur & nb.accept) and seenb[cur] is not None:
                out = []
                c = cur
                while seenb[c] is not None:
                    c, ch = seenb[c]
                    out.append(ch)
                return "".join(reversed(out))
            chars = set()
            for p in cur:
                for cs, t in nb.trans[p]:
                    chars |= cs
            succ = {}
            for ch in sorted(chars - set(WS)):
                B2 = nb.step(cur, ch)
                if B2:
                    succ.setdefault(B2, ch)
            for nxt, ch in succ.items():
                if nxt not in seenb:
                    seenb[nxt] = (cur, ch)
                    qb.append(nxt)
        return None

    while q:
        cur = q.popleft()
        A, B = cur
        n += 1
        if n > limit:
            raise AnalysisError("shadow analysis exceeded %d product states" % limit)
        if (A & na.accept) and seen[cur] is not None:
            x = extension(B)
            if x is not None:
                w = word(cur)
                return w, w + x
        chars = set()
        for p in A:
            for cs, t in na.trans[p]:
                chars |= cs
        succ = {}
        for ch in sorted(chars):
            A2 = na.step(A, ch)
            B2 = nb.step(B, ch) if A2 else None
            if A2 and B2:
                succ.setdefault((A2, B2), ch)
        for nxt, ch in succ.items():
            if nxt not in seen:
                seen[nxt] = (cur, ch)
                q.append(nxt)
    return None


PROBES = ["0", "8", "-8", "0x10", "-0x10", "1b", "1f", "foo", ".L1", "foo+8", "8+foo", "-", "%rax", "%xmm1", "$1", "$0x1", "$foo", "(%rax)",
          "8(%rax)", "8(%rax,%rbx,4)", "(,%rbx,4)", "*%rax", "*8(%rax)", "%fs:8", "x0", "w1", "v0.4s", "z0.d", "p0/m", "#1", "#0x1", "#-1",
          "[x0]", "[x0, #8]", "[x0, #8]!", "[x0], #8", "[x0, x1, lsl #3]", "{v0.4s, v1.4s}", "{v0.4s - v3.4s}", "lsl #2", "lsl", "eq",
          "AL", "PLDL1KEEP", ":lo12:foo", "foo@PAGE", "\"a\"", "a,", ",", "1.5", "1e3", "#1.5", "mul vl", "B0", "."]


def probe_class(k, cache={}):
    """Class of an alternative = its result name plus the probe strings its envelope accepts: stable under renaming and
    re-spelling of the alternative, different for alternatives that share a result name (hex / decimal numbers)."""
    key = id(k)
    if key not in cache:
        nfa = NFA()
        s, e = build(k, nfa, True)
        nfa.accept.add(e)
        acc = [p for p in PROBES if nfa.accepts(p, s)]
        cache[key] = (k, "%s<%s>" % (alt_class(k), " ".join(acc)))
    return cache[key][1]


def order_relations(gr):
    """Every ordered pair of alternatives of one alternation of the grammar for which the ORDER can decide the result:
    {(kind, class_first, class_second): (active, witness, variable)}. kind 'tie' (`^`: both match the same text, the
    first listed wins) or 'shadow' (`|`: the first listed matches a prefix of what the second would match).
    `active`: the relation holds in the order as written; otherwise it would hold if the two were swapped."""
    out = {}
    seen = set()
    for key in gr.order:
        g = gr.env[key]
        if not isinstance(g, G):
            continue
        for a in alternations(g, "BitXor"):
            if id(a) in seen:
                continue
            seen.add(id(a))
            for i in range(len(a.kids)):
                for j in range(i + 1, len(a.kids)):
                    w = common_word(a.kids[i], a.kids[j])
                    if w is not None:
                        out.setdefault(("tie", probe_class(a.kids[i]), probe_class(a.kids[j])), (True, w.strip(), key))
        for a in alternations(g, "BitOr"):
            if id(a) in seen:
                continue
            seen.add(id(a))
            for i in range(len(a.kids)):
                for j in range(i + 1, len(a.kids)):
                    act = shadow_word(a.kids[i], a.kids[j])
                    lat = shadow_word(a.kids[j], a.kids[i])
                    ci, cj = probe_class(a.kids[i]), probe_class(a.kids[j])
                    if act:
                        out.setdefault(("shadow", ci, cj), (True, "%s | %s" % act, key))
                    if lat:
                        out.setdefault(("shadow-if-swapped", ci, cj), (False, "%s | %s" % lat, key))
    return out
