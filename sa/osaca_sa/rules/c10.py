"""C10 - AArch64 parser recovers every line and operand exactly as written."""
import ast

from .. import pm
from ..pm import U
from ..ppgrammar import Grammar
from . import common as C
from . import parsers as P

TECHNIQUE = "static analysis: as C09 (grammar IR, key agreement, number bases, classification order, numbering) plus affine/exponent checks of the index scale, alias prefixes, inclusive register ranges; (thorough) language inclusion in the grammar's regular envelope"
EXPLANATION = (
    "R1-R6 and T as for C09 on ParserAArch64 (classification order: comment, label, directive, instruction - the directive attempt must precede the instruction attempt because '.byte 100' also parses as an instruction). R8: the memory scale is 2 ** (shift amount of the index register) under the shift/extend operations allowed there, default 1. R9: sp/zr as base or index get prefix x; a bare sp operand becomes x + sp; '!' sets pre_indexed; a post-index immediate is stored converted. R10: register ranges expand inclusively (int(end) + 1) from the first to the last register, lists keep their order, a trailing index is propagated to every member. R12: a field the parser itself fills with numbers (the element index of an expanded list/range member is int(...)) is never presence-tested by truthiness (`x.get('index') or None`, `v if v else None`): 0 is a value. R13: as C09-R8 - order-sensitive pairs of alternatives (register vs. identifier/immediate, condition code vs. immediate, register index vs. offset, hexadecimal vs. decimal) are listed in the reviewed order of spec/grammar_order.json."
)
NOT_DECIDED = (
    "That the recovered operand values equal the written ones for every input (pyparsing's run time) and "
    "acceptance itself (the envelope over-approximates pyparsing)."
)
ASSUMPTIONS = ["pyparsing's naming semantics as modelled in osaca_sa/ppgrammar.py"]
CLS = "ParserAArch64"


def run(ctx):
    C.require_locals(ctx, ctx.func('ParserAArch64.process_memory_address'), ['memory_address', 'offset', 'base', 'index', 'scale', 'valid_shift_ops'])
    C.require_locals(ctx, ctx.func('ParserAArch64.parse_line'), ['result'])
    C.require_locals(ctx, ctx.func('ParserAArch64.parse_instruction'), ['result', 'operands'])
    C.require_locals(ctx, ctx.func('ParserAArch64.resolve_range_list'), ['operand', 'index'])
    C.require_locals(ctx, ctx.func('ParserAArch64.process_immediate'), ['immediate'])
    gr = Grammar(ctx.repo, CLS)
    ctx.touch(gr.func)
    ctx.extra["grammar_variables"] = len(gr.order)
    P.r1_numbering(ctx)
    P.r2_verbatim(ctx, CLS)
    P.r3_classification(ctx, CLS, ("comment", "label", "directive", "instruction"))
    f = ctx.func(CLS + ".parse_line")
    llvm = [t for t in ast.walk(f.node) if isinstance(t, ast.Try) and "llvm_markers" in U(t.body)]
    if llvm and not any(p and U(e) == "result is None" for e, p in C.facts_at(llvm[0])):
        ctx.note("R3: the LLVM-MCA marker attempt is not guarded by 'no earlier result' (harmless: '//' and '#' comments are disjoint)")
    reads, op_tree = P.r4_keys(ctx, CLS, gr)
    n = P.r5_conversions(ctx, CLS, gr, reads, {"name", "index", "exponent", "lanes"})
    ctx.floor("R5", "int() conversions of grammar tokens", n, 5)
    nf = P.r7_presence(ctx, CLS, "R12")
    ctx.floor("R12", "fields the parser fills with numbers", nf, 1)
    # ---- R8 scale
    ctx.rule("R8", "memory scale = 2 ** shift amount under the allowed shift operations; default 1")
    m = ctx.func(CLS + ".process_memory_address")
    init = [a for a in C.assigns_to(m.node, "scale")]
    ok_init = bool(init) and C.const_num(init[0].value) == 1
    pw = [a for a in init if isinstance(a.value, ast.BinOp) and isinstance(a.value.op, ast.Pow)]
    ok_pow = len(pw) == 1 and C.const_num(pw[0].value.left) == 2 and "['index']['shift'][0]['value']" in U(pw[0].value.right)
    ctx.check(ok_init, "R8", "scale defaults to 1", m.where(), "scale default is %s" % ([U(a.value) for a in init][:1]), m.qname, "scale default")
    ctx.check(ok_pow, "R8", "scale = 2 ** <index shift amount>", m.where(pw[0]) if pw else m.where(),
              "the scale is not 2 ** (shift amount of the index register): %s" % [U(a.value) for a in init[1:]], m.qname, "scale power")
    if pw:
        facts = [U(e) for e, p in C.facts_at(pw[0]) if p]
        ops = [a for a in C.assigns_to(m.node, "valid_shift_ops")]
        lst = C.literal(ops[0].value) if ops else []
        ok = any("shift_op" in t and "in valid_shift_ops" in t for t in facts) and "lsl" in lst and set(lst) <= {"lsl", "uxtw", "uxtb", "sxtw", "sxtx", "uxtx"}
        ctx.check(ok, "R8", "scale only for lsl / extend operations %s" % lst, m.where(pw[0]), "shift-op guard changed: %s / %s" % (facts, lst),
                  m.qname, "shift op guard")
    mo = [c for c in ast.walk(m.node) if isinstance(c, ast.Call) and pm.call_name(c) == "MemoryOperand"]
    kw = {k.arg: U(k.value) for k in mo[0].keywords} if mo else {}
    ctx.check(kw.get("offset") == "offset" and kw.get("index") == "index" and kw.get("scale") == "scale" and "base['name']" in kw.get("base", ""),
              "R8", "memory operand is built from offset/base/index/scale in their own slots", m.where(), "MemoryOperand(%s)" % kw, m.qname,
              "memory construction")
    # ---- R9 aliases, pre/post index
    ctx.rule("R9", "sp/zr aliases get prefix x; pre-index flag; post-index value converted")
    for reg in ("base", "index"):
        for alias in ("sp", "zr"):
            hit = [n2 for n2 in ast.walk(m.node) if isinstance(n2, ast.If) and "%s['name'].lower() == '%s'" % (reg, alias) in U(n2.test)
                   and any(U(s) == "%s['prefix'] = 'x'" % reg for s in n2.body)]
            ctx.check(bool(hit), "R9", "%s register %s gets prefix x" % (reg, alias), m.where(),
                      "a %s register written as %s does not get the prefix x" % (reg, alias), m.qname, "%s %s prefix" % (reg, alias))
    sp = ctx.func(CLS + ".process_sp_register")
    ctx.check(bool(pm.find("return RegisterOperand(prefix='x', name='sp')", sp.node)), "R9", "a bare sp operand is x + sp", sp.where(),
              "process_sp_register changed", sp.qname, "bare sp")
    po = ctx.func(CLS + ".process_operand")
    d = [n2 for n2 in ast.walk(po.node) if isinstance(n2, ast.If) and "['name'].lower() == 'sp'" in U(n2.test)
         and any("process_sp_register" in U(s) for s in n2.body)]
    ctx.check(bool(d), "R9", "sp operands are routed to process_sp_register (case-insensitive)", po.where(), "sp dispatch changed", po.qname,
              "sp dispatch")
    pre = [n2 for n2 in ast.walk(m.node) if isinstance(n2, ast.If) and U(n2.test) == "'pre_indexed' in memory_address"
           and any(U(s).endswith(".pre_indexed = True") for s in n2.body)]
    ctx.check(bool(pre), "R9", "'!' sets pre_indexed", m.where(), "pre-index flag is not set from the '!' token", m.qname, "pre index")
    post = pm.find("M_d.post_indexed = {'value': int(memory_address['post_indexed']['value'], 0)}", m.node)
    if not post:
        # the same store as one arm of a conditional expression
        post = [(n2, None) for n2 in ast.walk(m.node) if isinstance(n2, ast.Assign) and U(n2.targets[0]).endswith(".post_indexed")
                and isinstance(n2.value, ast.IfExp) and "{'value': int(memory_address['post_indexed']['value'], 0)}" in (
                    U(n2.value.body), U(n2.value.orelse))]
    ctx.check(bool(post), "R9", "post-index immediate is stored as converted value", m.where(), "post-index value is not stored as int(value, 0)",
              m.qname, "post index")
    # ---- R10 ranges / lists
    ctx.rule("R10", "register ranges expand inclusively; lists keep order; a trailing index reaches every member")
    r = ctx.func(CLS + ".resolve_range_list")
    rng = pm.find("for M_n in range(int(M_s), int(M_e) + 1):\n    REST_", r.node)
    ok = False
    if rng:
        s, e = U(rng[0][1]["M_s"]), U(rng[0][1]["M_e"])
        sd = [a for a in C.assigns_to(r.node, s)]
        ed = [a for a in C.assigns_to(r.node, e)]
        ok = bool(sd) and bool(ed) and "['range'][0]" in U(C.flow_of(r).subst(sd[0].value)) and "['range'][1]['name']" in U(ed[0].value)
    ctx.check(ok, "R10", "range(int(first), int(last) + 1)", r.where(), "register ranges are not expanded inclusively from the first "
              "to the last register number", r.qname, "inclusive range")
    name_set = pm.find("M_r['name'] = str(M_n)", r.node)
    ctx.check(bool(name_set) and bool(rng) and U(name_set[0][1]["M_n"]) == U(rng[0][1]["M_n"]), "R10", "each member gets its own number",
              r.where(), "expanded members do not get the running number as name", r.qname, "member names")
    idx = [a for a in ast.walk(r.node) if isinstance(a, ast.Assign) and U(a.targets[0]).endswith("['index']")
           and U(a.value) == "int(index, 0)"]
    ctx.check(len(idx) == 2, "R10", "a trailing [index] is propagated to every member (list and range)", r.where(),
              "the element index is propagated in %d of 2 branches" % len(idx), r.qname, "index propagation")
    lst = [l for l in ast.walk(r.node) if isinstance(l, ast.For) and U(l.iter) == "operand['register']['list']"]
    ctx.check(bool(lst), "R10", "list members are visited in written order", r.where(), "list iteration changed", r.qname, "list order")
    ret = [x for x in ast.walk(r.node) if isinstance(x, ast.Return) and U(x.value) == "processed_list"]
    ctx.check(len(ret) == 2, "R10", "both branches return the converted members", r.where(), "return of the member list changed", r.qname,
              "return members")
    pl = ctx.func(CLS + ".process_register_list")
    ctx.check(bool(pm.find("M_l.append(self.list_element.parseString(M_r, parseAll=True).asDict())", pl.node)), "R10",
              "every written member is re-parsed as a register", pl.where(), "members are not re-parsed one by one", pl.qname, "member parse")
    inst = ctx.func(CLS + ".parse_instruction")
    order = [U(c.args[0]) for c in C.calls_to(inst.node, "process_operand")]
    ctx.check(order == ["result['operand%d']" % i for i in range(1, 6)], "R4", "operands are collected in written order 1..5", inst.where(),
              "operands are collected as %s" % order, inst.qname, "operand order")
    ext = [n2 for n2 in ast.walk(inst.node) if isinstance(n2, ast.IfExp) and "extend" in U(n2) and "append" in U(n2)]
    ctx.check(len(ext) == 5, "R10", "expanded lists are spliced into the operand list in place", inst.where(),
              "register lists are not extended into the operand list for all five operand slots", inst.qname, "splice lists")
    P.r6_trailing(ctx, CLS, gr)
    P.r8_order(ctx, CLS, gr, "R13")
    P.t_terminals(ctx, CLS, gr)
    # immediates
    ctx.rule("R11", "immediates: integer values normalised with base 0; float/double keep mantissa/exponent; '#' optional")
    pi = ctx.func(CLS + ".process_immediate")
    ni = ctx.func(CLS + ".normalize_imd")
    ctx.check(bool(pm.find("return int(imd.value, 0)", ni.node)), "R11", "string immediates are converted with base 0", ni.where(),
              "normalize_imd no longer converts with base 0", ni.qname, "normalize base 0")
    ctx.check(bool(pm.find("M_i.value = self.normalize_imd(M_i)", pi.node)), "R11", "integer immediates are normalised", pi.where(),
              "integer immediates are not normalised", pi.qname, "normalise call")
    imm = gr.get("immediate")
    top = imm.kids[0] if imm.kind == "group" and imm.kids else imm
    alts = top.kids if top.kind == "alt" else [top]

    def starts_with_opt_hash(a):
        first = a.kids[0] if a.kind == "seq" and a.kids else a
        return first.kind == "opt" and first.kids and first.kids[0].kind == "lit" and first.kids[0].a.get("text") == "#"
    opt_hash = bool(alts) and all(starts_with_opt_hash(a) for a in alts)
    ctx.check(opt_hash, "R11", "'#' before an immediate is optional", gr.func.where(imm.src) if imm.src is not None else gr.func.where(),
              "the immediate grammar requires (or forbids) '#'", gr.func.qname, "optional hash")
    if ctx.tier == "thorough":
        from .. import automata
        automata.envelope_check(ctx, CLS, gr)


def _walk(g):
    yield g
    for k in g.kids:
        yield from _walk(k)
