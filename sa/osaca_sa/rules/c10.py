"""C10 - AArch64 parser recovers every line and operand exactly as written."""
import ast
import re

from .. import pm
from ..pm import U
from ..ppgrammar import Grammar
from . import common as C
from . import parsers as P

TECHNIQUE = "static analysis: as C09 (grammar IR, key agreement, number bases, classification order, numbering) plus affine/exponent checks of the index scale, alias prefixes, inclusive register ranges; (thorough) language inclusion in the grammar's regular envelope"
EXPLANATION = (
    "R1-R6 and T as for C09 on ParserAArch64 (classification order: comment, label, directive, instruction - the directive attempt must precede the instruction attempt because '.byte 100' also parses as an instruction). R8: the memory scale is 2 ** (shift amount of the index register) under the shift/extend operations allowed there, default 1. R9: sp/zr as base or index get prefix x; a bare sp operand becomes x + sp; '!' sets pre_indexed; a post-index immediate is stored converted. R10: register ranges expand inclusively (int(end) + 1) from the first to the last register, lists keep their order, a trailing index is propagated to every member. R12: a field the parser itself fills with numbers (the element index of an expanded list/range member is int(...)) is never presence-tested by truthiness (`x.get('index') or None`, `v if v else None`): 0 is a value. R13: as C09-R8 - order-sensitive pairs of alternatives (register vs. identifier/immediate, condition code vs. immediate, register index vs. offset, hexadecimal vs. decimal) are listed in the reviewed order of spec/grammar_order.json."
)
NOT_DECIDED = (
    "That the recovered operand values equal the written ones for every input (pyparsing's run time) and "
    "acceptance itself (the envelope over-approximates pyparsing)."
)
ASSUMPTIONS = ["pyparsing's naming semantics as modelled in osaca_sa/ppgrammar.py"]
CLS = "ParserAArch64"


def run(ctx):
    C.require_locals(ctx, ctx.func('ParserAArch64.process_memory_address'), ['memory_address', 'offset', 'base', 'index', 'scale'])
    C.require_locals(ctx, ctx.func('ParserAArch64.parse_line'), ['result'])
    C.require_locals(ctx, ctx.func('ParserAArch64.parse_instruction'), ['result', 'operands'])
    C.require_locals(ctx, ctx.func('ParserAArch64.resolve_range_list'), ['operand', 'index'])
    C.require_locals(ctx, ctx.func('ParserAArch64.process_immediate'), ['immediate'])
    gr = Grammar(ctx.repo, CLS)
    ctx.touch(gr.func)
    ctx.extra["grammar_variables"] = len(gr.order)
    P.r1_numbering(ctx)
    P.r2_verbatim(ctx, CLS)
    P.r3_classification(ctx, CLS, ("comment", "label", "directive", "instruction"))
    f = ctx.func(CLS + ".parse_line")
    llvm = [t for t in ast.walk(f.node) if isinstance(t, ast.Try) and "llvm_markers" in U(t.body)]
    if llvm and not any(p and U(e) == "result is None" for e, p in C.facts_at(llvm[0])):
        ctx.note("R3: the LLVM-MCA marker attempt is not guarded by 'no earlier result' (harmless: '//' and '#' comments are disjoint)")
    reads, op_tree = P.r4_keys(ctx, CLS, gr)
    n = P.r5_conversions(ctx, CLS, gr, reads, {"name", "index", "exponent", "lanes"})
    ctx.floor("R5", "int() conversions of grammar tokens", n, 5)
    nf = P.r7_presence(ctx, CLS, "R12")
    ctx.floor("R12", "fields the parser fills with numbers", nf, 1)
    # ---- R8 scale
    ctx.rule("R8", "memory scale = 2 ** shift amount under the allowed shift operations; default 1")
    m = ctx.func(CLS + ".process_memory_address")
    init = [a for a in C.assigns_to(m.node, "scale")]
    ok_init = bool(init) and C.const_num(init[0].value) == 1
    pw = [a for a in init if isinstance(a.value, ast.BinOp) and isinstance(a.value.op, ast.Pow)]
    ok_pow = len(pw) == 1 and C.const_num(pw[0].value.left) == 2 and "['index']['shift'][0]['value']" in U(pw[0].value.right)
    ctx.check(ok_init, "R8", "scale defaults to 1", m.where(), "scale default is %s" % ([U(a.value) for a in init][:1]), m.qname, "scale default")
    ctx.check(ok_pow, "R8", "scale = 2 ** <index shift amount>", m.where(pw[0]) if pw else m.where(),
              "the scale is not 2 ** (shift amount of the index register): %s" % [U(a.value) for a in init[1:]], m.qname, "scale power")
    if pw:
        facts = [U(e) for e, p in C.facts_at(pw[0]) if p]
        mflow = C.flow_of(m)
        lst, seen_guard = [], False
        for e, p in C.norm_fact_nodes(pw[0]):
            if p and isinstance(e, ast.Compare) and len(e.ops) == 1 and isinstance(e.ops[0], ast.In) and "shift_op" in U(mflow.subst(e.left)):
                seen_guard = True
                try:
                    lst = list(ast.literal_eval(mflow.subst(e.comparators[0])))
                except Exception:
                    lst = []
        ok = seen_guard and "lsl" in lst and set(lst) <= {"lsl", "uxtw", "uxtb", "sxtw", "sxtx", "uxtx"}
        ctx.judge(ok, seen_guard and bool(lst), "R8", "scale only for lsl / extend operations %s" % lst, m.where(pw[0]), "shift-op guard changed: %s / %s" % (facts, lst),
                  m.qname, "shift op guard")
    mo = [c for c in ast.walk(m.node) if isinstance(c, ast.Call) and pm.call_name(c) == "MemoryOperand"]
    kw = {k.arg: U(k.value) for k in mo[0].keywords} if mo else {}
    ctx.check(kw.get("offset") == "offset" and kw.get("index") == "index" and kw.get("scale") == "scale" and "base['name']" in kw.get("base", ""),
              "R8", "memory operand is built from offset/base/index/scale in their own slots", m.where(), "MemoryOperand(%s)" % kw, m.qname,
              "memory construction")
    # ---- R9 aliases, pre/post index
    ctx.rule("R9", "sp/zr aliases get prefix x; pre-index flag; post-index value converted")
    for reg in ("base", "index"):
        for alias in ("sp", "zr"):
            hit = []
            for st_ in ast.walk(m.node):
                if isinstance(st_, ast.Assign) and U(st_) == "%s['prefix'] = 'x'" % reg:
                    for e, pol in C.norm_fact_nodes(st_):
                        if not pol or not isinstance(e, ast.Compare) or len(e.ops) != 1:
                            continue
                        l_, r_ = e.left, e.comparators[0]
                        if isinstance(e.ops[0], ast.Eq) and {U(l_), U(r_)} == {"%s['name'].lower()" % reg, repr(alias)}:
                            hit.append(st_)
                        if isinstance(e.ops[0], ast.In) and U(l_) == "%s['name'].lower()" % reg and isinstance(r_, (ast.Tuple, ast.List, ast.Set)) \
                                and any(isinstance(x, ast.Constant) and x.value == alias for x in r_.elts):
                            hit.append(st_)
            ctx.check(bool(hit), "R9", "%s register %s gets prefix x" % (reg, alias), m.where(),
                      "a %s register written as %s does not get the prefix x" % (reg, alias), m.qname, "%s %s prefix" % (reg, alias))
    sp = ctx.func(CLS + ".process_sp_register")
    ctx.check(bool(pm.find("return RegisterOperand(prefix='x', name='sp')", sp.node)), "R9", "a bare sp operand is x + sp", sp.where(),
              "process_sp_register changed", sp.qname, "bare sp")
    po = ctx.func(CLS + ".process_operand")
    d = [n2 for n2 in ast.walk(po.node) if isinstance(n2, ast.If) and "['name'].lower() == 'sp'" in U(n2.test)
         and any("process_sp_register" in U(s) for s in n2.body)]
    ctx.check(bool(d), "R9", "sp operands are routed to process_sp_register (case-insensitive)", po.where(), "sp dispatch changed", po.qname,
              "sp dispatch")
    pre = [n2 for n2 in ast.walk(m.node) if isinstance(n2, ast.If) and U(n2.test) == "'pre_indexed' in memory_address"
           and any(U(s).endswith(".pre_indexed = True") for s in n2.body)]
    ctx.check(bool(pre), "R9", "'!' sets pre_indexed", m.where(), "pre-index flag is not set from the '!' token", m.qname, "pre index")
    post = pm.find("M_d.post_indexed = {'value': int(memory_address['post_indexed']['value'], 0)}", m.node)
    if not post:
        # the converted value reaches the store through a local / one arm of a conditional
        mflow2 = C.flow_of(m)
        want_v = C.CT("int(memory_address['post_indexed']['value'], 0)")
        for st_ in [x for x in ast.walk(m.node) if isinstance(x, ast.Assign) and U(x.targets[0]).endswith(".post_indexed")]:
            cands = [st_.value]
            if isinstance(st_.value, ast.Name):
                try:
                    cands = [d_.value for d_ in mflow2.reaching(st_, st_.value.id) if d_.kind == "assign" and d_.value is not None]
                except KeyError:
                    cands = []
            for v_ in cands:
                for d_ in [v_] + ([v_.body, v_.orelse] if isinstance(v_, ast.IfExp) else []):
                    if isinstance(d_, ast.Dict) and len(d_.keys) == 1 and isinstance(d_.keys[0], ast.Constant) and d_.keys[0].value == "value" \
                            and C.CT(U(mflow2.subst(d_.values[0]))) == want_v:
                        post = post or [(st_, None)]
    if not post:
        # the same store as one arm of a conditional expression
        post = [(n2, None) for n2 in ast.walk(m.node) if isinstance(n2, ast.Assign) and U(n2.targets[0]).endswith(".post_indexed")
                and isinstance(n2.value, ast.IfExp) and "{'value': int(memory_address['post_indexed']['value'], 0)}" in (
                    U(n2.value.body), U(n2.value.orelse))]
    ctx.check(bool(post), "R9", "post-index immediate is stored as converted value", m.where(), "post-index value is not stored as int(value, 0)",
              m.qname, "post index")
    # ---- R10 ranges / lists
    ctx.rule("R10", "register ranges expand inclusively; lists keep order; a trailing index reaches every member")
    r = ctx.func(CLS + ".resolve_range_list")
    rflow = C.flow_of(r)
    RS = lambda e: U(rflow.subst(e))
    opnd = r.params()[1]
    loops = [l for l in ast.walk(r.node) if isinstance(l, ast.For) and C.is_call_to(l.iter, "range") and len(l.iter.args) == 2]
    ok, rng = False, None
    for l in loops:
        lo, hi = RS(l.iter.args[0]), RS(l.iter.args[1])
        hi_e = rflow.subst(l.iter.args[1])
        # range(a, a + max(n, 0)) is range(a, a + n): a non-positive count gives the empty range either way
        if isinstance(hi_e, ast.BinOp) and isinstance(hi_e.op, ast.Add):
            for base_, cnt_ in ((hi_e.left, hi_e.right), (hi_e.right, hi_e.left)):
                mm = pm.match("max(M_n, 0)", cnt_) or pm.match("max(0, M_n)", cnt_)
                if mm is not None and U(base_) == lo:
                    hi_e = ast.BinOp(left=base_, op=ast.Add(), right=mm["M_n"])
                    hi = U(hi_e)
        aff = C.affine(hi_e)
        terms = [k for k in aff if k != 1]
        hi_ok = len(terms) == 1 and aff[terms[0]] == 1 and aff.get(1, 0) == 1 and terms[0].startswith("int(") \
            and "['range'][1]['name']" in terms[0]
        lo_ok = lo.startswith("int(") and "['range'][0]['name']" in lo
        if lo_ok and hi_ok:
            ok, rng = True, l
        elif "['range'][0]" in lo or "['range'][1]" in hi:
            rng = rng or l
    ctx.judge(ok, rng is not None, "R10", "range(int(first), int(last) + 1)", r.where(rng) if rng is not None else r.where(),
              "register ranges are not expanded inclusively from the first to the last register number", r.qname, "inclusive range")
    name_set = [a for a in ast.walk(r.node) if isinstance(a, ast.Assign) and U(a.targets[0]).endswith("['name']") and rng is not None
                and U(a.value) == "str(%s)" % U(rng.target) and C.in_subtree(a, rng)]
    ctx.check(bool(name_set), "R10", "each member gets its own number",
              r.where(), "expanded members do not get the running number as name", r.qname, "member names")
    idx = [a for a in ast.walk(r.node) if isinstance(a, ast.Assign) and U(a.targets[0]).endswith("['index']")
           and C.CT(RS(a.value)) in (C.CT("int(%s['register'].get('index', None), 0)" % opnd), C.CT("int(%s['register'].get('index'), 0)" % opnd),
                                     C.CT("int(%s['register']['index'], 0)" % opnd))]
    passed_on = [c_ for c_ in ast.walk(r.node) if isinstance(c_, ast.Call) and isinstance(c_.func, ast.Attribute) and U(c_.func.value) == "self"
                 and c_.func.attr != "process_register_operand" and any(U(a_) == "index" or "'index'" in U(a_) for a_ in c_.args)]
    ctx.judge(len(idx) == 2, len(idx) == 2 or not passed_on, "R10", "a trailing [index] is propagated to every member (list and range)", r.where(),
              "the element index is propagated in %d of 2 branches" % len(idx), r.qname, "index propagation")
    lst = [l for l in ast.walk(r.node) if isinstance(l, (ast.For, ast.comprehension)) and RS(l.iter) == "%s['register']['list']" % opnd]
    ctx.check(bool(lst), "R10", "list members are visited in written order", r.where(), "list iteration changed", r.qname, "list order")
    # both branches hand back the converted members, in order: [process_register_operand(x) for x in <members built above>]
    rets = [x for x in ast.walk(r.node) if isinstance(x, ast.Return) and x.value is not None and U(x.value) != opnd]
    def converted(x):
        """the returned list holds process_register_operand(m) for every member m, in order"""
        pat = "[self.process_register_operand(M_x) for M_x in M_l]"
        if pm.match(pat, x.value) is not None:
            return True
        if isinstance(x.value, ast.Name):
            try:
                ds_ = [d_ for d_ in rflow.reaching(x, x.value.id)]
            except KeyError:
                ds_ = []
            if len(ds_) == 1 and ds_[0].kind == "assign" and pm.match(pat, ds_[0].value) is not None:
                return True
        if isinstance(x.value, ast.Name):
            # built by an append loop: L = [] ... for m in <members>: L.append(self.process_register_operand(m))
            nm = x.value.id
            apps = [c_ for c_ in ast.walk(r.node) if isinstance(c_, ast.Call) and isinstance(c_.func, ast.Attribute) and c_.func.attr == "append"
                    and U(c_.func.value) == nm and C.cfg_of(r).reachable(C.cfg_of(r).node_of(c_), x)]
            ok_ = bool(apps)
            for c_ in apps:
                lp_ = C.enclosing_loop(c_)
                ok_ = ok_ and isinstance(lp_, ast.For) and len(c_.args) == 1 and \
                    pm.match("self.process_register_operand(%s)" % U(lp_.target), c_.args[0]) is not None
            return ok_
        return False
    good_rets = [x for x in rets if converted(x)]
    ctx.judge(len(good_rets) == 2, len(rets) == 2, "R10", "both branches return the converted members", r.where(),
              "return of the member list changed", r.qname, "return members")
    pl = ctx.func(CLS + ".process_register_list")
    plf = C.flow_of(pl)
    prm = pl.params()[1]
    parsed = [c_ for c_ in ast.walk(pl.node) if isinstance(c_, (ast.ListComp, ast.GeneratorExp)) and len(c_.generators) == 1
              and pm.match("self.list_element.parseString(%s, parseAll=True).asDict()" % U(c_.generators[0].target), c_.elt) is not None
              and U(plf.subst(c_.generators[0].iter)).startswith(prm + "[")]
    parsed += [n for n, _ in pm.find("M_l.append(self.list_element.parseString(M_r, parseAll=True).asDict())", pl.node)]
    ctx.check(bool(parsed), "R10",
              "every written member is re-parsed as a register", pl.where(), "members are not re-parsed one by one", pl.qname, "member parse")
    inst = ctx.func(CLS + ".parse_instruction")
    _ifl = C.flow_of(inst)
    order = []
    for c in sorted(C.calls_to(inst.node, "process_operand"), key=lambda c: (c.lineno, c.col_offset)):
        a_ = c.args[0] if c.args else None
        k_ = _ifl.subst(a_.slice) if isinstance(a_, ast.Subscript) else None
        order.append("result[%s]" % U(k_) if k_ is not None and U(_ifl.subst(a_.value)).endswith(".asDict()") else U(a_) if a_ is not None else "?")
    ctx.check(order == ["result['operand%d']" % i for i in range(1, 6)], "R4", "operands are collected in written order 1..5", inst.where(),
              "operands are collected as %s" % order, inst.qname, "operand order")
    # per operand slot: the processed operand is spliced in when it is a list, appended otherwise (statement or expression form)
    iflow = C.flow_of(inst)
    slots = {"extend": set(), "append": set()}
    for c_ in ast.walk(inst.node):
        if isinstance(c_, ast.Call) and isinstance(c_.func, ast.Attribute) and c_.func.attr in ("extend", "append") and len(c_.args) == 1:
            v_ = c_.args[0]
            src_ = U(iflow.subst(v_))
            m_ = re.fullmatch(r"self\.process_operand\(.*\['(operand\d)'\]\)", src_)
            if m_ is None:
                continue
            nf_ = C.norm_fact_nodes(c_)
            is_list = [pol for e, pol in nf_ if C.is_call_to(e, "isinstance") and len(e.args) == 2 and U(e.args[1]) == "list"
                       and U(iflow.subst(e.args[0])) == src_]
            if c_.func.attr == "extend" and is_list == [True]:
                slots["extend"].add(m_.group(1))
            if c_.func.attr == "append" and is_list == [False]:
                slots["append"].add(m_.group(1))
    ext = slots["extend"] & slots["append"]
    ctx.check(len(ext) == 5, "R10", "expanded lists are spliced into the operand list in place", inst.where(),
              "register lists are not extended into the operand list for all five operand slots", inst.qname, "splice lists")
    P.r6_trailing(ctx, CLS, gr)
    P.r8_order(ctx, CLS, gr, "R13")
    P.t_terminals(ctx, CLS, gr)
    # immediates
    ctx.rule("R11", "immediates: integer values normalised with base 0; float/double keep mantissa/exponent; '#' optional")
    pi = ctx.func(CLS + ".process_immediate")
    ni = ctx.func(CLS + ".normalize_imd")
    ctx.check(bool(pm.find("return int(imd.value, 0)", ni.node)), "R11", "string immediates are converted with base 0", ni.where(),
              "normalize_imd no longer converts with base 0", ni.qname, "normalize base 0")
    ctx.check(bool(pm.find("M_i.value = self.normalize_imd(M_i)", pi.node)), "R11", "integer immediates are normalised", pi.where(),
              "integer immediates are not normalised", pi.qname, "normalise call")
    imm = gr.get("immediate")
    top = imm.kids[0] if imm.kind == "group" and imm.kids else imm
    alts = top.kids if top.kind == "alt" else [top]

    def starts_with_opt_hash(a):
        first = a.kids[0] if a.kind == "seq" and a.kids else a
        return first.kind == "opt" and first.kids and first.kids[0].kind == "lit" and first.kids[0].a.get("text") == "#"
    opt_hash = bool(alts) and all(starts_with_opt_hash(a) for a in alts)
    ctx.check(opt_hash, "R11", "'#' before an immediate is optional", gr.func.where(imm.src) if imm.src is not None else gr.func.where(),
              "the immediate grammar requires (or forbids) '#'", gr.func.qname, "optional hash")
    if ctx.tier == "thorough":
        from .. import automata
        automata.envelope_check(ctx, CLS, gr)


def _walk(g):
    yield g
    for k in g.kids:
        yield from _walk(k)
