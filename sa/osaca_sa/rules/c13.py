"""C13 - text report, machine-readable output and totals agree."""
import ast
import re

from .. import pm
from ..flow import attr_stores
from ..pm import U
from . import common as C

TECHNIQUE = "static analysis: provenance agreement between paired output expressions (same origin attribute / same call on the same object), field def-use (a reported field whose only writers store a constant), guard agreement of the unknown-instruction branch, warning-flag threading, literal architecture tables vs data files, --help and README"
EXPLANATION = (
    "R1: for each pair (port cell/PortPressure, CP cell/LatencyCP, LCD cell/LatencyLCD incl. 'the same cycle is "
    "selected among equally long ones', summary "
    "ports/Summary.PortPressure, CP total/Summary.CriticalPath, LCD figure/Summary.LCD, LCD list rows/"
    "get_loopcarried_dependencies entries) the text-side and dict-side expressions have the same origin; a "
    "dict field read from an attribute whose only writers store a constant while the text value is "
    "computed is a disagreement. R2: osaca.inspect hands the same kernel, graph and warning flags to "
    "both outputs. R3: the missing-data branch, the count in its warning and the X mark are keyed on "
    "the same flag; totals are printed exactly on the other branch; --ignore-unknown is threaded. R4: "
    "arch warning <=> no --arch; length warning <=> unmarked and > 100 parsed lines and no --lines; "
    "LCD warning = timed_out; each reaches both outputs. R5: DEFAULT_ARCHS values are supported and map "
    "back to their ISA; every supported architecture has a row in get_isa_for_arch, a data file with "
    "matching isa/arch_code header, and appears in --help and the README table. R6: the per-line CP values live on the instruction forms and are recomputed by every get_critical_path() call (text report, dict, graph export each ask again): the accumulation must start from a reset on every call (obligation C04-R3, embedded), otherwise the dict shows a multiple of what the text shows."
)
NOT_DECIDED = "Digit-level formatting/column layout of every cell for every model (needs the rendered report)."
ASSUMPTIONS = ["the three model files that are empty in this tree are skipped for header checks (recorded in evidence)"]


def _origin_attr(expr):
    """Trailing attribute name an output expression reads (through float()/enumerate wrappers)."""
    e = expr
    while isinstance(e, ast.Call) and e.args and isinstance(e.func, ast.Name) and e.func.id in ("float", "list", "enumerate", "sum"):
        e = e.args[0]
    if isinstance(e, ast.Attribute):
        return e.attr
    return None


def _ports_map_of(e):
    """Text of X when `e` maps the model's port names to the values of X position by position:
    {ports()[i]: v for i, v in enumerate(X)}  /  dict(zip(ports(), X))  /  {p: v for p, v in zip(ports(), X)}; else None."""
    for pat in ("{self._machine_model.get_ports()[M_i]: M_v for M_i, M_v in enumerate(M_x)}",
                "dict(zip(self._machine_model.get_ports(), M_x))",
                "{M_p: M_v for M_p, M_v in zip(self._machine_model.get_ports(), M_x)}"):
        b = pm.match(pat, e)
        if b is not None:
            return U(b["M_x"])
    return None


def _dict_value(fd, key, sibling=None):
    """Value expression stored under `key` in a dict display of function fd (the display that also has
    the key `sibling`, if given)."""
    for n in ast.walk(fd.node):
        if isinstance(n, ast.Dict):
            keys = [k.value for k in n.keys if isinstance(k, ast.Constant)]
            if sibling is not None and sibling not in keys:
                continue
            for k, v in zip(n.keys, n.values):
                if isinstance(k, ast.Constant) and k.value == key:
                    return v
    return None


def _r1(ctx):
    ctx.rule("R1", "paired text / dict values have the same origin")
    cv = ctx.func("Frontend.combined_view")
    fd = ctx.func("Frontend.full_analysis_dict")
    lc = ctx.func("Frontend._get_lcd_cp_ports")

    def pair(name, ok, where, detail, recognised=True):
        ctx.judge(ok, recognised, "R1", name, where, "text report and dict disagree on %s: %s" % (name, detail),
                  "Frontend", "pair " + name)

    # --- port cell / PortPressure
    tcall = [c for c in C.calls_to(cv.node, "_get_port_pressure") if U(c.args[0]).endswith(".port_pressure")]
    dv = _dict_value(fd, "PortPressure", "LatencyCP")
    d_ok = dv is not None and (_ports_map_of(dv) or "").endswith(".port_pressure")
    loops = [n for n in ast.walk(cv.node) if isinstance(n, ast.For) and U(n.iter) == cv.params()[1]]
    t_ok = bool(tcall) and bool(loops) and U(tcall[0].args[0]) == "%s.port_pressure" % U(loops[0].target)
    kern = [g for g in ast.walk(fd.node) if isinstance(g, ast.comprehension) and U(g.iter) == fd.params()[1]]
    pair("port cell / PortPressure", t_ok and d_ok and bool(kern), cv.where(tcall[0]) if tcall else cv.where(),
         "text prints <line>.port_pressure of every kernel line, dict must enumerate the same attribute over the "
         "model's port list (text ok=%s, dict ok=%s)" % (t_ok, d_ok), recognised=bool(tcall) and bool(loops) and dv is not None)
    # --- CP cell / LatencyCP
    dv = _dict_value(fd, "LatencyCP", "LatencyLCD")
    t = pm.find("M_v = float(self._get_node_by_lineno(M_ln, M_cp).latency_cp)", lc.node)
    if not t:
        t = pm.find("M_v = float(self._get_node_by_lineno(M_ln, M_cp).M_attr)", lc.node)
        t = [x for x in t if U(x[0].targets[0]).startswith("lat_cp") or "cp" in U(x[0].targets[0])]
        t_attr = t[0][1]["M_attr"] if t else None
    else:
        t_attr = "latency_cp"
    pair("CP cell / LatencyCP", dv is not None and _origin_attr(dv) == "latency_cp" and t_attr == "latency_cp", lc.where(),
         "both must read .latency_cp (text reads .%s, dict reads %s)" % (t_attr, U(dv) if dv is not None else None),
         recognised=dv is not None and _origin_attr(dv) is not None and t_attr is not None)
    # the CP cell is shown exactly for lines of the critical path
    call = C.calls_to(cv.node, "_get_lcd_cp_ports")
    cp_guard = bool(call) and len(call[0].args) > 1 and pm.match("M_cp if M_ln in M_lines else None", call[0].args[1]) is not None
    cp_map = False
    if call and not cp_guard:
        # the value looked up in a map keyed by the path's line numbers: None for every other line (that the formatter tests
        # it with `is None` is the cell-presence obligation below)
        for a_ in call[0].args:
            if isinstance(a_, ast.Call) and isinstance(a_.func, ast.Attribute) and a_.func.attr == "get" and isinstance(a_.func.value, ast.Name):
                for d_ in C.assigns_to(cv.node, a_.func.value.id):
                    if isinstance(d_, ast.Assign) and isinstance(d_.value, ast.DictComp) and "latency_cp" in U(d_.value.value) \
                            and U(d_.value.key).endswith(".line_number"):
                        cp_map = True
    pair("CP cell shown for critical-path lines only", cp_guard or cp_map, cv.where(call[0]) if call else cv.where(),
         "the CP cell must be filled iff the line number is in the critical path's line numbers",
         recognised=bool(call) and len(call[0].args) > 1 and (pm.match("M_a if M_b else M_c", call[0].args[1]) is not None
                                                              or isinstance(call[0].args[1], (ast.Name, ast.Attribute))))
    # --- LCD cell / LatencyLCD
    dv = _dict_value(fd, "LatencyLCD", "LatencyCP")
    text_src = pm.find("M_l = {M_i.line_number: M_lat for M_i, M_lat in M_e['dependencies']}", cv.node)
    text_use = bool(call) and bool(text_src) and any(U(a_).startswith(U(text_src[0][1]["M_l"]) + ".get(") for a_ in call[0].args)
    if dv is None:
        pair("LCD cell / LatencyLCD", False, fd.where(), "dict has no LatencyLCD")
    else:
        attr = _origin_attr(dv)
        dict_src = pm.find("M_l = {M_i.line_number: M_lat for M_i, M_lat in M_e['dependencies']}", fd.node)
        via_map = bool(dict_src) and pm.match("float(%s.get(M_x.line_number, M_z))" % U(dict_src[0][1]["M_l"]), dv) is not None
        if via_map:
            z = pm.match("float(%s.get(M_x.line_number, M_z))" % U(dict_src[0][1]["M_l"]), dv)["M_z"]
            pair("LCD cell / LatencyLCD", text_use and C.const_num(z) == 0, fd.where(dv),
                 "dict default for lines outside the selected cycle must be 0")
        elif attr is not None:
            stores = attr_stores(ctx.repo, attr)
            consts = [s for s in stores if isinstance(s[2], ast.Constant) or U(s[2]) == "[]"]
            computed = [s for s in stores if s not in consts]
            pair("LCD cell / LatencyLCD", bool(computed), fd.where(dv),
                 "the dict reads .%s, whose only writers store constants (%s), while the text LCD column shows "
                 "the per-line latencies of the selected loop-carried dependency: LatencyLCD is always %s"
                 % (attr, sorted({U(s[2]) for s in consts}), sorted({U(s[2]) for s in consts})))
        else:
            pair("LCD cell / LatencyLCD", False, fd.where(dv), "unrecognised dict expression %s" % U(dv), recognised=False)
    # --- the LCD cell is shown for every member line (a latency of 0.0 is a value)
    from .c05 import lcd_cell_presence
    lcd_cell_presence(ctx, "R1")
    # --- the same cycle is selected on both sides (ties between equally long cycles are broken by the expression)
    def selection(fi):
        for n in ast.walk(fi.node):
            if isinstance(n, ast.Assign) and isinstance(n.targets[0], ast.Name) and isinstance(n.value, (ast.Call, ast.Subscript)):
                t = U(n.value)
                if "['latency']" in t and ("max(" in t or "min(" in t or "sorted(" in t):
                    d = [a for a in fi.params() if a in t]
                    txt = t
                    for nm in pm.names_in(n.value):
                        if nm in ("max", "min", "sorted"):
                            continue
                    # normalise the dict's name and the lambda parameter
                    lam = [x for x in ast.walk(n.value) if isinstance(x, ast.Lambda)]
                    if lam:
                        txt = txt.replace(lam[0].args.args[0].arg, "K")
                    return n, txt
        return None, None
    tn, tsel = selection(cv)
    dn, dsel = selection(fd)
    if tsel is not None and dsel is not None:
        ddict = U(pm.find("M_d = %s.get_loopcarried_dependencies()" % fd.params()[2], fd.node)[0][1]["M_d"]) if pm.find(
            "M_d = %s.get_loopcarried_dependencies()" % fd.params()[2], fd.node) else "?"
        tsel_n = tsel.replace(cv.params()[3], "D")
        dsel_n = dsel.replace(ddict, "D")

        def sel_class(txt):
            """which of several equally long cycles the expression picks: max()/min() return the FIRST extreme element, a
            stable sort keeps equal elements in their order (also with reverse=True), so sorted(..)[-1] is the LAST maximal
            and sorted(.., reverse=True)[0] the FIRST maximal one"""
            try:
                e = ast.parse(txt, mode="eval").body
            except SyntaxError:
                return None
            idx = None
            if isinstance(e, ast.Subscript) and C.const_num(e.slice) in (0, -1):
                idx, e = C.const_num(e.slice), e.value
            if not (isinstance(e, ast.Call) and isinstance(e.func, ast.Name) and len(e.args) == 1):
                return None
            kw = {k.arg: k.value for k in e.keywords}
            if set(kw) - {"key", "reverse"} or "key" not in kw:
                return None
            base = (U(e.args[0]), U(kw["key"]))
            if e.func.id in ("max", "min") and idx is None and "reverse" not in kw:
                return ("first", e.func.id) + base
            if e.func.id == "sorted" and idx is not None:
                rev = kw.get("reverse")
                if rev is not None and not (isinstance(rev, ast.Constant) and isinstance(rev.value, bool)):
                    return None
                rev = bool(rev.value) if rev is not None else False
                extreme = "max" if (idx == -1) != rev else "min"
                # ascending: [0] first minimal, [-1] last maximal; descending: [0] first maximal, [-1] last minimal
                return ("first" if idx == 0 else "last", extreme) + base
            return None
        tc, dc = sel_class(tsel_n), sel_class(dsel_n)
        if tc is not None and dc is not None:
            tsel_n, dsel_n = repr(tc), repr(dc)
        pair("LCD cell / LatencyLCD: the same cycle is selected", tsel_n == dsel_n, cv.where(tn),
             "text selects with `%s`, dict with `%s`: among several cycles of equal maximal latency the two expressions pick "
             "different ones, so the LCD column marks other lines than LatencyLCD" % (tsel, dsel))
    else:
        pair("LCD cell / LatencyLCD: the same cycle is selected", False, cv.where(), "selection of the longest cycle not found",
             recognised=False)
    # --- summary ports
    def summed(fi):
        """[(call, verdict)] for every get_throughput_sum call: True = the whole kernel is summed, False = another
        collection (a filtered / sliced kernel, something else), None = not understood."""
        kern = fi.params()[1]
        out = []
        for c in C.calls_to(fi.node, "get_throughput_sum"):
            a = C.flow_of(fi).subst(c.args[0]) if c.args else None
            while isinstance(a, ast.Call) and isinstance(a.func, ast.Name) and a.func.id in ("list", "tuple") and len(a.args) == 1:
                a = a.args[0]
            v = None
            if a is None:
                v = None
            elif U(a) == kern:
                v = True
            elif isinstance(a, (ast.ListComp, ast.GeneratorExp)) and len(a.generators) == 1 and U(a.generators[0].iter) == kern:
                g = a.generators[0]
                v = (not g.ifs and U(a.elt) == U(g.target))
                if g.ifs and U(a.elt) == U(g.target) and isinstance(g.target, ast.Name):
                    # a pre-filter that get_throughput_sum applies itself (its own comprehension over its parameter has
                    # the same condition) leaves nothing out that would have been summed
                    def _flt(gen):
                        out_ = set()
                        for c_ in gen.ifs:
                            r_ = ast.parse(U(c_), mode="eval").body
                            for x_ in ast.walk(r_):
                                if isinstance(x_, ast.Name) and x_.id == gen.target.id:
                                    x_.id = "ITEM_"
                            out_ |= C.norm_facts_of_test(r_)
                        return out_
                    callee = ctx.func("ArchSemantics.get_throughput_sum")
                    own = set()
                    for cc in ast.walk(callee.node):
                        if isinstance(cc, (ast.ListComp, ast.GeneratorExp)) and len(cc.generators) == 1 and isinstance(cc.generators[0].target, ast.Name) \
                                and U(cc.generators[0].iter) == callee.params()[0] and cc.generators[0].ifs:
                            own = _flt(cc.generators[0])
                    mine = _flt(g)
                    v = True if (mine and mine <= own) else False
            elif isinstance(a, ast.Subscript) and U(a.value) == kern and isinstance(a.slice, ast.Slice):
                v = U(a.slice) == ":"
            elif isinstance(a, ast.Call) and isinstance(a.func, ast.Name) and a.func.id == "filter":
                v = False
            out.append((c, v, a))
        return out
    tsum = pm.find("M_t = ArchSemantics.get_throughput_sum(M_k)", cv.node)
    dsum = pm.find_any(["M_t = ArchSemantics.get_throughput_sum(M_k) or %s[0].port_pressure" % fd.params()[1],
                        "M_t = ArchSemantics.get_throughput_sum(M_k)"], fd.node)
    dv = _dict_value(fd, "Summary", "Kernel")
    dpp = None
    if isinstance(dv, ast.Dict):
        for k, v in zip(dv.keys, dv.values):
            if isinstance(k, ast.Constant) and k.value == "PortPressure":
                dpp = v
    t_dom, d_dom = summed(cv), summed(fd)
    d_ok = bool(dsum) and dpp is not None and _ports_map_of(dpp) == U(dsum[0][1]["M_t"])
    t_ok = bool(tsum) and any(U(c.args[0]) == U(tsum[0][1]["M_t"]) for c in C.calls_to(cv.node, "_get_port_pressure"))
    whole_t = bool(t_dom) and all(v is True for _, v, _ in t_dom)
    whole_d = bool(d_dom) and all(v is True for _, v, _ in d_dom)
    part = [(fi, c, a) for fi, dom in ((cv, t_dom), (fd, d_dom)) for c, v, a in dom if v is False]
    if part and len(t_dom) == 1 == len(d_dom) and t_dom[0][2] is not None and d_dom[0][2] is not None and \
            U(t_dom[0][2]).replace(cv.params()[1], "K") == U(d_dom[0][2]).replace(fd.params()[1], "K"):
        # both outputs sum the same sub-collection: they agree with each other; whether that is still "the totals" is
        # not something this rule can tell
        ctx.unknown("R1", "summary row / Summary.PortPressure", cv.where(t_dom[0][0]),
                    "text and dict both sum `%s` instead of the whole kernel" % U(t_dom[0][2])[:100])
        part = []
    pair("summary row / Summary.PortPressure", t_ok and d_ok and whole_t and whole_d, part[0][0].where(part[0][1]) if part else cv.where(),
         "both must come from ArchSemantics.get_throughput_sum(<the whole kernel>) (text ok=%s, dict ok=%s)%s" % (
             t_ok, d_ok, "; %s sums `%s`, not every line of the kernel: the two totals (and the column sums of the "
             "per-line cells) differ whenever a left-out line has port pressure" % (part[0][0].qname, U(part[0][2])[:120]) if part else ""),
         recognised=bool(part) or (bool(tsum) and dpp is not None and all(v is True for _, v, _ in t_dom + d_dom)))
    # --- CP total
    fa = ctx.func("Frontend.full_analysis")
    tcp = pm.find("M_s = sum([M_x.latency_cp for M_x in %s])" % cv.params()[2], cv.node)
    dcp = None
    if isinstance(dv, ast.Dict):
        for k, v in zip(dv.keys, dv.values):
            if isinstance(k, ast.Constant) and k.value == "CriticalPath":
                dcp = v
    dsrc = pm.find("M_c = %s.get_critical_path()" % fd.params()[2], fd.node)
    d_ok = dcp is not None and bool(dsrc) and pm.match("sum([M_x.latency_cp for M_x in %s])" % U(dsrc[0][1]["M_c"]), dcp) is not None
    if dcp is not None and not d_ok:
        # the sum held in a local, the path used in place, ...: compare after substituting single definitions
        dsub = C.flow_of(fd).subst(dcp)
        d_ok = pm.match("sum([M_x.latency_cp for M_x in %s.get_critical_path()])" % fd.params()[2], dsub) is not None
    cvcall = C.calls_to(fa.node, "combined_view")
    t_ok = bool(tcp) and bool(cvcall) and len(cvcall[0].args) > 1 and \
        U(C.flow_of(fa).subst(cvcall[0].args[1])) == "%s.get_critical_path()" % fa.params()[2]
    pair("CP total / Summary.CriticalPath", t_ok and d_ok, cv.where(),
         "both must be sum(latency_cp) over get_critical_path() (text ok=%s, dict ok=%s)" % (t_ok, d_ok),
         recognised=dcp is not None and bool(cvcall) and (bool(tcp) or bool(pm.find("M_s = sum([M_x.M_a for M_x in %s])" % cv.params()[2], cv.node))))
    # printed total is that sum
    fmt = [n for n in ast.walk(cv.node) if isinstance(n, ast.Call) and isinstance(n.func, ast.Attribute)
           and n.func.attr == "format" and isinstance(n.func.value, ast.Constant) and "{:>5}" in str(n.func.value.value)]
    if tcp and fmt:
        lcdv = pm.find("M_s = M_d[M_v]['latency']", cv.node)
        import re as _re
        fields = _re.findall(r"\{([^{}]*)\}", str(fmt[0].func.value.value))
        wide = [U(a) for fld, a in zip(fields, fmt[0].args) if fld == ":>5"] if len(fields) == len(fmt[0].args) else None
        ok = wide == [U(tcp[0][1]["M_s"]), U(lcdv[0][1]["M_s"]) if lcdv else "?"]
        pair("summary line prints (CP total, LCD figure)", ok, cv.where(fmt[0]), "printed %s" % [U(a) for a in fmt[0].args],
             recognised=bool(lcdv))
    else:
        pair("summary line prints (CP total, LCD figure)", False, cv.where(), "format call not found", recognised=False)
    # --- LCD figure
    dl = None
    if isinstance(dv, ast.Dict):
        for k, v in zip(dv.keys, dv.values):
            if isinstance(k, ast.Constant) and k.value == "LCD":
                dl = v
    dls = pm.find("M_s = M_d[M_v]['latency']", fd.node)
    pair("LCD figure / Summary.LCD", dl is not None and bool(dls) and U(dl) == U(dls[0][1]["M_s"]), fd.where(),
         "Summary.LCD must be the latency of the selected cycle (selection agreement is C05-R7)",
         recognised=dl is not None and (bool(dls) or isinstance(dl, ast.Constant)))
    # both use the same dependency dict
    dd = pm.find("M_d = %s.get_loopcarried_dependencies()" % fd.params()[2], fd.node)
    t_dd = bool(cvcall) and len(cvcall[0].args) > 2 and \
        U(C.flow_of(fa).subst(cvcall[0].args[2])) == "%s.get_loopcarried_dependencies()" % fa.params()[2]
    pair("LCD source / get_loopcarried_dependencies()", bool(dd) and t_dd, fa.where(),
         "text and dict must both start from get_loopcarried_dependencies()")
    lcd_list(ctx, "R1")


def lcd_list(ctx, rule="R1"):
    """The list-based LCD report prints every entry of get_loopcarried_dependencies() once, with latency and member lines
    (shared with C05: 'each cycle is reported once')."""
    fa = ctx.func("Frontend.full_analysis")

    def pair(name, ok, where, detail, recognised=True):
        ctx.judge(ok, recognised, rule, name, where, "text report and dict disagree on %s: %s" % (name, detail),
                  "Frontend", "pair " + name)
    # --- LCD list
    ll = ctx.func("Frontend.loopcarried_dependencies")
    dep = ll.params()[1]
    loops = [n for n in ast.walk(ll.node) if isinstance(n, ast.For)]
    ok = len(loops) == 1 and U(loops[0].iter) in ("sorted(%s.keys())" % dep, "sorted(%s)" % dep, "%s" % dep, "%s.keys()" % dep)
    keyvar = U(loops[0].target) if len(loops) == 1 else None
    if len(loops) == 1 and not ok:
        # the keys taken through a helper dict / list that holds every key once: `for k, extra in helper.items()`
        it_ = loops[0].iter
        tg_ = loops[0].target
        if isinstance(it_, ast.Call) and isinstance(it_.func, ast.Attribute) and it_.func.attr == "items" and isinstance(tg_, ast.Tuple) and len(tg_.elts) == 2:
            keyvar = U(tg_.elts[0])
        # (whether the domain is every entry is decided by domain() below)
        ok = isinstance(tg_, (ast.Name, ast.Tuple))
    list_rec_unknown = False
    if ok:
        k = keyvar
        body = U(loops[0])
        ok = ("%s[%s]['latency']" % (dep, k)) in body and (
            "[node.line_number for node, lat in %s[%s]['dependencies']]" % (dep, k)) in body.replace('"', "'")
        # an entry held in a local / other spellings of the member list: the rule does not follow them
        list_rec_unknown = not ok and ("['latency']" in body and "['dependencies']" in body)
    lcall = C.calls_to(fa.node, "loopcarried_dependencies")
    ok = ok and bool(lcall) and bool(lcall[0].args) and U(C.flow_of(fa).subst(lcall[0].args[0])) == "%s.get_loopcarried_dependencies()" % fa.params()[2]
    # is the iteration domain all entries of the dict?  True / False (entries can collapse or be cut) / None (not understood)
    def domain(e, depth=0):
        while isinstance(e, ast.Call) and isinstance(e.func, ast.Name) and e.func.id in ("sorted", "list", "reversed", "tuple") and e.args:
            e = e.args[0]
        if isinstance(e, ast.Call) and isinstance(e.func, ast.Attribute) and e.func.attr in ("keys", "items", "values") and not e.args:
            e = e.func.value
        if isinstance(e, ast.Name) and e.id == dep:
            return True
        if isinstance(e, (ast.DictComp, ast.SetComp)) and len(e.generators) == 1 and domain(e.generators[0].iter, depth + 1):
            # a table / set built from the entries, used in place: keyed by something else, entries with the same key collapse
            key_ = e.key if isinstance(e, ast.DictComp) else e.elt
            tgt_ = e.generators[0].target
            return U(key_) == U(tgt_) or (isinstance(tgt_, ast.Tuple) and U(key_) == U(tgt_.elts[0]))
        if isinstance(e, ast.Subscript):
            return False if U(e.value).startswith(("sorted(", dep)) or domain(e.value, depth + 1) else None
        if isinstance(e, ast.Name) and depth < 2:
            ds = [a for a in C.assigns_to(ll.node, e.id) if isinstance(a, ast.Assign)]
            if len(ds) == 1:
                v = ds[0].value
                if isinstance(v, (ast.DictComp, ast.SetComp)) and len(v.generators) == 1 and domain(v.generators[0].iter, depth + 1):
                    key = v.key if isinstance(v, ast.DictComp) else v.elt
                    tgt = v.generators[0].target
                    same = U(key) == U(tgt) or (isinstance(tgt, ast.Tuple) and U(key) == U(tgt.elts[0]))
                    return True if same else False      # keyed by something else: entries with the same key collapse
                if isinstance(v, ast.ListComp) and len(v.generators) == 1 and not v.generators[0].ifs:
                    return domain(v.generators[0].iter, depth + 1)
                return domain(v, depth + 1)
        return None
    dom = domain(loops[0].iter) if len(loops) == 1 else None
    if dom is not True:
        ok = False
    pair("LCD list / every loop-carried dependency with latency and member lines", ok, ll.where(),
         "the list must iterate all keys and print each entry's latency and member line numbers",
         recognised=len(loops) == 1 and dom is not None and not (dom and list_rec_unknown))


def _r2(ctx):
    ctx.rule("R2", "both outputs are produced from one analysis")
    f = ctx.func("osaca.inspect")
    t = C.calls_to(f.node, "full_analysis")
    d = C.calls_to(f.node, "full_analysis_dict")
    if len(t) != 1 or len(d) != 1:
        ctx.broken("R2: inspect does not call full_analysis and full_analysis_dict once each")
    ctx.check([U(a) for a in t[0].args[:2]] == [U(a) for a in d[0].args[:2]] and U(t[0].func.value) == U(d[0].func.value),
              "R2", "same frontend, kernel and graph", f.where(d[0]),
              "text and dict are produced from different objects: %s vs %s" % (
                  [U(a) for a in t[0].args[:2]], [U(a) for a in d[0].args[:2]]), f.qname, "same analysis objects")
    tk = {k.arg: U(k.value) for k in t[0].keywords}
    dk = {k.arg: U(k.value) for k in d[0].keywords}
    fa_, fd_ = ctx.func("Frontend.full_analysis"), ctx.func("Frontend.full_analysis_dict")
    for w in ("arch_warning", "length_warning", "lcd_warning"):
        # what each output works with: the argument, or what the callee derives itself when it is not given
        te, de = C.effective_argument(f, t[0], fa_, w), C.effective_argument(f, d[0], fd_, w)
        ctx.judge(te is not None and te == de and te not in ("None", "False"), te is not None and de is not None, "R2",
                  "%s identical for both outputs" % w, f.where(d[0]),
                  "%s differs: text %s, dict %s" % (w, te, de), f.qname, "flag " + w)
    # the kernel handed over is the analysed one
    kname = U(t[0].args[0])
    sem = C.calls_to(f.node, "add_semantics")
    kd = [c for c in ast.walk(f.node) if isinstance(c, ast.Call) and pm.call_name(c) == "KernelDG"]
    ctx.check(bool(sem) and U(sem[0].args[0]) == kname and bool(kd) and U(kd[0].args[0]) == kname, "R2",
              "the reported kernel is the one that was analysed", f.where(),
              "add_semantics / KernelDG / report do not use the same kernel list", f.qname, "kernel identity")


def _flag_pred(e, var):
    """Predicate over the flags of one line, as the frozenset of satisfying assignments (frozensets of flag names), for
    `F in <var>.flags`, `{A, B}.issubset(<var>.flags)`, `all/any(f in <var>.flags for f in (A, B))`, not / and / or.
    `var` None: the flags container is any expression. Returns (atoms, function assignment -> bool) or None."""
    def is_flags(x):
        t = U(x)
        return t.endswith(".flags") and (var is None or t == var + ".flags") or t in ("flags", "flag_obj", "set(%s.flags)" % var)

    def flagname(x):
        t = U(x)
        return t if t.startswith("INSTR_FLAGS.") else None

    def lits(x):
        if isinstance(x, (ast.Set, ast.Tuple, ast.List)) and all(flagname(y) for y in x.elts):
            return [flagname(y) for y in x.elts]
        return None

    def go(x):
        if isinstance(x, ast.UnaryOp) and isinstance(x.op, ast.Not):
            r = go(x.operand)
            return None if r is None else (r[0], lambda a, f=r[1]: not f(a))
        if isinstance(x, ast.BoolOp):
            parts = [go(v) for v in x.values]
            if any(p is None for p in parts):
                return None
            atoms = set().union(*[p[0] for p in parts])
            fs = [p[1] for p in parts]
            if isinstance(x.op, ast.And):
                return atoms, lambda a: all(f(a) for f in fs)
            return atoms, lambda a: any(f(a) for f in fs)
        if isinstance(x, ast.Compare) and len(x.ops) == 1:
            l, r, op = x.left, x.comparators[0], x.ops[0]
            if isinstance(op, (ast.In, ast.NotIn)) and flagname(l) and is_flags(r):
                n = flagname(l)
                pos = isinstance(op, ast.In)
                return {n}, (lambda a: (n in a) == pos)
            if isinstance(op, ast.LtE) and lits(l) and (is_flags(r) or (isinstance(r, ast.Call) and r.args and is_flags(r.args[0]))):
                ns = lits(l)
                return set(ns), lambda a: all(n in a for n in ns)
        if isinstance(x, ast.Call) and isinstance(x.func, ast.Attribute) and x.func.attr in ("issubset", "isdisjoint") and lits(x.func.value) \
                and len(x.args) == 1 and is_flags(x.args[0]):
            ns = lits(x.func.value)
            if x.func.attr == "issubset":
                return set(ns), lambda a: all(n in a for n in ns)
            return set(ns), lambda a: not any(n in a for n in ns)
        if isinstance(x, ast.Call) and isinstance(x.func, ast.Name) and x.func.id in ("all", "any") and len(x.args) == 1 \
                and isinstance(x.args[0], (ast.GeneratorExp, ast.ListComp)) and len(x.args[0].generators) == 1:
            g = x.args[0].generators[0]
            ns = lits(g.iter)
            el = x.args[0].elt
            if ns and isinstance(el, ast.Compare) and len(el.ops) == 1 and isinstance(el.ops[0], ast.In) and U(el.left) == U(g.target) \
                    and is_flags(el.comparators[0]) and not g.ifs:
                if x.func.id == "all":
                    return set(ns), lambda a: all(n in a for n in ns)
                return set(ns), lambda a: any(n in a for n in ns)
        return None
    return go(e)


def _line_pred_of_kernel_expr(e, kernel):
    """(kind, predicate) for an expression over the kernel: kind 'exists' (some line satisfies P) or 'count' (number of lines
    satisfying P); None when not recognised."""
    # F in [flag for instr in kernel for flag in instr.flags]
    if isinstance(e, ast.Compare) and len(e.ops) == 1 and isinstance(e.ops[0], ast.In) and U(e.left).startswith("INSTR_FLAGS."):
        c = e.comparators[0]
        if isinstance(c, (ast.ListComp, ast.GeneratorExp, ast.SetComp)) and len(c.generators) == 2 and U(c.generators[0].iter) == kernel \
                and U(c.generators[1].iter) == U(c.generators[0].target) + ".flags" and U(c.elt) == U(c.generators[1].target) \
                and not c.generators[0].ifs and not c.generators[1].ifs:
            n = U(e.left)
            return "exists", ({n}, lambda a: n in a)
    inner, kind = e, "exists"
    if isinstance(e, ast.Call) and isinstance(e.func, ast.Name) and e.func.id == "len" and len(e.args) == 1:
        inner, kind = e.args[0], "count"
    elif isinstance(e, ast.Call) and isinstance(e.func, ast.Name) and e.func.id == "sum" and len(e.args) == 1 \
            and isinstance(e.args[0], (ast.GeneratorExp, ast.ListComp)) and C.const_num(e.args[0].elt) == 1:
        inner, kind = e.args[0], "count"        # sum(1 for x in kernel if P) counts like len([.. if P])
    elif isinstance(e, ast.Call) and isinstance(e.func, ast.Name) and e.func.id == "sum" and len(e.args) == 1 \
            and isinstance(e.args[0], (ast.GeneratorExp, ast.ListComp)) and len(e.args[0].generators) == 1 \
            and not e.args[0].generators[0].ifs and U(e.args[0].generators[0].iter) == kernel:
        # sum(P(x) for x in kernel): a count of the lines satisfying P
        g0 = e.args[0]
        p0 = _flag_pred(g0.elt, U(g0.generators[0].target))
        if p0 is not None:
            return "count", p0
    if isinstance(inner, ast.Compare) and len(inner.ops) == 1 and isinstance(inner.ops[0], (ast.Gt, ast.NotEq)) and C.const_num(inner.comparators[0]) == 0:
        r = _line_pred_of_kernel_expr(inner.left, kernel)
        return ("exists", r[1]) if r and r[0] == "count" else None
    if isinstance(inner, ast.Call) and isinstance(inner.func, ast.Name) and inner.func.id in ("any", "bool", "list") and len(inner.args) == 1:
        if inner.func.id == "any" and isinstance(inner.args[0], (ast.GeneratorExp, ast.ListComp)):
            g = inner.args[0]
            if len(g.generators) == 1 and U(g.generators[0].iter) == kernel and not g.generators[0].ifs:
                p = _flag_pred(g.elt, U(g.generators[0].target))
                return ("exists", p) if p else None
        else:
            inner = inner.args[0]
    if isinstance(inner, (ast.ListComp, ast.GeneratorExp)) and len(inner.generators) == 1 and U(inner.generators[0].iter) == kernel \
            and len(inner.generators[0].ifs) >= 1:
        g = inner.generators[0]
        conds = [_flag_pred(c, U(g.target)) for c in g.ifs]
        if any(c is None for c in conds):
            return None
        atoms = set().union(*[c[0] for c in conds])
        fs = [c[1] for c in conds]
        return kind, (atoms, lambda a: all(f(a) for f in fs))
    return None


def _through_helper(ctx, owner, e):
    """`self.helper(args)` / `helper(args)` whose body ends in one `return <expr>`: that expression with the helper's own
    locals substituted and its parameters replaced by the arguments; other expressions unchanged."""
    if not (isinstance(e, ast.Call) and not e.keywords):
        return e
    name = e.func.attr if isinstance(e.func, ast.Attribute) and U(e.func.value) in ("self", "cls") else (
        e.func.id if isinstance(e.func, ast.Name) else None)
    if name is None:
        return e
    h = ctx.repo.funcs.get("%s.%s" % (owner.cls.name, name)) if owner.cls is not None and isinstance(e.func, ast.Attribute) else \
        ctx.repo.funcs.get("%s.%s" % (owner.module.stem, name))
    if h is None:
        return e
    rets = [n for n in ast.walk(h.node) if isinstance(n, ast.Return)]
    if len(rets) != 1 or rets[0].value is None or rets[0] is not h.node.body[-1]:
        return e
    params = [p for p in h.params() if p not in ("self", "cls")]
    if len(params) != len(e.args):
        return e
    val = C.flow_of(h).subst(rets[0].value)
    amap = dict(zip(params, e.args))

    class R(ast.NodeTransformer):
        def visit_Name(self, n):
            return amap[n.id] if n.id in amap and isinstance(n.ctx, ast.Load) else n
    import copy
    return R().visit(copy.deepcopy(val))


def _pred_equal(p, q):
    import itertools
    atoms = sorted(p[0] | q[0])
    for r in range(len(atoms) + 1):
        for comb in itertools.combinations(atoms, r):
            a = frozenset(comb)
            if bool(p[1](a)) != bool(q[1](a)):
                return False, a
    return True, None


def _fold_flags(ctx, fn, nflags):
    """{tuple of flag values: returned string} of a report helper that only concatenates constants depending on its boolean
    parameters (folded, not run); None when it is not foldable."""
    import itertools
    from .. import consteval
    g = dict(fn.module.globals)
    cls_consts = {}
    if fn.cls is not None:
        for k in ctx.repo.mro(fn.cls.name):
            for a_, v_ in ctx.repo.cls(k).class_attrs.items():
                cls_consts.setdefault(a_, v_)
    out = {}
    for combo in itertools.product((True, False), repeat=nflags):
        selfobj = consteval.Obj()
        for a_, v_ in cls_consts.items():
            try:
                selfobj[a_] = consteval.ev(v_, {"__globals__": g})
            except (consteval.Unsupported, consteval.Raised):
                pass
        try:
            kind, val = consteval.call(fn.node, selfobj, *combo, globals=g)
        except consteval.Unsupported:
            return None
        if kind != "return" or not isinstance(val, str):
            return None
        out[combo] = val
    return out


def _warn_conditions(fd):
    """{warning name: condition expression} of the dict output's warning list: `if c: warnings.append('Name')` statements, or a
    comprehension over a table of (flag, name) / (name, flag) pairs filtered by the flag."""
    flow = C.flow_of(fd)
    out = {}
    for c in ast.walk(fd.node):
        if isinstance(c, ast.Call) and isinstance(c.func, ast.Attribute) and c.func.attr == "append" and len(c.args) == 1 \
                and isinstance(c.args[0], ast.Constant) and str(c.args[0].value).endswith("Warning"):
            pos = [e for e, pol in C.norm_fact_nodes(c) if pol]
            neg = [e for e, pol in C.norm_fact_nodes(c) if not pol]
            if len(pos) == 1 and not neg:
                out[c.args[0].value] = pos[0]
    for comp in [n for n in ast.walk(fd.node) if isinstance(n, ast.ListComp) and len(n.generators) == 1]:
        g = comp.generators[0]
        if not (isinstance(g.target, ast.Tuple) and len(g.target.elts) == 2 and len(g.ifs) == 1 and isinstance(g.ifs[0], ast.Name)
                and isinstance(comp.elt, ast.Name)):
            continue
        names = [U(t) for t in g.target.elts]
        if comp.elt.id not in names or g.ifs[0].id not in names or comp.elt.id == g.ifs[0].id:
            continue
        ni, fi_ = names.index(comp.elt.id), names.index(g.ifs[0].id)
        table = g.iter
        if isinstance(table, ast.Name):
            try:
                ds = [d for d in flow.reaching(comp, table.id) if d.kind == "assign"]
            except KeyError:
                ds = []
            table = ds[0].value if len(ds) == 1 else None
        if isinstance(table, (ast.Tuple, ast.List)) and all(isinstance(r, ast.Tuple) and len(r.elts) == 2 for r in table.elts):
            for r in table.elts:
                if isinstance(r.elts[ni], ast.Constant) and isinstance(r.elts[ni].value, str):
                    out[r.elts[ni].value] = r.elts[fi_]
    return out


def _r3_semantic(ctx, cv, br):
    """Unknown-line predicates of trigger, count, X mark and dict warning compared as boolean functions of the flags.
    Returns True when it could judge (then the textual rules are skipped)."""
    kern = cv.params()[1]
    flow = C.flow_of(cv)
    fs = ctx.func("Frontend._get_flag_symbols")
    marks = [b for n, b in pm.find("M_s += 'X' if M_c else ''", fs.node)]
    if len(marks) != 1:
        return False
    mark = _flag_pred(marks[0]["M_c"], None)
    if mark is None:
        return False
    call = C.calls_to(br, "_missing_instruction_error")
    if not call:
        return False
    # the conditions under which the warning is produced (whichever branch it sits on, however the test is written)
    nf = C.norm_fact_nodes(call[0])
    ign = [e for e, pol in nf if (not pol) and U(e) == cv.params()[4]]
    rest = [flow.subst(e) for e, pol in nf if pol and U(e) != cv.params()[4]]
    others = [e for e, pol in nf if (not pol) and U(e) != cv.params()[4]]
    if len(ign) != 1 or len(rest) != 1 or others:
        return False
    trig = _line_pred_of_kernel_expr(_through_helper(ctx, cv, rest[0]), kern)
    cnt = _line_pred_of_kernel_expr(_through_helper(ctx, cv, flow.subst(call[0].args[0])), kern) if call and call[0].args else None
    fd = ctx.func("Frontend.full_analysis_dict")
    wc = _warn_conditions(fd).get("UnknownInstrWarning")
    w = [wc] if wc is not None else []
    dct = _line_pred_of_kernel_expr(_through_helper(ctx, fd, C.flow_of(fd).subst(wc)), fd.params()[1]) if wc is not None else None
    if trig is None or cnt is None or dct is None or trig[0] != "exists" or cnt[0] != "count" or dct[0] != "exists":
        return False

    def name(a):
        return "{%s}" % ", ".join(sorted(x.replace("INSTR_FLAGS.", "") for x in a)) if a else "no flag"
    for what, p, fn, node in (("missing-data branch is taken iff some line carries the X mark's flag", trig[1], cv, br),
                              ("the number in the warning counts the lines marked X", cnt[1], cv, call[0]),
                              ("dict UnknownInstrWarning iff some line carries the X mark's flag", dct[1], fd, w[0])):
        eq, a = _pred_equal(p, mark)
        ctx.check(eq, "R3", what, fn.where(node),
                  "%s: for a line whose flags are %s the X mark says %s but this test says %s - e.g. a memory form composed from a "
                  "register form with `throughput: ~` (zen1 sqrtsd) carries TP_UNKWN without LT_UNKWN: it is marked X, yet %s"
                  % (what, name(a), "missing" if a is not None and mark[1](a) else "present",
                     "missing" if a is not None and p[1](a) else "present",
                     "the warning does not count it / the totals are printed without --ignore-unknown") if not eq else "",
                  fn.qname, "unknown-line predicate: " + what[:40])
    return True


def _r3(ctx):
    ctx.rule("R3", "unknown-instruction branch, its count and the X mark use the same flag; totals on the other branch")
    cv = ctx.func("Frontend.combined_view")
    ifs = [n for n in ast.walk(cv.node) if isinstance(n, ast.If) and C.calls_to(n, "_missing_instruction_error")]
    if len(ifs) != 1:
        ctx.broken("R3: missing-data branch not found in combined_view")
    br = ifs[0]
    semantic = _r3_semantic(ctx, cv, br)
    parts = [U(v) for v in br.test.values] if isinstance(br.test, ast.BoolOp) and isinstance(br.test.op, ast.And) else []
    trig = [p for p in parts if p.startswith("INSTR_FLAGS.") and " in [" in p]
    ok = ("not " + cv.params()[4]) in parts and len(trig) == 1 and len(parts) == 2
    flag = trig[0].split(" in ")[0] if trig else None
    trig_rec = len(trig) == 1
    ctx.judge(semantic or (ok and flag == "INSTR_FLAGS.TP_UNKWN"), trig_rec, "R3", "trigger = not ignore_unknown and TP_UNKWN among the kernel's flags",
              cv.where(br), "the missing-data branch is not `not ignore_unknown and INSTR_FLAGS.TP_UNKWN in <all flags>` "
              "(test: %s)" % U(br.test)[:160], cv.qname, "unknown trigger")
    cnt = pm.find("M_n = len([M_i.flags for M_i in %s if M_f in M_i.flags])" % cv.params()[1], br)
    cnt_any = cnt or pm.find("M_n = len([M_e for M_i in %s if M_c])" % cv.params()[1], br)
    ctx.judge(semantic or (bool(cnt) and U(cnt[0][1]["M_f"]) == flag), bool(cnt_any) and trig_rec, "R3", "warning counts the lines carrying that flag", cv.where(br),
              "the number in the warning is not the count of lines with %s" % flag, cv.qname, "unknown count")
    if cnt:
        call = C.calls_to(br, "_missing_instruction_error")[0]
        ctx.check(U(call.args[0]) == U(cnt[0][1]["M_n"]), "R3", "the count is what the warning prints", cv.where(call),
                  "the warning is given %s" % U(call.args[0]), cv.qname, "count passed")
    # totals on the else branch only
    err_in_body = any(C.calls_to(s, "_missing_instruction_error") for s in br.body)
    err_branch, other_branch = (br.body, br.orelse) if err_in_body else (br.orelse, br.body)
    tot_in_else = any(C.calls_to(s, "get_throughput_sum") for s in other_branch)
    tot_in_body = any(C.calls_to(s, "get_throughput_sum") for s in err_branch)
    tot_elsewhere = [c for c in C.calls_to(cv.node, "get_throughput_sum") if not C.in_subtree(c, br)]
    # (an early return at the end of the missing-data branch makes the rest of the function its else branch)
    tail_is_else = err_in_body and not br.orelse and br.body and isinstance(br.body[-1], ast.Return)
    if tail_is_else:
        after = [c for c in tot_elsewhere if C.cfg_of(cv).dominates(br, c)]
        tot_in_else, tot_elsewhere = bool(after), [c for c in tot_elsewhere if c not in after]
    ctx.check(tot_in_else and not tot_in_body and not tot_elsewhere, "R3", "totals are printed exactly on the other branch",
              cv.where(br), "summary totals are computed/printed outside the else branch of the missing-data test",
              cv.qname, "totals branch")
    fs = ctx.func("Frontend._get_flag_symbols")
    x = pm.find("M_s += 'X' if M_f in M_o else ''", fs.node)
    ctx.judge(semantic or (bool(x) and U(x[0][1]["M_f"]) == flag), bool(x) and trig_rec, "R3", "X marks lines carrying that flag", fs.where(),
              "the X mark is keyed on %s, the branch on %s" % (U(x[0][1]["M_f"]) if x else None, flag), fs.qname, "X mark")
    # mark shown for instruction lines
    mk = [c for c in C.calls_to(cv.node, "_get_flag_symbols")]
    ctx.check(bool(mk) and U(mk[0].args[0]).endswith(".flags"), "R3", "marks are computed from the line's flags",
              cv.where(), "flag symbols are not computed from the line's flags", cv.qname, "mark source")
    # threading of --ignore-unknown
    f = ctx.func("osaca.inspect")
    fa = ctx.func("Frontend.full_analysis")
    t = C.calls_to(f.node, "full_analysis")[0]
    kw = {k.arg: k.value for k in t.keywords}
    flow = C.flow_of(f)
    thr = "ignore_unknown" in kw and any("args.ignore_unknown" in o for o in flow.origin_text(kw["ignore_unknown"]))
    cvc = C.calls_to(fa.node, "combined_view")
    thr2 = bool(cvc) and len(cvc[0].args) >= 4 and U(cvc[0].args[3]) == "ignore_unknown"
    ctx.check(thr and thr2, "R3", "--ignore-unknown is threaded to the branch", f.where(t),
              "args.ignore_unknown does not reach combined_view's ignore_unknown", f.qname, "ignore_unknown threading")
    # dict: UnknownInstrWarning keyed on the same flag
    fd = ctx.func("Frontend.full_analysis_dict")
    w = [n for n in ast.walk(fd.node) if isinstance(n, ast.If) and any("UnknownInstrWarning" in U(s) for s in n.body)]
    ctx.judge(semantic or (bool(w) and U(w[0].test).startswith(str(flag) + " in ")), bool(w) and trig_rec and " in " in U(w[0].test), "R3",
              "dict warning keyed on the same flag",
              fd.where(), "UnknownInstrWarning is not keyed on %s" % flag, fd.qname, "dict unknown warning")


def _r4(ctx):
    ctx.rule("R4", "warning flags: arch <=> no --arch; length <=> unmarked, > 100 lines, no --lines; lcd = timed_out")
    f = ctx.func("osaca.inspect")
    t = C.calls_to(f.node, "full_analysis")[0]
    kw = {k.arg: k.value for k in t.keywords}
    flow = C.flow_of(f)

    class _Val:     # a flag passed as an expression instead of a local: the expression is its only definition
        def __init__(self, v):
            self.value, self.lineno, self.col_offset = v, getattr(v, "lineno", 1), 0
            self._parent = getattr(v, "_parent", None)

    def defs(name):
        return [a for a in C.assigns_to(f.node, name)]

    def flag_defs(key):
        if key not in kw:
            return []
        return defs(U(kw[key])) if isinstance(kw[key], ast.Name) else [kw[key]]
    aw = [a if isinstance(a, ast.stmt) else _Val(a) for a in flag_defs("arch_warning")]
    ok = len(aw) == 1 and U(aw[0].value) in [C.CT(t) for t in (
        "False if args.arch else True", "not args.arch", "args.arch is None", "True if not args.arch else False",
        "True if args.arch is None else False")]
    ctx.judge(ok, len(aw) == 1, "R4", "arch warning exactly when no --arch was given", f.where(aw[0].value) if aw else f.where(),
              "arch_warning is %s" % ([U(a.value) for a in aw]), f.qname, "arch warning definition")
    # "no --arch was given" is read from args.arch: the options object must still say what the user typed when the flag is
    # derived - no store into args.arch may reach the derivation, neither in this activation nor through a call of inspect
    # itself with the edited object
    argn = f.params()[0]
    cfg_i = C.cfg_of(f)
    stores = [n for n in ast.walk(f.node) if isinstance(n, (ast.Assign, ast.AugAssign)) and any(
        isinstance(t_, ast.Attribute) and U(t_) == "%s.arch" % argn for t_ in (n.targets if isinstance(n, ast.Assign) else [n.target]))]
    stores += [cfg_i.node_of(c_) for c_ in ast.walk(f.node) if isinstance(c_, ast.Call) and pm.call_name(c_) == "setattr" and len(c_.args) == 3
               and U(c_.args[0]) == argn and isinstance(c_.args[1], ast.Constant) and c_.args[1].value == "arch"]
    rec = [cfg_i.node_of(c_) for c_ in ast.walk(f.node) if isinstance(c_, ast.Call) and pm.call_name(c_) in ("inspect", "osaca.inspect")
           and any(U(a_) == argn for a_ in list(c_.args) + [k_.value for k_ in c_.keywords])]
    for st_ in stores:
        targets_ = [a for a in aw if isinstance(a, ast.stmt)] + rec
        hit = [t_ for t_ in targets_ if t_ is not st_ and cfg_i.reachable(st_, t_)]
        ctx.check(not hit, "R4", "args.arch still is what the user typed where the arch warning is derived", f.where(st_),
                  "`%s` edits the options object and %s: the run then believes --arch was given, and the no-micro-architecture warning "
                  "(text) / ArchWarning (dict) is lost although a default model is used" % (
                      U(st_)[:80], "inspect is called again with it" if hit and hit[0] in rec else "the warning flag is derived afterwards"),
                  f.qname, "args.arch edited before the arch warning")
    lw = [a for a in flag_defs("length_warning") if isinstance(a, ast.stmt)]
    # The condition under which the flag ends up True, whatever the spelling (two-armed if, default False then override,
    # conditional expression, `if cond: flag = True`): for every definition the conjuncts (its guards + its value's test);
    # a constant-False definition contributes nothing.
    aliases = {U(a.value) for a in C.assigns_to(f.node, "kernel") if isinstance(a, ast.Assign) and isinstance(a.value, ast.Name)}
    norm = lambda t: re.sub(r"\b(%s)\b" % "|".join(re.escape(x) for x in aliases), "kernel", t) if aliases else t
    true_conds, understood = [], bool(lw)
    for a in lw:
        guards = C.norm_facts(a)
        v = a.value
        test = v.test if isinstance(v, ast.IfExp) and U(v.body) == "True" and U(v.orelse) == "False" else v
        if isinstance(test, ast.Constant) and test.value is False:
            continue
        if isinstance(test, ast.Constant) and test.value is True:
            own = set()
        elif isinstance(test, ast.BoolOp) and isinstance(test.op, ast.And):
            own = {(C.CT(U(x)), True) for x in test.values}
        elif isinstance(test, ast.Compare):
            own = {(C.CT(U(test)), True)}
        else:
            understood = False
            continue
        true_conds.append({(norm(t), p_) for t, p_ in (guards | own)})
    eq = C.canon_eq("len(kernel)", "len(parsed_code)")
    want_sets = [{("args.lines", False), (eq, True), (C.CT("len(kernel) > 100"), True)},
                 {("args.lines", False), (eq, True), (C.CT("len(parsed_code) > 100"), True)}]
    # guards that hold on every path to the analysis anyway (e.g. the parse succeeded) are not part of the condition
    base_facts = {(norm(t), p_) for t, p_ in C.norm_facts(lw[0])} if lw else set()
    common = set.intersection(*[{(norm(t), p_) for t, p_ in C.norm_facts(a)} for a in lw]) if lw else set()
    good = understood and len(true_conds) == 1 and (true_conds[0] - common) in want_sets
    ctx.judge(good, understood and len(true_conds) >= 1, "R4", "length warning exactly when unmarked, more than 100 parsed lines, no --lines",
              f.where(lw[0]) if lw else f.where(), "length_warning is True under %s (definitions: %s)" % (
                  [sorted(("" if p_ else "not ") + t for t, p_ in (c - common)) for c in true_conds], [U(a.value) for a in lw]), f.qname,
              "length warning definition")
    kern = [a for a in C.assigns_to(f.node, "kernel") if C.is_call_to(a.value, "reduce_to_section")]
    if not kern:
        # through an alias: K = reduce_to_section(...); kernel = K
        for a in C.assigns_to(f.node, "kernel"):
            if isinstance(a, ast.Assign) and isinstance(a.value, ast.Name):
                kern += [b for b in C.assigns_to(f.node, a.value.id) if C.is_call_to(b.value, "reduce_to_section")]
    ctx.check(bool(kern) and U(kern[0].value.args[0]) == "parsed_code", "R4", "'unmarked' is judged against the parsed file",
              f.where(), "kernel is not reduce_to_section(parsed_code, ...)", f.qname, "unmarked comparison")
    lcdw = None
    if "lcd_warning" in kw:
        o = flow.origin_text(kw["lcd_warning"])
        lcdw = sorted(o)
    else:
        eff_ = C.effective_argument(f, t, ctx.func("Frontend.full_analysis"), "lcd_warning")
        lcdw = [eff_] if eff_ not in (None, "None") else None
    ctx.judge(lcdw is not None and len(lcdw) == 1 and lcdw[0].endswith(".timed_out"), lcdw is not None, "R4",
              "LCD warning = the graph's timed_out flag",
              f.where(t), "lcd_warning originates from %s" % lcdw, f.qname, "lcd warning")
    # consumers
    h = ctx.func("Frontend._user_warnings_header")
    folded = _fold_flags(ctx, h, 2)
    A_TXT, L_TXT = "No micro-architecture was specified", "large amount of instruction forms"
    if folded is not None:
        # the header as a function of the two flags (the function only puts constants together)
        for i_, (p, txt, label) in enumerate(((h.params()[1], A_TXT, "arch_text"), (h.params()[2], L_TXT, "length_text"))):
            okf = all((txt in v_) == combo[i_] for combo, v_ in folded.items())
            ctx.check(okf, "R4", "%s shown iff %s" % (label, p), h.where(),
                      "header does not show the %s warning exactly when %s: %s" % (label.split("_")[0], p, {c_: (txt in v_) for c_, v_ in folded.items()}),
                      h.qname, "header " + label)
        ctx.ok("R4", "arch_text is the no-micro-architecture warning", h.where())
        ctx.ok("R4", "length_text is the large-kernel warning", h.where())
    else:
        for p, txt in ((h.params()[1], "arch_text"), (h.params()[2], "length_text")):
            ctx.judge(bool(pm.find("M_w += %s if %s else ''" % (txt, p), h.node)), bool(pm.find("M_w += M_t if M_c else ''", h.node)),
                      "R4", "%s shown iff %s" % (txt, p), h.where(),
                      "header does not append %s exactly when %s" % (txt, p), h.qname, "header " + txt)
        arch_txt = [a for a in C.assigns_to(h.node, "arch_text")]
        ctx.check(bool(arch_txt) and A_TXT in " ".join(C.str_consts(arch_txt[0])), "R4",
                  "arch_text is the no-micro-architecture warning", h.where(), "arch_text changed", h.qname, "arch text")
        len_txt = [a for a in C.assigns_to(h.node, "length_text")]
        ctx.check(bool(len_txt) and L_TXT in " ".join(C.str_consts(len_txt[0])), "R4",
                  "length_text is the large-kernel warning", h.where(), "length_text changed", h.qname, "length text")
    fa = ctx.func("Frontend.full_analysis")
    hc = C.calls_to(fa.node, "_user_warnings_header")
    fc = C.calls_to(fa.node, "_user_warnings_footer")
    ctx.check(bool(hc) and [U(a) for a in hc[0].args] == ["arch_warning", "length_warning"] and bool(fc)
              and [U(a) for a in fc[0].args] == ["lcd_warning"], "R4", "full_analysis passes the three flags on", fa.where(),
              "full_analysis does not hand (arch_warning, length_warning) / (lcd_warning) to header / footer", fa.qname,
              "flag passing")
    ft = ctx.func("Frontend._user_warnings_footer")
    ffold = _fold_flags(ctx, ft, 1)
    if ffold is not None:
        foot = all(("LCD analysis timed out" in v_) == combo[0] for combo, v_ in ffold.items())
        foot_any = True
    else:
        foot = pm.find("M_w += lcd_text if %s else ''" % ft.params()[1], ft.node)
        foot_any = foot or pm.find("M_w += M_t if M_c else ''", ft.node)
    ctx.judge(bool(foot), bool(foot_any), "R4", "footer shows the LCD warning iff lcd_warning",
              ft.where(), "footer condition changed", ft.qname, "footer")
    fd = ctx.func("Frontend.full_analysis_dict")
    wconds = _warn_conditions(fd)
    for p, name in (("arch_warning", "ArchWarning"), ("length_warning", "LengthWarning"), ("lcd_warning", "LCDWarning")):
        hit = [1] if name in wconds and U(wconds[name]) == p else []
        anyapp = name in wconds
        ctx.judge(len(hit) == 1, bool(anyapp), "R4", "dict lists %s iff %s" % (name, p), fd.where(),
                  "dict does not append %s exactly under `if %s`" % (name, p), fd.qname, "dict " + name)
    # default model of the detected ISA
    a = [x for x in C.assigns_to(f.node, "arch") if "DEFAULT_ARCHS" in U(x.value)]
    ok = any(pm.match("args.arch if args.arch is not None else DEFAULT_ARCHS[BaseParser.detect_ISA(M_c)]", x.value) for x in a)
    rec_arch = any(isinstance(x.value, ast.IfExp) for x in a)
    if not ok and a:
        # the same as a decision over `args.arch is None` (and over extra parameters that default to None, taken at
        # their default: the first activation)
        dflt_none = [p_.arg for p_, d_ in zip(f.node.args.args[len(f.node.args.args) - len(f.node.args.defaults):], f.node.args.defaults)
                     if isinstance(d_, ast.Constant) and d_.value is None]

        def leaf(e, given):
            while isinstance(e, ast.IfExp):
                facts_ = C.norm_facts_of_test(e.test)
                if len(facts_) != 1:
                    return None
                (t_, pol_), = facts_
                if t_ == C.CT("args.arch is None"):
                    truth = (not given) == pol_
                elif any(t_ == C.CT("%s is None" % p_) for p_ in dflt_none):
                    truth = pol_
                else:
                    return None
                e = e.body if truth else e.orelse
            return e
        first = a[0].value
        l_given, l_not = leaf(first, True), leaf(first, False)
        if l_given is not None and l_not is not None:
            rec_arch = True
            ok = U(l_given) == "args.arch" and pm.match("DEFAULT_ARCHS[BaseParser.detect_ISA(M_c)]", l_not) is not None
    ctx.judge(ok, rec_arch, "R4", "without --arch the default model of the detected ISA is used", f.where(),
              "arch selection is not `args.arch if given else DEFAULT_ARCHS[detect_ISA(code)]`", f.qname, "default arch")


def _r5(ctx):
    ctx.rule("R5", "architecture tables: defaults, ISA map, data files, --help, README")
    m = ctx.repo.module_by_stem("osaca") if False else None
    mod = [x for x in ctx.repo.modules.values() if x.rel == "osaca/osaca.py"]
    if not mod:
        ctx.broken("R5: osaca/osaca.py missing")
    g = mod[0].globals
    if "SUPPORTED_ARCHS" not in g or "DEFAULT_ARCHS" not in g:
        ctx.broken("R5: SUPPORTED_ARCHS / DEFAULT_ARCHS not found")
    def lit(node, what):
        """a literal display, or dict(k=v, ..) with literal values"""
        if isinstance(node, ast.Call) and isinstance(node.func, ast.Name) and node.func.id == "dict" and not node.args and all(
                k_.arg for k_ in node.keywords):
            return {k_.arg: C.literal(k_.value, what) for k_ in node.keywords}
        return C.literal(node, what)
    sup = lit(g["SUPPORTED_ARCHS"], "SUPPORTED_ARCHS")
    dfl = lit(g["DEFAULT_ARCHS"], "DEFAULT_ARCHS")
    gi = ctx.func("MachineModel.get_isa_for_arch")
    tabs = [n for n in ast.walk(gi.node) if isinstance(n, ast.Dict) and len(n.keys) > 5]
    if not tabs:
        # the table may live in a module-level constant of hw_model.py that is not written in upper case
        tabs = [v for k_, v in gi.module.globals.items() if isinstance(v, ast.Dict) and len(v.keys) > 5 and any(
            isinstance(x, ast.Name) and x.id == k_ for x in ast.walk(gi.node))]
    if len({U(t_) for t_ in tabs}) != 1:      # (a named table that was written out at each of its uses counts once)
        ctx.broken("R5: arch -> ISA table not found")
    isa_of = C.literal(tabs[0])
    ctx.floor("R5", "supported architectures", len(sup), 15)
    readme = ctx.repo.read_text("README.rst")
    readme_flags = set(re.findall(r"\|\s*``([A-Z0-9+]+)``\s*\|", readme))
    cp = ctx.func("osaca.create_parser")
    help_txt = ""
    for c in ast.walk(cp.node):
        if isinstance(c, ast.Call) and c.args and isinstance(c.args[0], ast.Constant) and c.args[0].value == "--arch":
            for k in c.keywords:
                if k.arg == "help":
                    help_txt = " ".join(C.str_consts(k.value)) if not isinstance(k.value, ast.Constant) else k.value.value
    help_codes = set(re.findall(r"[A-Z][A-Z0-9]+", help_txt))
    for isa, arch in dfl.items():
        ctx.check(arch in sup, "R5", "default %s of %s is supported" % (arch, isa), mod[0].rel,
                  "DEFAULT_ARCHS[%r] = %r is not in SUPPORTED_ARCHS" % (isa, arch), "osaca", "default %s" % isa)
        ctx.check(isa_of.get(arch.lower()) == isa, "R5", "default %s maps back to %s" % (arch, isa), gi.where(),
                  "get_isa_for_arch(%r) is %r, not %r: without --arch the wrong parser/model pair is used" % (
                      arch, isa_of.get(arch.lower()), isa), gi.qname, "default isa %s" % isa)
    ctx.check(set(dfl) == {"x86", "aarch64"}, "R5", "a default exists for both ISAs detect_ISA can return", mod[0].rel,
              "DEFAULT_ARCHS keys are %s" % sorted(dfl), "osaca", "default keys")
    models = {ctx.data.rel(p): d for p, d in ctx.data.models().items()}
    skipped = set(ctx.data.skipped())
    for arch in sup:
        low = arch.lower()
        ok_isa = low in isa_of
        ctx.check(ok_isa, "R5", "%s has a row in get_isa_for_arch" % arch, gi.where(),
                  "supported architecture %s is unknown to get_isa_for_arch (ValueError at start-up)" % arch, gi.qname,
                  "isa row %s" % arch)
        rel = "osaca/data/%s.yml" % low
        exists = (ctx.repo.root / rel).exists()
        ctx.check(exists, "R5", "%s has a data file" % arch, rel, "no model file %s for supported architecture %s" % (rel, arch),
                  rel, "data file %s" % arch)
        if rel in models and isinstance(models[rel], dict) and ok_isa:
            d = models[rel]
            ctx.check(str(d.get("isa", "")).lower() == isa_of[low], "R5", "%s: isa header = %s" % (rel, isa_of[low]), rel,
                      "%s declares isa %r but get_isa_for_arch says %r" % (rel, d.get("isa"), isa_of[low]), rel, "isa header")
            ac = d.get("arch_code")
            if ac is not None:
                ctx.check(str(ac).lower() == low, "R5", "%s: arch_code = %s" % (rel, low), rel,
                          "%s declares arch_code %r" % (rel, ac), rel, "arch_code header")
            else:
                ctx.note("R5: %s has arch_code ~ (only used when a model is given by path)" % rel)
        elif rel in skipped:
            ctx.note("R5: header checks skipped for %s (file is empty in this tree)" % rel)
        ctx.check(arch in help_codes, "R5", "%s is named in --help" % arch, cp.where(), "%s missing from the --arch help text" % arch,
                  cp.qname, "help %s" % arch)
        ctx.check(arch in readme_flags, "R5", "%s is in the README table" % arch, "README.rst",
                  "%s missing from the README's table of supported micro-architectures" % arch, "README.rst", "readme %s" % arch)
    ca = ctx.func("osaca.check_arguments")
    ctx.check(bool(pm.find("args.arch.upper() not in SUPPORTED_ARCHS", ca.node)), "R5", "--arch is validated against SUPPORTED_ARCHS",
              ca.where(), "check_arguments no longer rejects unsupported --arch values", ca.qname, "arch validation")


def _r6(ctx):
    """Text and dict are built one after the other from the same KernelDG: each asks get_critical_path() again, so the
    per-line values it leaves on the shared instruction forms must not depend on how often it ran (C04-R3b)."""
    from . import c04
    from .. import report as _report
    from ..srcmodel import AnalysisError
    ctx.rule("R6", "asking for the critical path again (text, then dict, then graph export) gives the same per-line values (C04-R3)")
    sub = _report.Ctx("C04", ctx.repo, ctx.tier, ctx.data)
    err = None
    try:
        c04.run(sub)
    except AnalysisError as e:
        err = e
    n = 0
    for fd in sub.findings:
        if fd.rule == "R3":
            n += 1
            ctx.bad("R6", "repeated evaluation (C04-R3): " + fd.construct, fd.where, "the dict (built after the text report from the same graph) "
                    "shows other CP values than the text: " + fd.detail, fd.scope, fd.construct)
    for ob in sub.obligations:
        if ob["rule"] == "R3" and ob["status"] not in ("violated", "not-understood"):
            new_ob = dict(ob)
            new_ob["rule"] = "R6"
            new_ob["instance"] = "C04-R3: " + ob["instance"]
            ctx.obligations.append(new_ob)
    for u in getattr(sub, "unknowns", []):
        if u.startswith("R3 "):
            ctx.unknown("R6", "repeated evaluation (C04-R3)", ctx.func("KernelDG.get_critical_path").where(), u)
    if err is not None and not n:
        ctx.unknown("R6", "repeated evaluation (C04-R3)", ctx.func("KernelDG.get_critical_path").where(), str(err)[:200])
    ctx.functions |= sub.functions
    ctx.files |= sub.files


def run(ctx):
    C.require_locals(ctx, ctx.func('osaca.inspect'), ['kernel', 'parsed_code', 'args'])
    C.require_locals(ctx, ctx.func('Frontend._user_warnings_header'), ['arch_text', 'length_text'])
    C.require_locals(ctx, ctx.func('Frontend._user_warnings_footer'), ['lcd_text'])
    C.require_locals(ctx, ctx.func('Frontend.full_analysis'), ['arch_warning', 'length_warning', 'lcd_warning', 'ignore_unknown'])
    C.require_locals(ctx, ctx.func('Frontend.full_analysis_dict'), ['warnings', 'arch_warning', 'length_warning', 'lcd_warning'])
    _r1(ctx)
    _r2(ctx)
    _r3(ctx)
    _r4(ctx)
    _r5(ctx)
    _r6(ctx)
