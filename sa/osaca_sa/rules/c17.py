"""C17 - model caches are transparent, also after interrupted or racing writes."""
import ast
import re

from .. import pm
from ..pm import U
from . import common as C

TECHNIQUE = (
    'static analysis: sibling agreement of cache-path expressions (after definition substitution), CFG dominance of the version guard, publish-after-conversion ordering in the loader, guard facts for the lazy mode, dead-store check for the path-keyed in-process cache, atomic-publish / tolerant-read pattern check for both cache locations, exception-escape check of directory creation (check-then-create race) ; read-to-update must-reach analysis (with emptiness facts) of a streaming hash helper'
)
EXPLANATION = (
    "R1: reader (_get_cached) and writer (_write_in_cache) derive the companion and home cache paths by the same expressions from a digest of the file's bytes; the digest covers ALL bytes: either hashlib.<algo>(<whole content>) in one expression or a helper in which every block obtained from <file>.read(...) reaches <hash>.update(block) on every CFG path before it is overwritten or the function ends, unless a branch has established that the block is empty. R2: every value returned from the cache reader is dominated by the internal_version == INTERNAL_VERSION test and the loader stamps that constant before publishing. R3: in the loader's building branch no store into self._data follows the cache write. R4: cache read, cache write and in-process cache accesses are all guarded by `not lazy`. R5: a value read from the path-keyed in-process cache reaches the object's state only if it is overwritten (dead) or re-validated against the content hash on every path. R6: for both cache locations the read is tolerant - pickle.load inside a handler that falls back to rebuilding and covers at least UnpicklingError/PickleError AND EOFError (0-byte file, header only, cut at a frame boundary) - or the publish is atomic AND durable (unique temporary name, fsync, os.replace); atomic publish without fsync is credited but not sufficient, because after a machine crash the rename can be on disk before the data. R7: every directory creation reachable from the cache writer passes exist_ok=True or sits in a handler for FileExistsError/OSError (a check-then-create sequence is a race between cold-starting processes). R8: every file deletion in MachineModel targets the process-unique temporary name created there (a name bound by iterating a glob / directory listing also matches the finished temporary files of other processes racing on the same cache) and tolerates the file's absence after the rename."
)
NOT_DECIDED = "Actual crash points, interleavings of racing processes and directory-permission scenarios (behavioural)."
ASSUMPTIONS = [
    "os.replace is atomic on the cache's file system; sha256 collisions do not occur",
    "a truncated pickle cannot be unpickled successfully (the STOP opcode is last)",
]


def _subst_text(f, expr):
    return U(C.norm_strings(C.flow_of(f).subst(expr)))


def _path_exprs(ctx, f):
    """{role: canonical text} for hash / companion / home path in function f."""
    out = {}
    for n in ast.walk(f.node):
        if isinstance(n, ast.Assign) and isinstance(n.targets[0], ast.Name):
            name = n.targets[0].id
            raw = U(n.value)
            t = _subst_text(f, n.value)
            if "hexdigest" in raw or (name.lower().endswith("hash") and isinstance(n.value, ast.Call)):
                out["hash"] = t
                out["hash_var"] = name
                out["hash_node"] = n.value
            elif ".pickle" in raw and "tmp" not in raw.lower():
                # the home cache lives under utils.CACHE_DIR, the companion next to the model file
                role = "home" if "CACHE_DIR" in t else "companion"
                if role in out:
                    continue
                out[role] = t
                out[role + "_var"] = name
                out[role + "_node"] = C.norm_strings(C.flow_of(f).subst(n.value))
    return out


def _digest_survives(expr):
    """Does the content digest survive in the file name `expr` builds?  (True/False/None, reason)

    `PurePath.with_suffix(s)` replaces everything from the LAST dot of the final component (a leading dot does not
    count). A digest that is followed by no dot and preceded by a part that can contain one - `<path>.stem` keeps all
    but the last suffix, so `zen2.custom.yml` has the stem `zen2.custom` - is cut off together with that suffix."""
    cut = False
    e = expr
    while True:
        if isinstance(e, ast.Call) and isinstance(e.func, ast.Attribute) and e.func.attr == "with_suffix" and len(e.args) == 1:
            cut = True
            e = e.func.value
        elif isinstance(e, ast.Call) and isinstance(e.func, ast.Name) and e.func.id in ("Path", "str", "PurePath") and len(e.args) == 1:
            e = e.args[0]
        else:
            break
    if isinstance(e, ast.Call) and isinstance(e.func, ast.Attribute) and e.func.attr == "with_name" and len(e.args) == 1:
        name = e.args[0]
    elif isinstance(e, ast.BinOp) and isinstance(e.op, ast.Div):
        name = e.right
    elif isinstance(e, ast.Call) and U(e.func) in ("os.path.join", "Path", "PurePath") and e.args:
        name = e.args[-1]
    else:
        return None, "file name expression `%s` not understood" % U(e)[:80]
    parts = []

    def flat(x):
        if isinstance(x, ast.BinOp) and isinstance(x.op, ast.Add):
            flat(x.left)
            flat(x.right)
        elif isinstance(x, ast.JoinedStr):
            for v in x.values:
                parts.append(v.value if isinstance(v, ast.FormattedValue) else v)
        else:
            parts.append(x)
    flat(name)
    kinds = []
    for i, x in enumerate(parts):
        if isinstance(x, ast.Constant) and isinstance(x.value, str):
            dotted = "." in (x.value[1:] if i == 0 else x.value)
            kinds.append(("dot" if dotted else "plain", x))
        elif "hexdigest" in U(x):
            kinds.append(("digest", x))
        else:
            kinds.append(("maybe", x))
    dig = [i for i, (k, _) in enumerate(kinds) if k == "digest"]
    if not dig:
        return None, "no digest part in `%s`" % U(name)[:80]
    if not cut:
        return True, "name built by concatenation only"
    i = dig[-1]
    if any(k == "dot" for k, _ in kinds[i + 1:]):
        return True, "a literal dot follows the digest"
    if any(k == "maybe" for k, _ in kinds[i + 1:]):
        return None, "a part after the digest may or may not contain a dot"
    risky = [x for k, x in kinds[:i] if k in ("maybe", "dot")]
    if risky:
        return False, "`.with_suffix()` cuts the name at its last dot; `%s` can contain one (the stem of `zen2.custom.yml` " \
                      "is `zen2.custom`), and then the digest after it is replaced: the cache is keyed by the name only" % U(risky[-1])
    return True, "no part before the digest can contain a dot"


HASH_ALGOS = ("sha256", "sha512", "sha384", "sha224", "sha1", "md5", "blake2b", "blake2s", "sha3_256", "sha3_512")


def _empty_test(test, v):
    """(polarity of 'v is non-empty' on the True edge) for the accepted emptiness tests of bytes variable v, else None."""
    t = U(test)
    if t in (v, "len(%s)" % v, "len(%s) > 0" % v, "len(%s) != 0" % v, C.canon_eq(v, "b''", "!="), "len(%s) >= 1" % v):
        return True
    if t in ("not %s" % v, C.canon_eq("len(%s)" % v, "0"), C.canon_eq(v, "b''"), "len(%s) < 1" % v, "not len(%s)" % v):
        return False
    return None


def _streaming_digest_ok(ctx, h, path_param, result=None):
    """Does helper function `h` return a digest over the WHOLE content of the file named by its parameter?
    Returns (ok, reason). Rule: every value obtained from <file>.read(...) reaches <hash>.update(value) on every path
    before it is overwritten or the function ends, unless a branch has established that the value is empty."""
    from ..cfg import EXIT
    cfg = C.cfg_of(h)
    if result is None:
        rets = [r for r in ast.walk(h.node) if isinstance(r, ast.Return)]
        if len(rets) != 1 or rets[0].value is None:
            return None, "helper has %d return statements" % len(rets)
        rv = rets[0].value
        terminal = EXIT
    else:
        # the digest is taken inside `h` itself (e.g. after an extracted helper was expanded in place)
        rv = result
        terminal = cfg.node_of(result)
    # one-expression helpers
    one = _digest_expr_ok(U(rv), path_param)
    if one:
        return True, "returns " + U(rv)
    m = pm.match("M_h.hexdigest()", rv) or pm.match("M_h.digest()", rv)
    if m is None or not isinstance(m["M_h"], ast.Name):
        return None, "return value `%s` is not <hash object>.hexdigest()" % U(rv)
    hv = m["M_h"].id
    hdef = [a for a in C.assigns_to(h.node, hv)]
    if len(hdef) != 1 or not any(U(hdef[0].value) == "hashlib.%s()" % a for a in HASH_ALGOS):
        # hashlib.file_digest(f, 'sha256') hashes the whole stream
        if len(hdef) == 1 and C.is_call_to(hdef[0].value, "file_digest"):
            return True, "hashlib.file_digest"
        return None, "hash object `%s` is not created by hashlib.<algo>()" % hv
    # file objects opened (binary) from the path parameter
    files = set()
    for w in ast.walk(h.node):
        if isinstance(w, ast.With):
            for it in w.items:
                ce = U(it.context_expr)
                if it.optional_vars is not None and (ce.startswith("%s.open(" % path_param) or ce.startswith("open(%s" % path_param)):
                    if "'rb'" not in ce:
                        return False, "the file is not opened in binary mode: %s" % ce
                    files.add(U(it.optional_vars))
    if not files:
        return None, "no `with <path>.open('rb') as f` found"
    reads = [c for c in ast.walk(h.node) if isinstance(c, ast.Call) and isinstance(c.func, ast.Attribute) and c.func.attr == "read"
             and U(c.func.value) in files]
    if not reads:
        return None, "no read() on the opened file"
    updates = [c for c in ast.walk(h.node) if isinstance(c, ast.Call) and U(c.func) == "%s.update" % hv]
    for rd in reads:
        par = C.parent(rd)
        # H.update(f.read()) - the whole remaining file at once
        if isinstance(par, ast.Call) and par in updates and not rd.args and not rd.keywords:
            continue
        # for block in iter(lambda: f.read(N), b''): every iteration must hash block
        lam = par if isinstance(par, ast.Lambda) else None
        if lam is not None:
            it = C.parent(lam)
            loop = C.parent(it) if C.is_call_to(it, "iter") else None
            if not (isinstance(loop, ast.For) and loop.iter is it and len(it.args) == 2 and U(it.args[1]) == "b''"
                    and isinstance(loop.target, ast.Name)):
                return None, "read inside a lambda that is not `for block in iter(lambda: f.read(n), b'')`"
            v = loop.target.id
            ups = [u for u in updates if C.in_subtree(u, loop) and len(u.args) == 1 and U(u.args[0]) == v]
            if not ups or any(cfg.reachable(loop, loop, avoid=ups, within=loop) for _ in (0,)) or any(
                    isinstance(x, ast.Break) for x in ast.walk(loop)):
                return False, "a block read by `%s` can skip `%s.update(%s)` (or the loop is left early)" % (U(it), hv, v)
            continue
        # v = f.read(...) / (v := f.read(...))
        if isinstance(par, ast.Assign) and len(par.targets) == 1 and isinstance(par.targets[0], ast.Name) and par.value is rd:
            v, start = par.targets[0].id, par
        elif isinstance(par, ast.NamedExpr) and par.value is rd:
            v, start = par.target.id, cfg.node_of(par)
        else:
            return None, "the result of `%s` is neither hashed directly nor bound to a name" % U(rd)
        ups = {id(cfg.node_of(u)) for u in updates if len(u.args) == 1 and U(u.args[0]) == v}
        redefs = {id(cfg.node_of(x)) for x in ast.walk(h.node)
                  if (isinstance(x, ast.Assign) and any(isinstance(t, ast.Name) and t.id == v for t in x.targets))
                  or (isinstance(x, ast.NamedExpr) and x.target.id == v)}
        seen, work = set(), []

        def succs(node, first=False):
            out = []
            for t in cfg.G.successors(node):
                lab = cfg.G.edges[node, t].get("label")
                if lab == "exc":
                    continue
                test = getattr(node, "test", None) if isinstance(node, (ast.If, ast.While)) else None
                if test is not None and isinstance(node, ast.While) and isinstance(test, ast.NamedExpr) and test.target.id == v:
                    pol = True          # while (v := f.read(n)): truthiness of the fresh value
                else:
                    pol = _empty_test(test, v) if test is not None else None
                if pol is not None and lab in (True, False):
                    nonempty_edge = (lab is True) == pol
                    if not nonempty_edge:
                        continue        # v is empty on this edge: nothing is lost
                out.append(t)
            return out
        # when the defining node is itself the while header with the walrus, its own branch decides
        work = succs(start)
        bad = None
        while work and bad is None:
            cur = work.pop()
            if cur == EXIT or cur is terminal:
                bad = "the point where the digest is taken"
                break
            if id(cur) in seen:
                continue
            seen.add(id(cur))
            if id(cur) in ups:
                continue
            if id(cur) in redefs:
                bad = "the next `%s = ...` (line %d)" % (v, cur.lineno)
                break
            work.extend(succs(cur))
        if bad:
            return False, ("a block obtained by `%s` (line %d) can reach %s without `%s.update(%s)` and without a test that it is "
                           "empty: that part of the file does not enter the cache key" % (U(rd), rd.lineno, bad, hv, v))
    return True, "every block read from the file is fed to %s.update" % hv


def _digest_expr_ok(text, pvar):
    """hashlib.<algo>(<whole content of pvar>).hexdigest() in one expression."""
    for a in HASH_ALGOS:
        for content in ("%s.read_bytes()" % pvar, "Path(%s).read_bytes()" % pvar, "open(%s, 'rb').read()" % pvar,
                        "%s.open('rb').read()" % pvar):
            if text == "hashlib.%s(%s).hexdigest()" % (a, content):
                return True
    return False


def _content_key(ctx, f, role_text, raw_value):
    """Is the cache key of function f a digest over the whole file content?  (ok, why)"""
    fparam = f.params()[1]
    t = role_text
    for pv in ("Path(%s)" % fparam, fparam):
        if _digest_expr_ok(t, pv):
            return True, "digest of the file's bytes in one expression"
    # a helper: self._x(P) / MachineModel._x(P) / x(P)
    call = raw_value
    if isinstance(call, ast.Call) and len(call.args) >= 1:
        name = pm.call_name(call).split(".")[-1]
        h = ctx.repo.funcs.get("MachineModel." + name) or next((fn for q, fn in ctx.repo.funcs.items() if q.endswith("." + name)
                                                                 and fn.cls is None), None)
        if h is not None:
            ctx.touch(h)
            arg = U(C.flow_of(f).subst(call.args[0]))
            if arg not in ("Path(%s)" % fparam, fparam):
                return False, "the helper %s is applied to `%s`, not to the model file" % (h.qname, arg)
            ps = [p for p in h.params() if p not in ("self", "cls")]
            if not ps:
                return None, "helper %s takes no path" % h.qname
            ok, why = _streaming_digest_ok(ctx, h, ps[0])
            return ok, "%s: %s" % (h.qname, why)
    if isinstance(raw_value, ast.Call) and isinstance(raw_value.func, ast.Attribute) and raw_value.func.attr in ("hexdigest", "digest") \
            and isinstance(raw_value.func.value, ast.Name):
        paths = [fparam] + [a.targets[0].id for a in ast.walk(f.node) if isinstance(a, ast.Assign) and isinstance(a.targets[0], ast.Name)
                            and U(a.value) == "Path(%s)" % fparam]
        for pn in paths:
            ok, why = _streaming_digest_ok(ctx, f, pn, result=raw_value)
            if ok is not None:
                return ok, "%s: %s" % (f.qname, why)
    return None, "cache key `%s` is neither hashlib.<algo>(<file bytes>).hexdigest() nor a helper that could be analysed" % t


def _r8(ctx):
    """Only this process's own temporary file is ever deleted by the cache code."""
    ctx.rule("R8", "the cache code deletes nothing but its own process-unique temporary file, and tolerates its absence")
    cls = ctx.repo.cls("MachineModel")
    n = 0
    for mname, f in sorted(cls.methods.items()):
        flow = C.flow_of(f)
        cfg = C.cfg_of(f)
        for c in ast.walk(f.node):
            if not isinstance(c, ast.Call):
                continue
            name = pm.call_name(c) or ""
            tgt = None
            if isinstance(c.func, ast.Attribute) and c.func.attr in ("unlink", "rmdir") and not name.startswith(("os.", "shutil.")):
                tgt = c.func.value
            elif name in ("os.remove", "os.unlink", "os.rmdir", "shutil.rmtree", "os.removedirs") and c.args:
                tgt = c.args[0]
            if tgt is None:
                continue
            n += 1
            ctx.touch(f)
            # what is deleted: a name bound by iterating a directory listing / glob matches files of OTHER processes too
            loops = [l for l in C.enclosing_loops(c) if isinstance(l, ast.For)]
            listing = None
            for l in loops:
                names_ = {x.id for x in ast.walk(l.target) if isinstance(x, ast.Name)}
                if names_ & {x.id for x in ast.walk(tgt) if isinstance(x, ast.Name)}:
                    it = U(flow.subst(l.iter))
                    if re.search(r"\.(glob|rglob|iterdir)\(|listdir\(|scandir\(|glob\.glob\(|os\.walk\(", it):
                        listing = it
            if listing is not None:
                ctx.node_bad("R8", f, c, "`%s` deletes every file that `%s` lists: that includes the completely written temporary files of other "
                             "processes populating the same cache at this moment - their os.replace() then fails with FileNotFoundError "
                             "(and this loop fails when the other process renames its file between the listing and the unlink)" % (
                                 U(c)[:80], listing[:100]), instance="deleted file is the process's own temporary file")
                continue
            src = U(flow.subst(tgt))
            own = "getpid()" in src or "uuid" in src or "mkstemp" in src or "NamedTemporaryFile" in src
            if not own:
                ctx.unknown("R8", "deleted file is the process's own temporary file", f.where(c),
                            "`%s` deletes `%s`, which is not recognisably a process-unique temporary name" % (U(c)[:80], src[:100]))
                continue
            # after a successful publish the temporary file is gone: the deletion must tolerate that
            facts = C.norm_facts(cfg.node_of(c))
            exists = any(pol and t in (C.CT("%s.exists()" % U(tgt)), C.CT("os.path.exists(%s)" % U(tgt)), C.CT("%s.is_file()" % U(tgt)),
                                       C.CT("os.path.isfile(%s)" % U(tgt)), C.CT("os.path.exists(str(%s))" % U(tgt))) for t, pol in facts)
            mok = any(k.arg == "missing_ok" and isinstance(k.value, ast.Constant) and k.value.value is True for k in c.keywords)
            handled = False
            p_ = C.parent(cfg.node_of(c))
            while p_ is not None and p_ is not f.node:
                if isinstance(p_, ast.Try) and any(C.in_subtree(c, b_) for b_ in p_.body):
                    for h in p_.handlers:
                        ht = U(h.type) if h.type is not None else "BaseException"
                        if any(x in ht for x in ("FileNotFoundError", "OSError", "Exception", "BaseException")):
                            handled = True
                p_ = C.parent(p_)
            ctx.judge(exists or mok or handled, True, "R8", "deleted file is the process's own temporary file; its absence is tolerated", f.where(c),
                      "`%s` runs also after the temporary file was renamed into place: it no longer exists then and the deletion raises "
                      "FileNotFoundError - every successful cache write ends in an exception" % U(c)[:80], f.qname, "own temporary file " + U(c)[:60])
    publishes = [c for f in cls.methods.values() for c in ast.walk(f.node) if isinstance(c, ast.Call) and (pm.call_name(c) or "") in (
        "os.replace", "os.rename")]
    if publishes:
        ctx.floor("R8", "file deletions in MachineModel", n, 1)      # the temporary file of the atomic publish is cleaned up
    elif not n:
        ctx.ok("R8", "no temporary file is published, nothing is deleted", "")


def run(ctx):
    C.require_locals(ctx, ctx.func('MachineModel.__init__'), ['lazy'])
    rd = ctx.func("MachineModel._get_cached")
    wr = ctx.func("MachineModel._write_in_cache")
    init = ctx.func("MachineModel.__init__")
    # ------------------------------------------------------------------ R1
    ctx.rule("R1", "reader and writer derive both cache paths by the same expressions from the content hash")
    pr, pw = _path_exprs(ctx, rd), _path_exprs(ctx, wr)
    for role in ("hash", "companion", "home"):
        if role not in pr or role not in pw:
            ctx.unknown("R1", "%s path expression" % role, rd.where(), "the %s expression was not found in %s" % (
                role, "reader" if role not in pr else "writer"))
            continue
        a = pr[role].replace(rd.params()[1], "FILE")
        b = pw[role].replace(wr.params()[1], "FILE")
        ctx.check(a == b, "R1", "%s: reader == writer" % role, wr.where(),
                  "reader and writer compute the %s differently:\n    reader: %s\n    writer: %s" % (role, a, b),
                  "MachineModel", "cache %s agreement" % role)
    if "hash" in pr:
        for fn, pe in ((rd, pr), (wr, pw)):
            if "hash" not in pe:
                continue
            ok, why = _content_key(ctx, fn, pe["hash"], pe["hash_node"])
            if ok is None:
                ctx.broken("R1: %s" % why)
            ctx.check(ok, "R1", "cache key is a digest of ALL bytes of the model file (%s)" % fn.name, fn.where(pe["hash_node"]),
                      "the cache key does not cover the whole content of the model file: %s" % why, fn.qname, "content key")
        for role in ("companion", "home"):
            if role in pr:
                hv = pr["hash"]
                ctx.check(hv in pr[role], "R1", "%s file name contains the content digest" % role, rd.where(),
                          "the %s cache name does not depend on the content digest: %s" % (role, pr[role][:160]),
                          rd.qname, "%s name depends on digest" % role)
                if hv in pr[role]:
                    sv, why = _digest_survives(pr[role + "_node"])
                    ctx.judge(sv is True, sv is not None, "R1", "%s file name keeps the digest for every model file name" % role,
                              rd.where(), "the digest does not survive in the %s cache name `%s`: %s. A model file edited after "
                              "caching, or another file with the same first name part, is then served from the stale cache"
                              % (role, pr[role][:120], why), rd.qname, "%s digest survives" % role)
    # ------------------------------------------------------------------ R2
    ctx.rule("R2", "every cached value returned is dominated by the format-version test; writer stamps the version")
    rets = [n for n in ast.walk(rd.node) if isinstance(n, ast.Return) and n.value is not None
            and not (isinstance(n.value, ast.Constant) and n.value.value in (False, None))]
    ctx.floor("R2", "returns of cached data", len(rets), 2)
    for r in rets:
        v = U(r.value)
        facts = C.implied_facts(rd, r)
        ok = any(p and t in (C.CT("%s.get('internal_version') == self.INTERNAL_VERSION" % v),
                             C.CT("%s['internal_version'] == self.INTERNAL_VERSION" % v)) for t, p in facts)
        if ok:
            ctx.node_ok("R2", rd, r, "return %s under internal_version == INTERNAL_VERSION" % v)
        else:
            ctx.node_bad("R2", rd, r, "cached data is returned without the test `%s.get('internal_version') == "
                         "self.INTERNAL_VERSION`: a cache written by another loader version would be served" % v)
    stamp = pm.find('self._data["internal_version"] = self.INTERNAL_VERSION', init.node)
    wcalls = C.calls_to(init.node, "_write_in_cache")
    cfg = C.cfg_of(init)
    ctx.check(len(stamp) == 1 and len(wcalls) == 1 and cfg.dominates(stamp[0][0], wcalls[0]), "R2",
              "loader stamps INTERNAL_VERSION before the cache write", init.where(stamp[0][0]) if stamp else init.where(),
              "the loader does not stamp self.INTERNAL_VERSION into the data before writing the cache", init.qname,
              "version stamp")
    iv = ctx.repo.cls("MachineModel").class_attrs.get("INTERNAL_VERSION")
    ctx.check(iv is not None and isinstance(iv, ast.Constant) and isinstance(iv.value, int), "R2",
              "INTERNAL_VERSION is an integer constant", ctx.repo.cls("MachineModel").where(),
              "INTERNAL_VERSION is not a literal integer", "MachineModel", "INTERNAL_VERSION")
    # ------------------------------------------------------------------ R3
    ctx.rule("R3", "cache is written after the data is complete (no store into self._data after the write)")
    if len(wcalls) == 1:
        late = []
        for n in ast.walk(init.node):
            tg = []
            if isinstance(n, ast.Assign):
                tg = n.targets
            elif isinstance(n, ast.AugAssign):
                tg = [n.target]
            elif isinstance(n, ast.Expr) and isinstance(n.value, ast.Call) and isinstance(n.value.func, ast.Attribute) \
                    and n.value.func.attr in ("append", "extend", "remove", "update", "pop", "insert"):
                tg = [n.value.func.value]
            for t in tg:
                if "self._data" in U(t) and U(t) != "self._data" or (U(t) == "self._data" and False):
                    if cfg.reachable(wcalls[0], n) and not cfg.reachable(n, wcalls[0]):
                        late.append(n)
        ctx.check(not late, "R3", "no store into self._data is reachable after _write_in_cache", init.where(wcalls[0]),
                  "the cache is published before the data is complete; later stores: %s" % [U(x)[:60] for x in late],
                  init.qname, "publish after conversion")
        # what is dumped is self._data
        dumps = [c for f in (wr, ctx.repo.funcs.get("MachineModel._dump_cachefile")) if f is not None
                 for c in C.calls_to(f.node, "pickle.dump", "dump")]
        ctx.check(bool(dumps) and all(U(c.args[0]) == "self._data" for c in dumps), "R3", "the loader's data is what is dumped",
                  wr.where(), "pickle.dump does not write self._data", wr.qname, "dump source")
    # ------------------------------------------------------------------ R4
    ctx.rule("R4", "lazy (header-only) loads never touch any cache")
    lazyp = "lazy"
    sites = []
    for c in C.calls_to(init.node, "_get_cached"):
        sites.append(("cache read", c))
    for c in wcalls:
        sites.append(("cache write", c))
    def _rc_access(n):
        """n is an access of the in-process cache: a subscript of it or a method call on it."""
        if isinstance(n, ast.Subscript) and U(n.value).endswith("._runtime_cache"):
            return True
        if isinstance(n, ast.Call) and isinstance(n.func, ast.Attribute) and U(n.func.value).endswith("._runtime_cache"):
            return True
        if isinstance(n, ast.Compare) and any(U(c).endswith("._runtime_cache") for c in n.comparators):
            return False  # a membership test reads nothing out of the cache
        return False

    for n in ast.walk(init.node):
        if _rc_access(n):
            sites.append(("in-process cache access", n))
    ctx.floor("R4", "cache access sites in the loader", len(sites), 3)
    for what, n in sites:
        facts = [(U(e), p) for e, p in C.facts_at(n)]
        ok = (lazyp, False) in facts or ("not " + lazyp, True) in facts
        if ok:
            ctx.node_ok("R4", init, n, "%s under `not lazy`" % what)
        else:
            ctx.node_bad("R4", init, n, "%s is not guarded by `not lazy`: a header-only load (used by the report "
                         "generator) would read or publish incomplete data" % what)
    # ------------------------------------------------------------------ R5
    ctx.rule("R5", "in-process cache value is dead or re-validated before it becomes the object's state")
    from ..cfg import EXIT

    def _reads_rc(e):
        return any(_rc_access(x) and not (isinstance(x, ast.Subscript) and isinstance(x.ctx, ast.Store)) for x in ast.walk(e))

    # names that may hold a value taken out of the path-keyed cache
    tainted = set()
    for _ in range(3):
        for n in ast.walk(init.node):
            if isinstance(n, ast.Assign) and isinstance(n.targets[0], ast.Name):
                if _reads_rc(n.value) or (pm.names_in(n.value) & tainted and not C.calls_to(n.value, "sha256", "_get_cached")
                                          and isinstance(n.value, (ast.Name, ast.BoolOp, ast.IfExp))):
                    tainted.add(n.targets[0].id)
    stores = [n for n in ast.walk(init.node) if isinstance(n, ast.Assign) and U(n.targets[0]) == "self._data"
              and (_reads_rc(n.value) or (isinstance(n.value, ast.Name) and n.value.id in tainted))]
    all_data_defs = [n for n in ast.walk(init.node) if isinstance(n, ast.Assign) and U(n.targets[0]) == "self._data"]
    for r in stores:
        redefs = [n for n in all_data_defs if n is not r and n not in stores]
        dead = not cfg.reachable(r, EXIT, avoid=redefs)
        # a re-validation against the file's content would compare a digest before the store
        facts = [U(e) for e, p in C.facts_at(r) if p]
        revalidated = any("sha256" in t or "hexdigest" in t or "hash" in t.lower() for t in facts)
        if dead:
            ctx.node_ok("R5", init, r, "value from the path-keyed cache is overwritten on every path (dead store)")
        elif revalidated:
            ctx.node_ok("R5", init, r, "value from the path-keyed cache is used only after a content-digest comparison")
        else:
            ctx.node_bad("R5", init, r, "a model taken from the in-process cache (keyed by path only%s) becomes the object's state "
                         "without comparing the file's content hash: a model file edited after it was first loaded is not "
                         "picked up within the process" % (", via `%s`" % U(r.value) if isinstance(r.value, ast.Name) else ""))
    if not stores:
        ctx.ok("R5", "no value read from the in-process cache reaches self._data", init.where())
    # key of the store
    st = pm.find("MachineModel._runtime_cache[M_k] = M_v", init.node)
    ctx.check(all(U(b["M_v"]) == "self._data" for _, b in st), "R5", "in-process cache stores the loaded data", init.where(),
              "in-process cache stores something else than self._data", init.qname, "runtime cache store")
    # ------------------------------------------------------------------ R6
    ctx.rule("R6", "crash/race tolerance: atomic publish or tolerant read for both cache locations")
    helpers = {f.name: f for f in ctx.repo.all_funcs() if f.cls is not None and f.cls.name == "MachineModel"}

    def loads_of(f, var, depth=2):
        """(function, load call) pairs that unpickle the file named by `var` in f (through helpers)."""
        out = []
        for c in C.calls_to(f.node, "pickle.load", "load"):
            if pm.call_name(c).startswith("pickle"):
                w = [n for n in ast.walk(f.node) if isinstance(n, ast.With) and C.in_subtree(c, n)]
                if w and any(var in U(it.context_expr) for it in w[-1].items):
                    out.append((f, c))
        if depth:
            for c in ast.walk(f.node):
                if isinstance(c, ast.Call) and isinstance(c.func, ast.Attribute) and c.func.attr in helpers \
                        and isinstance(c.func.value, ast.Name) and c.func.value.id == "self":
                    for i, a in enumerate(c.args):
                        if U(a) == var:
                            h = helpers[c.func.attr]
                            hp = h.params()[1 + i] if len(h.params()) > 1 + i else None
                            if hp:
                                out.extend(loads_of(h, hp, depth - 1))
        return out

    def tolerant(f, call):
        """(True, '') when every exception an incomplete pickle can raise falls back to rebuilding; else (False, what escapes)"""
        tr = [n for n in ast.walk(f.node) if isinstance(n, ast.Try) and any(C.in_subtree(call, s) for s in n.body)]
        why = "pickle.load is not inside a try block"
        for t in tr:
            caught = set()
            for h in t.handlers:
                names = U(h.type) if h.type is not None else "BaseException"
                if any(isinstance(s, ast.Raise) for s in ast.walk(h)):
                    continue
                caught |= set(re.findall(r"[A-Za-z_][A-Za-z_0-9]*", names))
            if caught & {"Exception", "BaseException"}:
                return True, ""
            need = {"EOFError": "a 0-byte file, a file holding only the protocol header, a file cut exactly at a frame boundary",
                    "UnpicklingError": "a file cut in mid-stream"}
            missing = [k for k in need if k not in caught and not (k == "UnpicklingError" and "PickleError" in caught)]
            if not missing:
                return True, ""
            why = "the handler catches %s; %s" % (sorted(caught), "; ".join(
                "%s (%s) escapes" % (k, need[k]) for k in missing))
        return False, why

    def dumps_of(f, var, depth=2):
        out = []
        for c in C.calls_to(f.node, "pickle.dump", "dump"):
            if pm.call_name(c).startswith("pickle"):
                w = [n for n in ast.walk(f.node) if isinstance(n, ast.With) and C.in_subtree(c, n)]
                if w:
                    out.append((f, c, w[-1], var))
        if depth:
            for c in ast.walk(f.node):
                if isinstance(c, ast.Call) and isinstance(c.func, ast.Attribute) and c.func.attr in helpers \
                        and isinstance(c.func.value, ast.Name) and c.func.value.id == "self":
                    for i, a in enumerate(c.args):
                        if U(a) == var:
                            h = helpers[c.func.attr]
                            hp = h.params()[1 + i] if len(h.params()) > 1 + i else None
                            if hp:
                                out.extend(dumps_of(h, hp, depth - 1))
        return out

    def atomic(f, call, w, final):
        opened = [U(it.context_expr) for it in w.items]
        opens_final = any(o.startswith(final + ".open") or ("open(" in o and final in o and "tmp" not in o.lower()) for o in opened)
        if opens_final:
            return False, "opens the final cache name for writing"
        tmpvars = [o.split(".open")[0] for o in opened if ".open" in o]
        cfg2 = C.cfg_of(f)
        reps = [c for c in C.calls_to(f.node, "os.replace", "os.rename", "replace", "rename")
                if any(final in U(a) for a in c.args) or (isinstance(c.func, ast.Attribute) and len(c.args) == 1 and final in U(c.args[0]))]
        if not reps:
            return False, "no rename/replace onto the final name"
        if not any(cfg2.dominates(w, r) for r in reps):
            return False, "the rename does not follow the completed dump"
        uniq = False
        for tv in tmpvars:
            for a in C.assigns_to(f.node, tv):
                t = U(a.value)
                if any(k in t for k in ("getpid", "uuid", "mkstemp", "NamedTemporaryFile", "token_hex")):
                    uniq = True
        if not uniq:
            return False, "the temporary name is not unique per process (two writers would share it)"
        return True, "temp file %s -> os.replace -> %s" % (tmpvars, final)

    for role in ("companion", "home"):
        rv, wv = pr.get(role + "_var"), pw.get(role + "_var")
        if not rv or not wv:
            continue
        lds = loads_of(rd, rv)
        dps = dumps_of(wr, wv)
        tres = [tolerant(f, c) for f, c in lds]
        tol = bool(lds) and all(t for t, _ in tres)
        twhy = "; ".join(w for t, w in tres if not t)
        at_res = [atomic(f, c, w, var) for f, c, w, var in dps]
        ato = bool(dps) and all(a for a, _ in at_res)
        why = "; ".join(r for _, r in at_res)
        durable = ato and all(C.calls_to(f.node, "os.fsync", "fsync") for f, c, w, var in dps)
        if tol or durable:
            ctx.ok("R6", "%s cache: %s%s" % (role, "tolerant read" if tol else "", (" + " if tol and ato else "") + (
                "atomic publish (" + why + ")" if ato else "")), rd.where())
        elif ato:
            ctx.bad("R6", "%s cache" % role, rd.where(lds[0][1]) if lds else rd.where(),
                    "the %s cache is published atomically (%s) but read intolerantly: %s. The temporary file is renamed without an "
                    "fsync, so after a machine crash the rename can be on disk while the data is not - a cache file of 0 bytes or "
                    "cut at a block boundary; every later run then fails in pickle.load instead of rebuilding the model"
                    % (role, why, twhy), "MachineModel", "%s cache crash tolerance" % role)
        else:
            ctx.bad("R6", "%s cache" % role, wr.where(),
                    "the %s cache file is written in place (%s) and read without a handler that falls back to "
                    "rebuilding (%s): a write interrupted at any point, or a second process "
                    "starting meanwhile, leaves a file that makes every later run fail" % (
                        role, why or "no dump found", twhy),
                    "MachineModel", "%s cache crash tolerance" % role)
        ctx.extra.setdefault("crash_tolerance", {})[role] = {"tolerant_read": tol, "atomic_publish": ato, "detail": why}
    ctx.floor("R6", "cache locations examined", len(ctx.extra.get("crash_tolerance", {})), 2)
    # ------------------------------------------------------------------ R7
    ctx.rule("R7", "directory creation on the cache-write path tolerates a second process creating it first")
    TOL = ("OSError", "FileExistsError", "Exception", "BaseException", "EnvironmentError", "IOError")

    def creations(f, depth=2, seen=None):
        seen = seen if seen is not None else set()
        if f.qname in seen:
            return []
        seen.add(f.qname)
        out = []
        for c in ast.walk(f.node):
            if not isinstance(c, ast.Call):
                continue
            nm = pm.call_name(c) or ""
            if nm in ("os.makedirs", "os.mkdir", "makedirs") or (isinstance(c.func, ast.Attribute) and c.func.attr == "mkdir"):
                out.append((f, c))
            elif depth and isinstance(c.func, ast.Attribute) and c.func.attr in helpers and U(c.func.value) in ("self", "MachineModel"):
                out.extend(creations(helpers[c.func.attr], depth - 1, seen))
        return out

    def race_tolerant(f, c):
        for k in c.keywords:
            if k.arg == "exist_ok":
                if isinstance(k.value, ast.Constant):
                    if k.value.value is True:
                        return True, "exist_ok=True"
                else:
                    return None, "exist_ok=%s" % U(k.value)
        if (pm.call_name(c) or "") in ("os.makedirs", "makedirs") and len(c.args) >= 3:
            a = c.args[2]
            return (True, "exist_ok positional") if isinstance(a, ast.Constant) and a.value is True else (None, U(a))
        for n in ast.walk(f.node):
            if isinstance(n, ast.Try) and any(C.in_subtree(c, s) for s in n.body):
                for h in n.handlers:
                    names = U(h.type) if h.type is not None else "BaseException"
                    if any(t in names for t in TOL) and not any(isinstance(s, ast.Raise) for s in ast.walk(h)):
                        return True, "inside try/except %s" % names
            if isinstance(n, ast.With) and C.in_subtree(c, n):
                for it in n.items:
                    t = U(it.context_expr)
                    if "suppress(" in t and any(x in t for x in TOL):
                        return True, "inside %s" % t
        return False, "FileExistsError escapes"

    def caller_tolerant(f, depth=2):
        """every call site of f sits in a handler that swallows OSError (the writer is best effort as a whole)"""
        sites = [(g, c) for g in ctx.repo.all_funcs() for c in ast.walk(g.node)
                 if isinstance(c, ast.Call) and isinstance(c.func, ast.Attribute) and c.func.attr == f.name]
        if not sites:
            return False
        for g, c in sites:
            ok = False
            for n in ast.walk(g.node):
                if isinstance(n, ast.Try) and any(C.in_subtree(c, s) for s in n.body):
                    for h in n.handlers:
                        names = U(h.type) if h.type is not None else "BaseException"
                        if any(t in names for t in TOL) and not any(isinstance(s, ast.Raise) for s in ast.walk(h)):
                            ok = True
            if not ok and not (depth and g is not f and caller_tolerant(g, depth - 1)):
                return False
        return True

    made = creations(wr)
    for f, c in made:
        ok, why = race_tolerant(f, c)
        if ok is False and caller_tolerant(f):
            ok, why = True, "every caller of %s swallows OSError" % f.name
        ctx.judge(ok is True, ok is not None, "R7", "directory creation %s" % U(c)[:60], f.where(c),
                  "the cache directory is created by `%s` with neither exist_ok=True nor a handler for FileExistsError/OSError: "
                  "a test like `if not <dir>.is_dir()` before it does not help, because a second cold-starting process can create the "
                  "directory between the test and the creation; the loser's run then fails with FileExistsError instead of "
                  "producing its report" % U(c)[:80], f.qname, "race-tolerant mkdir")
    if not made:
        ctx.ok("R7", "the cache writer creates no directory", wr.where())
    ctx.extra["directory_creations"] = [{"where": f.where(c), "call": U(c)[:80]} for f, c in made]
    _r8(ctx)
