"""C04 - critical path is the longest latency-weighted dependency chain."""
import ast

from .. import pm
from ..pm import U
from . import common as C

TECHNIQUE = "static analysis: objective/report provenance agreement in get_critical_path (every reported per-line term is an edge weight of the graph handed to the longest-path routine and vice versa), accumulate-vs-overwrite check for stores keyed through the non-injective int(node id) map, terminal-latency coverage of every kernel line, weight-key agreement, total agreement between text and dict"
EXPLANATION = (
    "R1: dag_longest_path is given the attribute name every add_edge writes (a wrong key silently weighs every edge 1). R2: fractional load-node ids (line + 0.1) are produced in one place and every consumer that maps a node id to a kernel line goes through int(). R3: what is printed (the sum of latency_cp over the returned lines) is what is maximised: (a) every term stored into latency_cp is the `latency` attribute of an edge (s, d) of consecutive nodes of the path in the graph that was searched; (b) stores into latency_cp keyed through int(s) accumulate, and because the accumulated state lives on the instruction forms across calls a reset to 0 must exist and precede the accumulation (a load node and its instruction map to the same line); (c) the last instruction's latency is part of the maximised weight: every kernel line has an edge to the virtual sink, added unconditionally on every iteration over the kernel, whose weight is its latency (latency_wo_load when its load stage is a separate node), so the path is never shorter than any single instruction. R4: CriticalPath in the dict and the CP figure of the text are the same expression over get_critical_path(). R5: the returned lines are exactly the kernel lines on the path. R8: where the CP cell of a line is selected by a value looked up in a per-line map (None for lines off the path), the cell formatter tests that value with `is None`, not by truthiness - an instruction of the path whose latency there is 0.0 (eliminated move) must still be marked."
)
NOT_DECIDED = "Equality with an independent longest-path computation on generated graphs (behavioural)."
ASSUMPTIONS = ["networkx dag_longest_path maximises the sum of the given edge attribute", "the dependency graph is a DAG (checked by the code itself)"]

FN = "KernelDG.get_critical_path"


def run(ctx):
    f = ctx.func(FN)
    cd = ctx.func("KernelDG.create_DG")
    cfg = C.cfg_of(f)
    # ------------------------------------------------------------------ R1
    ctx.rule("R1", "longest path is searched with the attribute add_edge writes")
    lp = C.calls_to(f.node, "dag_longest_path")
    if len(lp) != 1:
        ctx.broken("R1: dag_longest_path call not found")
    lp = lp[0]
    w = C.arg_of(lp, None, "weight")
    written = {k.arg for c in C.calls_to(cd.node, "add_edge") for k in c.keywords} | {
        k.arg for c in C.calls_to(f.node, "add_edge") for k in c.keywords}
    key = C.literal(w) if w is not None else "weight"
    ctx.check(key in written and written == {key}, "R1", "weight=%r is the attribute every add_edge writes" % key, f.where(lp),
              "dag_longest_path uses weight=%r but edges carry %s: the search would treat every edge as weight 1" % (key, sorted(written)),
              f.qname, "weight key")
    g = U(lp.args[0])
    st = cfg.node_of(lp)
    path = U(st.targets[0]) if isinstance(st, ast.Assign) else None
    if path is None:
        ctx.broken("R1: result of dag_longest_path is not assigned")
    # ------------------------------------------------------------------ the searched graph and its terminal edges
    ctx.rule("R3", "objective = report: terms of latency_cp are the searched graph's edge weights; terminal latency included; accumulate")
    gdef = C.assigns_to(f.node, g) if g != "self.dg" else []
    own = bool(gdef) and U(gdef[0].value) in ("self.dg.copy()", "copy.deepcopy(self.dg)", "nx.DiGraph(self.dg)", "deepcopy(self.dg)")
    sink_edges = [c for c in C.calls_to(f.node, "add_edge") if U(c.func.value) == g]
    built_elsewhere = g != "self.dg" and not own and (not gdef or isinstance(gdef[0].value, ast.Call))
    other_edge_api = [c for c in ast.walk(f.node) if isinstance(c, ast.Call) and isinstance(c.func, ast.Attribute)
                      and c.func.attr in ("add_weighted_edges_from", "add_edges_from", "update") and U(c.func.value) == g]
    if not sink_edges and (built_elsewhere or other_edge_api):
        ctx.unknown("R3", "terminal latency is represented in the searched graph", f.where(lp),
                    "the searched graph `%s` is built by `%s`: how the terminal edges are added is not followed" % (
                        g, U(other_edge_api[0])[:80] if other_edge_api else U(gdef[0].value)[:80] if gdef else "?"))
    elif g == "self.dg" or not sink_edges:
        # no terminal edges: the terminal latency must not be reported either
        extra = [n for n in ast.walk(f.node) if isinstance(n, (ast.Assign, ast.AugAssign)) and any(
            isinstance(t, ast.Attribute) and t.attr == "latency_cp" for t in (n.targets if isinstance(n, ast.Assign) else [n.target]))
            and ".latency" in U(n.value) and "edges" not in U(n.value)]
        for n in extra:
            ctx.node_bad("R3", f, n, "the reported per-line value `%s` is not part of the weight the longest-path search "
                         "maximises (edges only): the chain ending in its most expensive instruction is not selected, and "
                         "the reported critical path can be shorter than a single instruction's latency" % U(n))
        ctx.check(bool(extra) or False, "R3", "terminal latency is represented in the searched graph", f.where(lp),
                  "the last instruction's latency is neither an edge of the searched graph nor reported", f.qname, "terminal latency")
    else:
        ctx.check(own, "R3", "the search runs on a private copy of the dependency graph (self.dg is not modified)", f.where(),
                  "terminal edges are added to %s, which is not a copy of self.dg made in this function" % g, f.qname, "private graph")
        c = sink_edges[0]
        loop = C.enclosing_loop(c)
        ok = isinstance(loop, ast.For) and U(loop.iter) == "self.kernel" and U(C.flow_of(f).subst(c.args[0])) == "%s.line_number" % U(loop.target)
        over_kernel = isinstance(loop, ast.For) and U(C.flow_of(f).subst(loop.iter)) in ("self.kernel", "list(self.kernel)", "tuple(self.kernel)")
        it_s = C.flow_of(f).subst(loop.iter) if isinstance(loop, ast.For) else None
        part_of_kernel = it_s is not None and (
            (isinstance(it_s, ast.Subscript) and U(it_s.value) == "self.kernel" and isinstance(it_s.slice, ast.Slice)) or
            (isinstance(it_s, (ast.ListComp, ast.GeneratorExp)) and len(it_s.generators) == 1 and U(it_s.generators[0].iter) == "self.kernel"
             and bool(it_s.generators[0].ifs)) or
            (C.is_call_to(it_s, "filter") and len(it_s.args) == 2 and U(it_s.args[1]) == "self.kernel"))
        ctx.judge(ok and len(sink_edges) == 1, over_kernel or part_of_kernel or not isinstance(loop, ast.For), "R3", "every kernel line gets an edge to the virtual sink", f.where(c),
                  "terminal edges are not added for every line of self.kernel", f.qname, "sink edge per line")
        if ok:
            # ... on every iteration: no path through the loop body back to the header that avoids the add_edge
            st = cfg.node_of(c)
            skipping = cfg.reachable(loop, loop, avoid=[st], within=loop) if loop.body else True
            ctx.check(not skipping, "R3", "the sink edge is added unconditionally for each line", f.where(c),
                      "an iteration over the kernel can finish without adding the line's edge to the sink (conditional / "
                      "`continue`): such an instruction can no longer end a chain, so its own latency is missing from the "
                      "maximised weight whenever its outgoing edges weigh less than its latency (e.g. write-back edges, "
                      "which carry p_index_latency)", f.qname, "sink edge unconditional")
        sink = U(c.args[1])
        sdef = C.assigns_to(f.node, sink)
        sval = c.args[1] if isinstance(c.args[1], ast.Constant) else (sdef[0].value if sdef else None)
        ctx.judge(isinstance(sval, ast.Constant) and isinstance(sval.value, str), sval is not None, "R3",
                  "the sink is a node id no kernel line can have", f.where(), "sink id is %s" % (U(sval) if sval is not None else None),
                  f.qname, "sink id")
        wv = [k.value for k in c.keywords if k.arg == key]
        good = False
        if wv and isinstance(loop, ast.For) and not over_kernel and not part_of_kernel:
            good = "unknown"        # the weights were prepared elsewhere (a list of (line, weight) pairs): not followed
        elif wv and isinstance(loop, ast.For):
            iv = U(loop.target)
            flow = C.flow_of(f)
            defs = C.assigns_to(loop, U(wv[0])) if isinstance(wv[0], ast.Name) else []
            vals = {}
            if isinstance(wv[0], ast.IfExp) and "has_node" in U(wv[0].test):
                vals[True] = (U(wv[0].test), U(wv[0].body))
                vals[False] = (U(wv[0].test), U(wv[0].orelse))
            for d in defs:
                facts = [(U(e), p) for e, p in C.facts_at(d, stop=loop)]
                facts = [(U(flow.subst(e)), p) for e, p in C.facts_at(d, stop=loop)]
                cond = [(t, p) for t, p in facts if "has_node" in t]
                if cond:
                    vals[cond[0][1]] = (cond[0][0], U(d.value))
                elif isinstance(d.value, ast.IfExp) and "has_node" in U(flow.subst(d.value.test)):
                    dv = flow.subst(d.value)
                    vals[True] = (U(dv.test), U(dv.body))
                    vals[False] = (U(dv.test), U(dv.orelse))
            if set(vals) == {True, False}:
                gs = {g} | ({U(gdef[0].value)} if gdef else set())
                good = (vals[True][0] in {"%s.has_node(%s.line_number + 0.1)" % (g_, iv) for g_ in gs} and vals[True][1] == "%s.latency_wo_load" % iv
                        and vals[False][1] == "%s.latency" % iv)
            elif isinstance(wv[0], ast.Attribute) and U(wv[0]) == "%s.latency" % iv:
                good = False
                ctx.node_bad("R3", f, c, "terminal weight is the full latency also for instructions whose load stage is a "
                             "separate node: a chain through the load node counts the load latency twice")
                good = None
        if good is True:
            ctx.node_ok("R3", f, c, "terminal weight = latency (latency_wo_load if the load stage is a separate node)")
        elif good == "unknown":
            ctx.unknown("R3", U(c)[:100], f.where(c), "the terminal weights are taken from a prepared collection; how they were computed is not followed")
        elif good is False:
            ctx.node_bad("R3", f, c, "terminal edge weight is not `latency` (or `latency_wo_load` exactly when the node "
                         "line+0.1 exists): the critical path can be shorter than a single instruction's latency or count a "
                         "load twice")
        ctx.check(cfg.dominates(loop if isinstance(loop, ast.For) else c, lp), "R3", "terminal edges exist before the search", f.where(lp),
                  "the longest path is searched before the terminal edges are added", f.qname, "order sink/search")
    # (a) terms of latency_cp
    stores = [n for n in ast.walk(f.node) if isinstance(n, (ast.Assign, ast.AugAssign)) and any(
        isinstance(t, ast.Attribute) and t.attr == "latency_cp" for t in (n.targets if isinstance(n, ast.Assign) else [n.target]))]
    ctx.floor("R3", "stores into latency_cp", len(stores), 1)
    accs = [n for n in stores if isinstance(n, ast.AugAssign)]
    resets = [n for n in stores if isinstance(n, ast.Assign) and C.const_num(n.value) == 0]
    if accs:
        ctx.check(bool(resets), "R3", "latency_cp is reset before it is accumulated", f.where(accs[0]),
                  "`%s` accumulates into state that lives on the instruction forms, and %s never resets it: every further call "
                  "(the report calls it more than once per analysis) adds the path's weights again, so the per-line CP values no "
                  "longer add up to the reported total" % (U(accs[0]), f.qname), f.qname, "reset")
    def _r3_values():
        def is_pair_iter(it):
            def res(e):
                """a local with one definition that is a slice of the path stands for that slice"""
                if isinstance(e, ast.Name) and e.id != path:
                    ds = [a for a in C.assigns_to(f.node, e.id) if isinstance(a, ast.Assign)]
                    if len(ds) == 1 and U(ds[0].value) in (path + "[:-1]", path + "[1:]"):
                        return U(ds[0].value)
                return U(e)
            if C.is_call_to(it, "pairwise") and it.args and res(it.args[0]) == path:
                return True
            b = pm.match("zip(M_a, M_b)", it)
            return b is not None and res(b["M_a"]) in (path, path + "[:-1]") and res(b["M_b"]) == path + "[1:]"
        pair_loops = [l for l in ast.walk(f.node) if isinstance(l, ast.For) and is_pair_iter(l.iter)]
        other_pairs = [l for l in ast.walk(f.node) if isinstance(l, ast.For) and (C.is_call_to(l.iter, "pairwise") or pm.match("zip(M_a, M_b)", l.iter) is not None)]
        if not pair_loops and other_pairs:
            # consecutive nodes of *something* are visited, but the rule cannot tie that list to the search result (it travelled
            # through an attribute / a tuple): nothing below can be judged
            ctx.unknown("R3", "pairwise loop", f.where(other_pairs[0]), "the loop over consecutive nodes iterates `%s`, which the rule cannot tie to "
                        "the result of the longest-path search `%s`" % (U(other_pairs[0].iter)[:60], path))
            return
        ctx.check(len(pair_loops) == 1, "R3", "per-line values are assigned along consecutive nodes of the whole path", f.where(),
                  "no loop over pairwise(%s): %s" % (path, [U(l.iter) for l in ast.walk(f.node) if isinstance(l, ast.For)]), f.qname, "pairwise loop")
        # the per-line values live on the instruction forms, which other analyses of the same parsed code share and rewrite
        # (a second graph over a sub-range, a renewed add_semantics): every call that returns a path must re-establish them
        if pair_loops:
            for r in [x for x in ast.walk(f.node) if isinstance(x, ast.Return) and x.value is not None]:
                ctx.check(cfg.dominates(pair_loops[0], r), "R3", "a returned path comes with freshly assigned latency_cp values", f.where(r),
                          "`%s` leaves %s without passing the loop that assigns latency_cp along the path (a remembered result is handed "
                          "out): latency_cp is state of the instruction forms, which a second graph over the same lines (--lines, "
                          "flag dependencies) or a renewed add_semantics overwrites in between; the marked lines' values then no longer "
                          "add up to this graph's longest chain" % (U(r)[:70], f.qname), f.qname, "return without assignment of latency_cp")
        for n in stores:
            val = U(n.value)
            tgt = n.targets[0] if isinstance(n, ast.Assign) else n.target
            if isinstance(n, ast.Assign) and C.const_num(n.value) == 0:
                # reset: must cover the nodes that are written later and precede the accumulation
                rl = C.enclosing_loop(n)
                ok = bool(pair_loops) and not C.in_subtree(n, pair_loops[0]) and isinstance(rl, ast.For) and U(rl.iter) in (
                    path, path + "[:-1]") and cfg.dominates(rl, pair_loops[0]) and U(n.targets[0].value) in (
                    "self._get_node_by_lineno(int(%s))" % U(rl.target),)
                ctx.check(ok, "R3", "latency_cp is reset before it is accumulated", f.where(n), "reset does not precede the accumulation",
                          f.qname, "reset")
                continue
            in_pair = bool(pair_loops) and C.in_subtree(n, pair_loops[0])
            if not in_pair and not (".latency" in val and "edges" not in val):
                ctx.unknown("R3", U(n), f.where(n), "latency_cp is assigned outside the loop over consecutive path nodes from a value the rule cannot trace")
                continue
            if not in_pair:
                ctx.node_bad("R3", f, n, "`%s` reports a term that is not an edge weight of the searched path: the printed total "
                             "and the maximised quantity differ" % U(n))
                continue
            s, d = [U(e) for e in pair_loops[0].target.elts]
            ok_val = val in ("%s.edges[%s, %s]['%s']" % (g, s, d, key), "%s.edges[(%s, %s)]['%s']" % (g, s, d, key))
            if not ok_val:
                ctx.node_bad("R3", f, n, "the per-line value is `%s`, not the `%s` attribute of the edge (%s, %s) of the graph "
                             "that was searched (%s)" % (val, key, s, d, g))
                continue
            # (b) accumulate: the node is looked up through int(s), which is not injective (line, line + 0.1)
            recv = U(tgt.value)
            rdef = [a for a in C.assigns_to(pair_loops[0], recv)]
            via_int = (bool(rdef) and U(rdef[0].value) == "self._get_node_by_lineno(int(%s))" % s) or \
                recv == "self._get_node_by_lineno(int(%s))" % s
            if isinstance(n, ast.AugAssign) and isinstance(n.op, ast.Add) and via_int:
                ctx.node_ok("R3", f, n, "latency_cp of line int(%s) += weight of edge (%s, %s)" % (s, s, d))
            elif isinstance(n, ast.Assign):
                ctx.node_bad("R3", f, n, "the store `%s` overwrites: a load node (line + 0.1) and its instruction map to the same "
                             "line through int(), so the load stage's latency is lost from the report" % U(n))
            else:
                ctx.node_bad("R3", f, n, "per-line value is not accumulated on the line int(%s)" % s)
        # ------------------------------------------------------------------ R2 node ids
    _r3_values()
    ctx.rule("R2", "load-node ids line + 0.1 and int() normalisation of every node-id -> line mapping")
    frac = [n for n in ast.walk(cd.node) if isinstance(n, ast.BinOp) and isinstance(n.op, ast.Add) and C.const_num(n.right) is not None
            and isinstance(C.const_num(n.right), float)]
    ctx.check(len(frac) >= 2 and {C.const_num(n.right) for n in frac} == {0.1} and all(U(n.left).endswith(".line_number") for n in frac),
              "R2", "load node id = line_number + 0.1 (one form)", cd.where(), "load-node ids are built as %s" % sorted({U(n) for n in frac}),
              cd.qname, "load node id")
    lookups = [c for c in C.calls_to(f.node, "_get_node_by_lineno")]
    fl = C.flow_of(f)
    path_vars = {path} | {U(t) for l2 in ast.walk(f.node) if isinstance(l2, ast.For) and path in U(l2.iter)
                          for t in (l2.target.elts if isinstance(l2.target, ast.Tuple) else [l2.target])}
    for c in lookups:
        a = fl.subst(c.args[0])
        ok = isinstance(a, ast.Call) and isinstance(a.func, ast.Name) and a.func.id == "int"
        # a violation only when the argument is recognisably a node id of the path; anything else is not understood
        direct = any(isinstance(x, ast.Name) and x.id in path_vars for x in ast.walk(a))
        ctx.judge(ok, direct, "R2", "node id is normalised with int(): %s" % U(c), f.where(c),
                  "a node id (possibly line + 0.1) is used as a line number without int(): %s" % U(c), f.qname, U(c))
    ctx.floor("R2", "node-id look-ups in get_critical_path", len(lookups), 1)
    # ------------------------------------------------------------------ R5 returned lines
    ctx.rule("R5", "returned lines = kernel lines on the path")
    rets = [r for r in ast.walk(f.node) if isinstance(r, ast.Return) and r.value is not None]

    def through_attr(v):
        """`return self.x` where the function stores `self.x = <expr>` once: the stored expression"""
        if isinstance(v, ast.Attribute) and U(v.value) == "self":
            st = [a for a in ast.walk(f.node) if isinstance(a, ast.Assign) and U(a.targets[0]) == U(v)]
            if len(st) == 1:
                return st[0].value
        return v
    vals = {U(through_attr(r.value)): through_attr(r.value) for r in rets}
    rv = list(vals.values())[0] if len(vals) == 1 else None
    if rv is not None:
        # an alias of the path (cp_nodes = set(longest_path[:-1])) is resolved one step
        txt = U(rv)
        for nm in {x.id for x in ast.walk(rv) if isinstance(x, ast.Name)} - {path, "self"}:
            ds = [a for a in C.assigns_to(f.node, nm) if isinstance(a, ast.Assign)]
            if len(ds) == 1 and path in U(ds[0].value):
                txt = txt.replace(" in %s]" % nm, " in %s]" % U(ds[0].value))
        rv = ast.parse(txt, mode="eval").body
    ok = rv is not None and any(pm.match(pat % path, rv) is not None for pat in (
        "[M_x for M_x in self.kernel if M_x.line_number in %s[:-1]]", "[M_x for M_x in self.kernel if M_x.line_number in %s]",
        "[M_x for M_x in self.kernel if M_x.line_number in set(%s[:-1])]", "[M_x for M_x in self.kernel if M_x.line_number in set(%s)]",
        "[M_x for M_x in self.kernel if M_x.line_number in frozenset(%s[:-1])]"))
    # (a list that is filtered by membership in another name than the search result: cannot be tied to it here)
    rec5 = ok or rv is None or any(pm.match(pat % "M_p", rv) is None for pat in (
        "[M_x for M_x in self.kernel if M_x.line_number in %s[:-1]]", "[M_x for M_x in self.kernel if M_x.line_number in %s]"))
    ctx.judge(ok, rec5, "R5", "return [line for line in kernel if line.line_number in path]", f.where(rets[0]) if rets else f.where(),
              "get_critical_path returns %s" % ([U(r.value)[:100] for r in rets]), f.qname, "returned lines")
    # ------------------------------------------------------------------ R6 edge weights (the chain's "producer-to-consumer latency")
    from . import c03
    from .. import report as _report
    sub_ = _report.Ctx("C03", ctx.repo, ctx.tier, ctx.data)
    c03._r7(sub_)
    ctx.rule("R6", "edge weights of the searched graph: latency without the load stage (C03-R7), write-back and forwarding latencies")
    for ob in sub_.obligations:
        new_ob = dict(ob)
        new_ob["rule"] = "R6"
        ctx.obligations.append(new_ob)
    for fd_ in sub_.findings:
        ctx.obligations.pop(next(i for i, o in enumerate(ctx.obligations) if o.get("key") == fd_.key))
        ctx.bad("R6", fd_.construct, fd_.where, fd_.detail, fd_.scope, fd_.construct)
    for u in getattr(sub_, "unknowns", []):
        ctx.unknown("R6", "edge weight", "", u)
    # ------------------------------------------------------------------ R7 the searched graph is the requested one
    ctx.rule("R7", "the graph searched for the critical path is built with the requested flag-dependency setting (C03-R3)")
    C.embed(ctx, "C03", lambda sub: c03.flag_threading(sub, "R3"), "R7", "flag dependencies (C03-R3)",
            "the dependency graph in which the longest chain is searched lacks (or gains) the flag-dependency edges the user asked for, "
            "so the reported critical path is not the longest chain of the kernel's dependency graph", f.where())
    # ------------------------------------------------------------------ R8 every instruction of the path is marked
    from .c05 import lcd_cell_presence
    ctx.rule("R8", "the CP column marks every instruction of the path, also one whose latency on the path is 0.0")
    lcd_cell_presence(ctx, "R8", kinds=("CP",))
    if not any(o.get("rule") == "R8" for o in ctx.obligations):
        ctx.ok("R8", "the CP cell is not selected by a value looked up in a per-line map (presence is decided by the caller: C13-R1)",
               ctx.func("Frontend._get_lcd_cp_ports").where())
    # ------------------------------------------------------------------ R4 totals
    ctx.rule("R4", "CP total: text and dict use the same expression over get_critical_path()")
    cv = ctx.func("Frontend.combined_view")
    fd = ctx.func("Frontend.full_analysis_dict")
    fa = ctx.func("Frontend.full_analysis")
    t = pm.find("M_s = sum([M_x.latency_cp for M_x in %s])" % cv.params()[2], cv.node)
    dsrc = pm.find("M_c = %s.get_critical_path()" % fd.params()[2], fd.node)
    dd = [n for n in ast.walk(fd.node) if isinstance(n, ast.Dict) for k, v in zip(n.keys, n.values)
          if isinstance(k, ast.Constant) and k.value == "CriticalPath" and dsrc and pm.match(
              "sum([M_x.latency_cp for M_x in %s])" % U(dsrc[0][1]["M_c"]), v) is not None]
    cvc = C.calls_to(fa.node, "combined_view")
    # either side may hold the sum in a local or use it in place
    t_any = [n for n in ast.walk(cv.node) if pm.match("sum(M_x.M_a for M_x in %s)" % cv.params()[2], n) is not None]
    d_any = [v for n in ast.walk(fd.node) if isinstance(n, ast.Dict) for k, v in zip(n.keys, n.values)
             if isinstance(k, ast.Constant) and k.value == "CriticalPath"]
    t_attr = {pm.match("sum(M_x.M_a for M_x in %s)" % cv.params()[2], n)["M_a"] for n in t_any}
    d_sub = C.flow_of(fd).subst(d_any[0]) if d_any else None
    d_m = pm.match("sum(M_x.M_a for M_x in %s.get_critical_path())" % fd.params()[2], d_sub) if d_sub is not None else None
    ok = t_attr == {"latency_cp"} and d_m is not None and d_m["M_a"] == "latency_cp" and bool(cvc) \
        and len(cvc[0].args) > 1 and U(C.flow_of(fa).subst(cvc[0].args[1])) == "%s.get_critical_path()" % fa.params()[2]
    ctx.judge(ok, bool(t_any) and d_m is not None and bool(cvc), "R4", "both totals are sum(latency_cp) over get_critical_path()", cv.where(),
              "text and dict compute the CP total differently (text sums .%s, dict %s)" % (sorted(t_attr), U(d_sub) if d_sub is not None else None),
              "Frontend", "cp total agreement")
    cell = ctx.func("Frontend._get_lcd_cp_ports")
    cpat = pm.find("M_v = float(self._get_node_by_lineno(M_l, M_c).M_a)", cell.node)
    cpat = [x for x in cpat if "cp" in U(x[0].targets[0]).lower()] or cpat
    ctx.judge(bool(cpat) and cpat[0][1]["M_a"] == "latency_cp", bool(cpat), "R4",
              "the CP column shows latency_cp of the path's lines", cell.where(), "CP cell source changed", cell.qname, "cp cell")
