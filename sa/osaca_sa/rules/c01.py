"""C01 - port pressure is a feasible split of each instruction's micro-ops."""
import ast

from .. import pm
from ..pm import U
from . import common as C

TECHNIQUE = (
    'static analysis: exact shape check of the uniform split; origin analysis of every index used to write port_pressure in the balancer; pairing of the +/- quantum updates with their min/max index origins; typestate (UNIFORM -> BALANCED) of the kernel along the CFG of every caller of the balancer; single-aggregator check for per-port totals ; ownership (aliasing-depth) analysis of the costing functions'
)
EXPLANATION = (
    "R1 (exact for --fixed): average_port_pressure allocates one zero per model port and its only updates are res[index_of(p)] += cycles / len(ports) for every p of every (cycles, ports) of the selected micro-op list (option 0 by default) - non-negativity, support within the allowed ports, sum = total cycles and the Hall condition then hold by construction. R1b: on every path of assign_tp_lt port_pressure and port_uops are assigned from the same micro-op source (zero vector <-> []; average(x) <-> x; composed: C08-R1), and inside the balancer the two are always replaced together from the same source in the same block. R2: every store into an instruction's port_pressure inside the balancer is indexed by a value originating from `indices` = [port_list.index(p) for p in ports] of the current micro-op (or a filter of it). R3: every update by the quantum INC occurs as a pair -= INC / += INC on instr_ports and on differences; the decrement index originates from max(port_sums), the increment index from min(port_sums); the residual clean-up is the only unpaired update. R4: the per-micro-op cap differences = cycles/len(ports) is only sound on a uniformly split instruction: assign_optimal_throughput must not be applied to a kernel it has already balanced (typestate along every caller's CFG). R5: every per-port total that is shown or compared comes from get_throughput_sum = rounded column sums over the lines with throughput != 0.0; no other cross-instruction summation of port_pressure. R6: the micro-op lists and pressure vectors the split is computed from are the model's own rows, handed out by reference; the ownership analysis (C18) finds no in-place mutator applied to them in any costing function - an in-place += while composing one instruction would put pressure on foreign ports for every later instruction."
)
NOT_DECIDED = (
    "Numeric feasibility of the optimised split beyond R2-R4 (the Hall inequalities up to 0.01 are properties "
    "of the floating-point trajectory of the greedy loop)."
)
ASSUMPTIONS = ["micro-op lists are well-formed (C15-D1)", "ports of one micro-op are distinct (C15-D1 checks the port names)"]

BAL = "ArchSemantics.assign_optimal_throughput"


def _r1(ctx):
    ctx.rule("R1", "uniform split: zero vector per port; += cycles / len(ports) at index_of(p) for every p")
    f = ctx.func("MachineModel.average_port_pressure")
    pl = pm.find('M_l = self._data["ports"]', f.node)
    if pl:
        plist = U(pl[0][1]["M_l"])
    elif "self._data['ports']" in U(f.node):
        plist = "self._data['ports']"
    else:
        ctx.broken("R1: port list definition not found in average_port_pressure")
    init = pm.find_any(["M_r = [0.0] * len(%s)" % plist, "M_r = [0.0 for M__ in %s]" % plist,
                        "M_r = [0.0 for M__ in range(len(%s))]" % plist, "M_r = len(%s) * [0.0]" % plist], f.node)
    ctx.check(len(init) == 1, "R1", "result = one 0.0 per model port", f.where(), "the result vector is not allocated as one zero "
              "per model port", f.qname, "zero vector")
    if not init:
        return
    res = U(init[0][1]["M_r"])
    loops = [n for n in ast.walk(f.node) if isinstance(n, ast.For) and isinstance(n.target, ast.Tuple) and len(n.target.elts) == 2]
    if len(loops) != 1:
        ctx.broken("R1: micro-op loop not found")
    l = loops[0]
    cyc, ports = U(l.target.elts[0]), U(l.target.elts[1])
    inner = [n for n in ast.walk(l) if isinstance(n, ast.For) and U(n.iter) == ports]
    ctx.check(len(inner) == 1, "R1", "every port of a micro-op is visited", f.where(l), "ports of a micro-op are not iterated", f.qname, "port loop")
    # the micro-op's (cycles, ports) pair is used as unpacked: neither name is re-bound before the split
    rebound = [n for n in ast.walk(l) if isinstance(n, (ast.Assign, ast.AugAssign)) and any(
        isinstance(t, ast.Name) and t.id in (cyc, ports) for t in (n.targets if isinstance(n, ast.Assign) else [n.target]))]
    # a copy of the same collection keeps the set of ports
    rebound = [n for n in rebound if not (isinstance(n, ast.Assign) and U(n.value) in (
        "list(%s)" % ports, "tuple(%s)" % ports, "sorted(%s)" % ports, "set(%s)" % ports, "float(%s)" % cyc))]
    for n in rebound:
        ctx.node_bad("R1", f, n, "`%s` re-binds the %s of the micro-op before it is split: the port set that is charged is no longer the one "
                     "the model entry lists (a port string such as '12' that is also a port name would be charged as the single "
                     "port 12 instead of ports 1 and 2, while every other consumer still reads it as a set)" % (
                         U(n), "ports" if any(isinstance(t, ast.Name) and t.id == ports for t in (n.targets if isinstance(n, ast.Assign) else [n.target])) else "cycles"))
    if not rebound:
        ctx.ok("R1", "(cycles, ports) of a micro-op are used as unpacked", f.where(l))
    if inner:
        p = U(inner[0].target)
        upd = [n for n in ast.walk(f.node) if isinstance(n, (ast.AugAssign, ast.Assign)) and any(
            isinstance(t, ast.Subscript) and U(t.value) == res for t in ([n.target] if isinstance(n, ast.AugAssign) else n.targets))]
        good = [n for n in upd if isinstance(n, ast.AugAssign) and isinstance(n.op, ast.Add)
                and U(n.target) == "%s[%s.index(%s)]" % (res, plist, p)
                and U(n.value) in ("%s / len(%s)" % (cyc, ports),) and C.in_subtree(n, inner[0])]
        ctx.check(len(upd) == 1 and len(good) == 1, "R1", "only update: res[index_of(p)] += cycles / len(ports)", f.where(l),
                  "the uniform split is not `%s[%s.index(%s)] += %s / len(%s)` as the only update (updates: %s)" % (
                      res, plist, p, cyc, ports, [U(u) for u in upd]), f.qname, "uniform share")
    rets = [r for r in ast.walk(f.node) if isinstance(r, ast.Return)]
    def _uncopied(e):
        while True:
            if isinstance(e, ast.Call) and isinstance(e.func, ast.Name) and e.func.id in ("list", "tuple") and len(e.args) == 1 and not e.keywords:
                e = e.args[0]
            elif isinstance(e, ast.Call) and isinstance(e.func, ast.Attribute) and e.func.attr == "copy" and not e.args:
                e = e.func.value
            elif isinstance(e, ast.Subscript) and isinstance(e.slice, ast.Slice) and e.slice.lower is None and e.slice.upper is None and e.slice.step is None:
                e = e.value
            else:
                return e
    ret_ok, ret_rec = False, True
    if len(rets) == 1 and rets[0].value is not None:
        rv = _uncopied(rets[0].value)
        if U(rv) == res:
            ret_ok = True
        elif isinstance(rv, ast.Name):
            # a copy of the vector kept in a memo table of the model and handed out as a fresh list
            try:
                ds_ = C.flow_of(f).reaching(rets[0], rv.id)
            except Exception:
                ds_ = []
            kinds = []
            for d_ in ds_:
                v_ = _uncopied(d_.value) if getattr(d_, "value", None) is not None else None
                if v_ is not None and U(v_) == res:
                    kinds.append("vec")
                elif v_ is not None and ((isinstance(v_, ast.Call) and isinstance(v_.func, ast.Attribute) and v_.func.attr == "get") or isinstance(v_, ast.Subscript)) \
                        and U(rets[0].value) != rv.id:
                    kinds.append("memo")        # (handed out as a copy: `return list(cached)`)
                else:
                    kinds.append("?")
            ret_ok = bool(kinds) and "vec" in kinds and "?" not in kinds
            ret_rec = ret_ok or not kinds or "?" not in kinds
            if not ret_ok and "?" in kinds:
                ret_rec = False
    ctx.judge(ret_ok, ret_rec, "R1", "the vector is returned unchanged", f.where(), "return changed", f.qname, "return")
    sel = [(n, b) for n, b in pm.find("M_u = M_pp[M_opt]", f.node) if isinstance(b["M_opt"], ast.Name)]
    if not sel:
        # the selection as one branch of a conditional expression: u = pp[opt] if isinstance(pp, dict) else pp
        for n in ast.walk(f.node):
            if isinstance(n, ast.Assign) and isinstance(n.value, ast.IfExp):
                for br in (n.value.body, n.value.orelse):
                    b = pm.match("M_pp[M_opt]", br)
                    if b is not None and isinstance(b["M_opt"], ast.Name):
                        b["M_u"] = n.targets[0]
                        sel.append((n, b))
    if not sel and isinstance(l.iter, ast.IfExp):
        for br in (l.iter.body, l.iter.orelse):
            b = pm.match("M_pp[M_opt]", br)
            if b is not None and isinstance(b["M_opt"], ast.Name):
                b["M_u"] = l.iter
                sel.append((l, b))
    a = f.node.args
    dflt = {x.arg: d for x, d in zip(a.args[len(a.args) - len(a.defaults):], a.defaults)}
    ok = bool(sel) and U(sel[0][1]["M_opt"]) in dflt and C.const_num(dflt[U(sel[0][1]["M_opt"])]) == 0 and U(l.iter) == U(sel[0][1]["M_u"])
    ctx.judge(ok, bool(sel), "R1", "of several alternatives, option 0 is costed by default", f.where(), "default alternative is not option 0 or the "
              "selected list is not the one iterated", f.qname, "default option")


def _r1b(ctx):
    ctx.rule("R1b", "port_pressure and port_uops are assigned from the same micro-op source on every path")
    f = ctx.func("ArchSemantics.assign_tp_lt")
    h = ctx.func("ArchSemantics._handle_instruction_found")
    # non-instruction path and malformed-entry fallback: zeros <-> []
    zero_sites = [n for n in ast.walk(f.node) if isinstance(n, ast.Assign) and U(n.targets[0]) == "instruction_form.port_pressure"
                  and C.zero_vector(n.value) is not None]
    for z in zero_sites:
        blk = getattr(z, "_parent", None)
        body = blk.body if z in getattr(blk, "body", []) else getattr(blk, "orelse", [])
        has_empty = any(U(s) == "instruction_form.port_uops = []" for s in body)
        unknown = any(C.mentions(ctx, f, s, "TP_UNKWN") for s in body)
        ctx.check(has_empty or unknown, "R1b", "zero pressure goes with no micro-ops", f.where(z),
                  "a path assigns zero pressure without resetting port_uops (and is not the unknown path, where port_uops "
                  "keeps its initial [])", f.qname, "zero <-> [] at line offset %d" % (z.lineno - f.node.lineno))
    ctx.floor("R1b", "zero-pressure sites in assign_tp_lt", len(zero_sites), 2)
    pp = pm.find("M_p = self._machine_model.average_port_pressure(instruction_data.port_pressure)", h.node)
    def same_container(v):
        """the entry's micro-op container itself or a type-preserving copy of it (True) / a re-built container (False) /
        something else (None)"""
        while isinstance(v, ast.Call) and (pm.call_name(v) or "").split(".")[-1] in ("deepcopy", "copy") and len(v.args) == 1:
            v = v.args[0]
        if U(v) == "instruction_data.port_pressure":
            return True
        if isinstance(v, ast.Call) and (pm.call_name(v) or "") in ("list", "tuple", "sorted", "set") and v.args \
                and U(v.args[0]) == "instruction_data.port_pressure":
            return False        # iterating an alternatives map yields its keys (C15-R3 has the data fact)
        if isinstance(v, ast.Attribute) and U(v.value) == "instruction_data":
            return False        # another field of the entry
        return None
    pus = [(n, same_container(C.flow_of(h).subst(b["M_v"]))) for n, b in pm.find("instruction_form.port_uops = M_v", h.node)
           if U(b["M_v"]) != "[]"]
    pu = [n for n, v in pus if v is True]
    st = pm.find("instruction_form.port_pressure = %s" % (U(pp[0][1]["M_p"]) if pp else "port_pressure"), h.node)
    ctx.judge(bool(pp) and bool(pu) and bool(st) and all(v is True for _, v in pus), bool(pus) and all(v is not None for _, v in pus),
              "R1b", "found entry: pressure = average(entry micro-ops), port_uops = entry micro-ops",
              h.where(), "a directly matched entry no longer gets pressure and micro-ops from the same entry field", h.qname,
              "found path agreement")
    fb = [n for n in ast.walk(h.node) if isinstance(n, ast.ExceptHandler)]
    ok = bool(fb) and any(C.is_zero_vector_assign(s, "instruction_form.port_pressure") for s in fb[0].body) and any(
        U(s) == "instruction_form.port_uops = []" for s in fb[0].body)
    ctx.check(ok, "R1b", "malformed-entry fallback: zero pressure and no micro-ops", h.where(), "fallback path changed", h.qname, "fallback agreement")
    ctx.ok("R1b", "composed path: see C08-R1 (sum of averages <-> concatenation of micro-ops)", f.where())
    # inside the balancer: wherever an instruction's pressure or micro-ops are replaced from another assignment,
    # both are replaced together, from the same source, under the same condition
    b = ctx.func(BAL)
    repl = []
    for n in ast.walk(b.node):
        if isinstance(n, ast.Assign) and isinstance(n.targets[0], ast.Attribute) and n.targets[0].attr in ("port_pressure", "port_uops") \
                and isinstance(n.targets[0].value, ast.Subscript):
            repl.append(n)
    by_recv = {}
    for n in repl:
        by_recv.setdefault(U(n.targets[0].value), []).append(n)
    for recv, sts in sorted(by_recv.items()):
        pp = [x for x in sts if x.targets[0].attr == "port_pressure"]
        pu = [x for x in sts if x.targets[0].attr == "port_uops"]
        for x in pp:
            partner = None
            for y in pu:
                same_block = getattr(x, "_parent", None) is getattr(y, "_parent", None)
                if not same_block:
                    continue
                vx, vy = U(x.value), U(y.value)
                # from the same other instruction, or pressure = average(the micro-ops just stored)
                if vx.replace(".port_pressure", "") == vy.replace(".port_uops", "") or vx.endswith(
                        "average_port_pressure(%s.port_uops)" % recv):
                    partner = y
            ctx.check(partner is not None, "R1b", "%s: pressure and micro-ops are replaced together" % recv, b.where(x),
                      "`%s` replaces the pressure of %s, but its port_uops are not replaced from the same source in the same "
                      "block (unconditionally): the instruction then reports pressure from one port assignment and micro-ops of "
                      "another, i.e. pressure on ports no micro-op of the selected assignment may use" % (U(x), recv), b.qname,
                      "pairing for %s: %s" % (recv, U(x)))
    ctx.floor("R1b", "pressure replacements inside the balancer", sum(1 for n in repl if n.targets[0].attr == "port_pressure"), 2)


def balancer_parts(ctx):
    """Named parts of the balancing loop, shared with C02."""
    f = ctx.func(BAL)
    uop_loops = [n for n in ast.walk(f.node) if isinstance(n, ast.For) and U(n.iter) == "instruction_form.port_uops"]
    if len(uop_loops) != 1:
        ctx.broken("balancer: loop over instruction_form.port_uops not found")
    ul = uop_loops[0]
    uop = U(ul.target)
    parts = {"f": f, "uop_loop": ul}
    # the per-micro-op definitions: assignments of the micro-op loop that are not inside the step loop (first definition
    # of each name; they may sit under guards - `if len(indices) < 2: continue` nests the rest)
    d = {}
    inner = [n for n in ast.walk(ul) if isinstance(n, (ast.For, ast.While)) and n is not ul]
    for n in ast.walk(ul):
        if isinstance(n, ast.Assign) and isinstance(n.targets[0], ast.Name) and not any(C.in_subtree(n, l) for l in inner):
            d.setdefault(n.targets[0].id, n)
    parts["defs"] = d
    steps = [n for n in ast.walk(ul) if isinstance(n, ast.For) and C.is_call_to(n.iter, "range") and "INC" in U(n.iter)]
    if len(steps) != 1:
        ctx.broken("balancer: step loop `for _ in range(int(cycles * (1 / INC)))` not found")
    parts["step_loop"] = steps[0]
    inc = [a for a in C.assigns_to(f.node, "INC")]
    parts["inc"] = inc[0] if inc else None
    return parts


def _r2(ctx, P):
    ctx.rule("R2", "every store into port_pressure in the balancer is indexed through the current micro-op's `indices`")
    f, ul, d = P["f"], P["uop_loop"], P["defs"]
    uop = U(ul.target)
    ports_def = d.get("ports")
    ind = d.get("indices")
    # every definition of `indices` in the micro-op loop is the full comprehension or a filter of `indices` itself
    ind_defs = [a for a in ast.walk(ul) if isinstance(a, ast.Assign) and U(a.targets[0]) == "indices"]
    full = [a for a in ind_defs if U(a.value) == "[port_list.index(p) for p in ports]"]
    filt = [a for a in ind_defs if pm.match("[M_x for M_x in indices if M_c]", a.value) is not None]
    ok = ports_def is not None and U(ports_def.value) in ("list(%s[1])" % uop, "%s[1]" % uop) and len(full) == 1 and len(full) + len(
        filt) == len(ind_defs) and C.enclosing_loop(full[0]) is ul and all(C.cfg_of(f).dominates(full[0], x) for x in filt)
    pl = [a for a in C.assigns_to(f.node, "port_list")]
    ok = ok and bool(pl) and U(pl[0].value) == "self._machine_model.get_ports()"
    ctx.check(ok, "R2", "indices = positions of the micro-op's own ports in the model's port list", f.where(ul),
              "`indices` is not [port_list.index(p) for p in ports] with ports = the current micro-op's ports", f.qname, "indices definition")
    stores = []
    for n in ast.walk(ul):
        if isinstance(n, ast.Call) and isinstance(n.func, ast.Call) and C.is_call_to(n.func, "_itemsetter"):
            stores.append(("itemsetter", n))
        elif isinstance(n, (ast.Assign, ast.AugAssign)):
            tg = n.targets if isinstance(n, ast.Assign) else [n.target]
            for t in tg:
                if isinstance(t, ast.Subscript) and U(t.value).endswith(".port_pressure"):
                    stores.append(("subscript", n))
    ctx.floor("R2", "stores into port_pressure inside the balancing loop", len(stores), 3)
    for kind, n in stores:
        if kind == "itemsetter":
            idx_args = [U(a) for a in n.func.args]
            good = idx_args == ["*indices"] and U(n.args[0]) == "instruction_form.port_pressure"
            ctx.check(good, "R2", "_itemsetter(*indices)(instruction_form.port_pressure, ...)", f.where(n),
                      "port pressure is written at %s of %s" % (idx_args, U(n.args[0])), f.qname, U(n)[:100])
            ctx.check([U(a) for a in n.args[1:]] == ["*instr_ports"], "R2", "values written are the balanced per-port values", f.where(n),
                      "values written: %s" % [U(a) for a in n.args[1:]], f.qname, "values " + U(n)[:80])
        else:
            t = n.targets[0] if isinstance(n, ast.Assign) else n.target
            idx = t.slice
            flow = C.flow_of(f)
            origin = flow.origin_text(idx) if isinstance(idx, ast.Name) else [U(idx)]
            good = U(t.value) == "instruction_form.port_pressure" and all(
                ("for p in indices" in o) or o == "indices" for o in origin)
            ctx.check(good, "R2", "subscript store index originates from `indices`: %s" % U(n), f.where(n),
                      "port_pressure[%s] is written, but %s does not originate from the micro-op's own indices (%s)" % (
                          U(idx), U(idx), origin), f.qname, U(n)[:100])
    # the local helper stores its value arguments at its index arguments
    its = ctx.func("ArchSemantics._itemsetter")
    inner = [n for n in ast.walk(its.node) if isinstance(n, ast.FunctionDef) and n is not its.node]
    single = [g for g in inner if g.args.vararg is None and len(g.args.args) == 2]
    multi = [g for g in inner if g.args.vararg is not None and len(g.args.args) == 1]
    ok = len(inner) == 2 and all(all(isinstance(s, (ast.Assign, ast.For)) for s in g.body) for g in inner)
    if ok and single and multi:
        o1, v1 = single[0].args.args[0].arg, single[0].args.args[1].arg
        st1 = [b for _, b in pm.find("%s[M_i] = %s" % (o1, v1), single[0])]
        i_def = [a for a in C.assigns_to(its.node, U(st1[0]["M_i"])) if isinstance(a, ast.Assign)] if st1 else []
        ok = len(st1) == 1 and len(single[0].body) == 1 and any(U(a.value) == "%s[0]" % its.node.args.vararg.arg for a in i_def)
        o2, vs = multi[0].args.args[0].arg, multi[0].args.vararg.arg
        ok = ok and len(multi[0].body) == 1 and bool(pm.find(
            "for M_i, M_v in zip(%s, %s):\n    %s[M_i] = M_v" % (its.node.args.vararg.arg, vs, o2), multi[0]))
    else:
        ok = False
    ctx.judge(ok, len(inner) == 2 and bool(single) and bool(multi), "R2", "_itemsetter(*items)(obj, *values) stores values[k] at obj[items[k]] and nothing else", its.where(),
              "the summary of _itemsetter no longer holds", its.qname, "itemsetter summary")


def _r3(ctx, P):
    ctx.rule("R3", "quantum updates come in -INC/+INC pairs; take from the max-loaded, give to the min-loaded port")
    f, sl = P["f"], P["step_loop"]
    inc = P["inc"]
    ctx.check(inc is not None and C.const_num(inc.value) == 0.01, "R3", "INC = 0.01", f.where(inc) if inc is not None else f.where(),
              "balancing quantum is %s" % (U(inc.value) if inc is not None else None), f.qname, "INC")
    direct = [n for n in sl.body if isinstance(n, ast.AugAssign)]
    by_target = {}
    for n in direct:
        if U(n.value) == "INC" and isinstance(n.target, ast.Subscript):
            by_target.setdefault(U(n.target.value), []).append(n)
    for arr in ("instr_ports", "differences"):
        ups = by_target.get(arr, [])
        minus = [n for n in ups if isinstance(n.op, ast.Sub)]
        plus = [n for n in ups if isinstance(n.op, ast.Add)]
        ok = len(minus) == 1 and len(plus) == 1
        ctx.check(ok, "R3", "%s: one `-= INC` and one `+= INC` per step" % arr, f.where(sl),
                  "per step %s gets %d decrement(s) and %d increment(s) of INC: cycles are created or destroyed" % (
                      arr, len(minus), len(plus)), f.qname, "%s pairing" % arr)
        if ok:
            mi, pi = U(minus[0].target.slice), U(plus[0].target.slice)
            dm = [a for a in sl.body if isinstance(a, ast.Assign) and U(a.targets[0]) == mi]
            dp = [a for a in sl.body if isinstance(a, ast.Assign) and U(a.targets[0]) == pi]
            okm = bool(dm) and U(dm[0].value) == "port_sums.index(max(port_sums))"
            okp = bool(dp) and U(dp[0].value) == "port_sums.index(min(port_sums))"
            ctx.check(okm, "R3", "%s: the decrement hits the port with the largest kernel total" % arr, f.where(minus[0]),
                      "the port that loses INC is %s = %s, not the most loaded one" % (mi, U(dm[0].value) if dm else "?"), f.qname, "%s donor" % arr)
            ctx.check(okp, "R3", "%s: the increment hits the port with the smallest kernel total" % arr, f.where(plus[0]),
                      "the port that gains INC is %s = %s, not the least loaded one" % (pi, U(dp[0].value) if dp else "?"), f.qname, "%s receiver" % arr)
    other = [n for n in direct if U(n.value) != "INC" or U(n.target.value) not in ("instr_ports", "differences")] if direct else []
    ctx.check(not other, "R3", "no other per-step update at the top level of the step loop", f.where(sl),
              "unexpected per-step updates: %s" % [U(o) for o in other], f.qname, "other updates")
    # residual clean-up: the only unpaired update, guarded by round(min(instr_ports), 2) <= 0
    res = [n for n in ast.walk(sl) if isinstance(n, ast.AugAssign) and n not in direct]
    for n in res:
        facts = [U(e) for e, p in C.facts_at(n, stop=sl) if p]
        okr = "round(min(instr_ports), 2) <= 0" in facts and U(n.value) == "min(instr_ports)" and isinstance(n.op, ast.Add)
        ctx.check(okr, "R3", "residual clean-up adds the sub-quantum rest: %s" % U(n), f.where(n),
                  "unpaired update `%s` outside the residual clean-up (facts: %s)" % (U(n), facts), f.qname, U(n))
    # port_sums / instr_ports / differences are parallel views over the same indices
    d = P["defs"]
    ok = "port_sums" in d and "instr_ports" in d and U(d["port_sums"].value) == "self._to_list(itemgetter(*indices)(self.get_throughput_sum(kernel)))" \
        and U(d["instr_ports"].value) == "self._to_list(itemgetter(*indices)(instruction_form.port_pressure))"
    ctx.check(ok, "R3", "port_sums and instr_ports are views of the kernel totals / the instruction's pressure at `indices`", f.where(),
              "port_sums / instr_ports are not both itemgetter(*indices) views", f.qname, "parallel views")
    dif = [a for a in ast.walk(P["uop_loop"]) if isinstance(a, ast.Assign) and U(a.targets[0]) == "differences"]
    def _cap_ok(v):
        # `[] if len(ports) == 0 else X` (an empty port list has no share to cap): X decides
        if isinstance(v, ast.IfExp):
            arms = [a for a in (v.body, v.orelse) if not (isinstance(a, ast.List) and not a.elts)]
            if len(arms) == 1 and "len(ports)" in U(v.test) or len(arms) == 1 and U(v.test) in ("ports", "not ports"):
                return _cap_ok(arms[0])
            return False
        m1 = pm.match("[cycles / len(ports) for M_x in M_s]", v)
        if m1 is not None:
            return U(m1["M_s"]) in ("ports", "indices")
        for pat in ("[cycles / len(ports)] * len(M_s)", "len(M_s) * [cycles / len(ports)]"):
            m2 = pm.match(pat, v)
            if m2 is not None:
                return U(m2["M_s"]) in ("ports", "indices")
        return False
    ctx.check(bool(dif) and _cap_ok(dif[0].value), "R3",
              "cap per port = the uniform share cycles / len(ports)", f.where(dif[0]) if dif else f.where(),
              "the per-port cap is %s" % (U(dif[0].value) if dif else None), f.qname, "cap definition")
    refresh = [a for a in sl.body if isinstance(a, ast.Assign) and U(a.targets[0]) == "port_sums"]
    ctx.check(bool(refresh) and refresh[-1] is sl.body[-1], "R3", "kernel totals are re-read after every step", f.where(sl),
              "port_sums is not refreshed at the end of every balancing step", f.qname, "refresh totals")


def typestate_findings(ctx, rule):
    """R4: the balancer must not run on a kernel it already balanced."""
    sites = 0
    for g in ctx.repo.all_funcs():
        if g.file.startswith("osaca/data/"):
            continue
        calls = [c for c in C.calls_to(g.node, "assign_optimal_throughput")]
        if not calls:
            continue
        cfg = C.cfg_of(g)
        ctx.touch(g)
        by_var = {}
        for c in calls:
            by_var.setdefault(U(c.args[0]) if c.args else "?", []).append(c)
        for var, cs in by_var.items():
            resets = [x for x in C.calls_to(g.node, "add_semantics") if x.args and U(x.args[0]) == var]
            resets += [a for a in ast.walk(g.node) if isinstance(a, ast.Assign) and U(a.targets[0]) == var]
            for c2 in cs:
                sites += 1
                prior = [c1 for c1 in cs if (c1 is not c2 and cfg.reachable(c1, c2, avoid=resets)) or (
                    c1 is c2 and cfg.reachable(c1, c2, avoid=resets))]
                if not prior:
                    ctx.node_ok(rule, g, c2, "balancer applied to a kernel in state UNIFORM (%s)" % U(c2))
                    continue
                ordinal = cs.index(c2) + 1
                ctx.bad(rule, "%s call #%d on %s" % (g.qname, ordinal, var), g.where(c2),
                        "assign_optimal_throughput is applied to `%s` although a previous call (line %d) has already "
                        "balanced it and nothing re-establishes the uniform split in between: the per-micro-op cap "
                        "`differences = cycles / len(ports)` assumes that each port still holds that uniform share, so the "
                        "second pass can move more than a micro-op owns on a port (e.g. micro-ops [[1,'01'],[1,'12']] -> "
                        "[1.5, 0.5, 0]: port 0 carries 1.5 cycles although only one micro-op may use it)" % (
                            var, prior[0].lineno), g.qname, "%s  [call #%d on %s]" % (U(c2), ordinal, var), g.module.excerpt(c2))
    return sites


def _r4(ctx):
    ctx.rule("R4", "typestate: the balancer runs only on a uniformly split kernel")
    n = typestate_findings(ctx, "R4")
    ctx.floor("R4", "call sites of assign_optimal_throughput", n, 2)
    # the recursive call works on a deep copy whose element idx was re-averaged and starts at idx
    f = ctx.func(BAL)
    rec = [c for c in C.calls_to(f.node, "assign_optimal_throughput")]
    for c in rec:
        var = U(c.args[0])
        dc = [a for a in C.assigns_to(f.node, var) if C.is_call_to(a.value, "deepcopy")]
        reavg = pm.find("%s[idx].port_pressure = self._machine_model.average_port_pressure(%s[idx].port_uops)" % (var, var), f.node)
        ok = bool(dc) and bool(reavg) and len(c.args) == 2 and U(c.args[1]) == "idx"
        ctx.check(ok, "R4", "recursive call: deep copy, element idx re-averaged, processing starts at idx", f.where(c),
                  "the recursive exploration of an alternative does not run on a deep copy with the alternative re-averaged from idx on",
                  f.qname, "recursive call shape")


def _r5(ctx):
    ctx.rule("R5", "all per-port totals come from get_throughput_sum (rounded column sums over lines with throughput != 0)")
    s = ctx.func("ArchSemantics.get_throughput_sum")
    sh = C.aggregator_shape(ctx)
    good = sh["ok"] and sh["rows_elt"] == "I.port_pressure" and sh["filter"] == ["I.throughput != 0.0"] and not sh["inner_rounds"] \
        and C.const_value(ctx, s, sh["digits"]) == 2
    ctx.judge(good, sh["ok"], "R5", "get_throughput_sum = [round(sum(column), 2)] over lines with throughput != 0.0", s.where(),
              "get_throughput_sum is no longer the rounded column sum over the lines with non-zero throughput (rows: %s, filter: %s, "
              "digits: %s%s)" % (sh["rows_elt"], sh["filter"], U(sh["digits"]) if sh["digits"] is not None else None,
                                 ", per-line rounding" if sh["inner_rounds"] else "") if sh["ok"] else sh["why"], s.qname, "aggregator shape")
    # no other cross-instruction summation over port_pressure
    offenders = []
    users = 0
    for f in ctx.repo.all_funcs():
        if f.file.startswith("osaca/data/") or f.qname == s.qname:
            continue
        users += len(C.calls_to(f.node, "get_throughput_sum"))
        for n in ast.walk(f.node):
            if C.is_call_to(n, "sum") or (C.is_call_to(n, "zip") and any(isinstance(a, ast.Starred) for a in n.args)):
                t = U(n)
                # sums ranging over several instructions' pressures
                if "port_pressure" in t and ("for " in t) and any(w in t for w in ("kernel", "instr ", "instruction_form in")):
                    offenders.append((f, n))
    for f, n in offenders:
        ctx.node_bad("R5", f, n, "a second cross-instruction summation of port_pressure outside get_throughput_sum: the totals "
                     "shown and the totals the balancer compares can diverge")
    ctx.check(users >= 5, "R5", "%d consumers obtain the totals from get_throughput_sum" % users, s.where(),
              "only %d call sites use get_throughput_sum (frontend x3, balancer x4 confirmed by hand)" % users, s.qname, "consumers")
    if not offenders:
        ctx.ok("R5", "no other cross-instruction summation over port_pressure in the package", s.where())


def _r6(ctx):
    """The micro-op lists the split is computed from are the model's own rows (handed out by reference): an in-place
    change while costing one instruction shows up as pressure on foreign ports for every later instruction."""
    from .c18 import effects_of, mutation_findings

    ctx.rule("R6", "the micro-op lists and pressure vectors of the model are never changed in place while an instruction is costed")
    eff = effects_of(ctx)
    only = {q for q in eff.summ if q.startswith("ArchSemantics.")} | {
        "MachineModel.get_load_throughput", "MachineModel.get_store_throughput", "MachineModel.average_port_pressure",
        "MachineModel.get_instruction", "MachineModel._match_mem_entries"}
    n = mutation_findings(ctx, eff, "R6", only_funcs=only)
    ctx.ok("R6", "%d in-place mutation site(s) in the costing functions examined" % n, ctx.func("ArchSemantics.assign_tp_lt").where())


def run(ctx):
    C.require_locals(ctx, ctx.func('ArchSemantics.assign_optimal_throughput'), ['INC', 'port_list', 'indices', 'ports', 'cycles', 'port_sums', 'instr_ports', 'differences', 'max_port_idx', 'min_port_idx', 'kernel', 'instruction_form', 'idx', 'k_tmp'])
    C.require_locals(ctx, ctx.func('ArchSemantics.assign_tp_lt'), ['instruction_form', 'port_number', 'flags'])
    C.require_locals(ctx, ctx.func('ArchSemantics._handle_instruction_found'), ['instruction_data', 'instruction_form'])
    _r1(ctx)
    _r1b(ctx)
    # the composed path (register form + load / store micro-ops): the pressure vector is the sum of the averaged pressures
    # of exactly the micro-ops that are concatenated into port_uops, each part scaled by its own multiplier only (C08-R1)
    from . import c08
    ctx.rule("R1c", "composed instruction forms: pressure = reg + m_load*load + m_store*store over the micro-ops kept in port_uops (C08-R1)")
    C.embed(ctx, "C08", c08.composition_rule, "R1c", "composed form (C08-R1)",
            "the per-port pressure of a composed instruction no longer is the sum over its micro-ops (each scaled by its own multiplier)",
            ctx.func("ArchSemantics.assign_tp_lt").where())
    P = balancer_parts(ctx)
    _r2(ctx, P)
    _r3(ctx, P)
    _r4(ctx)
    _r5(ctx)
    _r6(ctx)
