"""C11 - kernel selection is exact and non-instruction lines are transparent."""
import ast
import re

from .. import pm
from ..pm import U
from . import common as C

TECHNIQUE = "static analysis: affine index arithmetic of the marker search compared with its specification, slot-wise sibling comparison of the start/end marker branches, marker constants cross-checked between code, emitted marker text and README, inclusive-range arithmetic of --lines, guard-dominates-use of the `mnemonic is None` neutral paths"
EXPLANATION = (
    "R1: byte markers: start index = i + 1 + (number of consumed .byte lines), end index = i; comment markers: start = i + 1, end = i; reduce_to_section slices [start:end] with -1 mapped to 0 / len; in match_bytes the line count and the scan index advance in lockstep. R2: start and end branches are identical up to the value slot (mov_vals[0] / mov_vals[1]) and the assigned index, each the conjunction immediate value and destination register full name and byte match; operand order follows `reverse`. R3: the constants passed by find_marked_kernel_x86ATT / AArch64 equal the marker text emitted by get_marker and the README's marker blocks (111/222, ebx/x1, 100,103,144 / 213,3,32,31, OSACA-BEGIN/END). R4: --lines ranges are inclusive (end + 1), ':' is '-', comma separated, selection by line_number membership. R5: each semantic stage tests `mnemonic is None` before touching mnemonic/operands and yields the neutral value; the summary skips zero-throughput lines. R6: --lines selects by line_number, so the numbering rule of the parser (C09-R1: physical position + 1 + start_line, blank lines counted) is re-checked here."
)
NOT_DECIDED = "End-to-end equality of the three analyses (marked file, --lines, extracted file) on real inputs."
ASSUMPTIONS = ["parsed directive parameters of a `.byte` line are the byte literals (C09/C10)"]


def _r1(ctx):
    ctx.rule("R1", "marker indices: start = first line after the marker, end = marker line")
    f = ctx.func("marker_utils.find_marked_section")
    loops = [n for n in ast.walk(f.node) if isinstance(n, ast.For) and C.is_call_to(n.iter, "enumerate")]
    if len(loops) != 1 or not isinstance(loops[0].target, ast.Tuple):
        ctx.broken("R1: enumerate loop not found in find_marked_section")
    loop = loops[0]
    i = U(loop.target.elts[0])
    ctx.check(U(loop.iter.args[0]) == f.params()[0] and C.arg_of(loop.iter, 1, "start") is None, "R1",
              "indices are positions in the given line list", f.where(loop),
              "the marker search enumerates %s" % U(loop.iter), f.qname, "enumerate source")
    starts = [a for a in ast.walk(loop) if isinstance(a, ast.Assign) and U(a.targets[0]) == "index_start"]
    ends = [a for a in ast.walk(loop) if isinstance(a, ast.Assign) and U(a.targets[0]) == "index_end"]
    ctx.floor("R1", "index assignments", len(starts) + len(ends), 4)
    for a in starts:
        aff = C.affine(a.value)
        under_bytes = any(C.is_call_to(s.value, "match_bytes") for s in ast.walk(loop) if isinstance(s, ast.Assign)
                          and C.cfg_of(f).dominates(s, a) and s.lineno < a.lineno and _same_branch(s, a))
        if under_bytes:
            cnt = [U(s.targets[0].elts[1]) for s in ast.walk(loop) if isinstance(s, ast.Assign)
                   and C.is_call_to(s.value, "match_bytes") and isinstance(s.targets[0], ast.Tuple) and _same_branch(s, a)]
            ok = bool(cnt) and aff == {i: 1, 1: 1, cnt[-1]: 1}
            what = "byte marker: start = i + 1 + consumed .byte lines"
        else:
            ok = aff == {i: 1, 1: 1}
            what = "comment marker: start = i + 1"
        if ok:
            ctx.node_ok("R1", f, a, what)
        else:
            ctx.node_bad("R1", f, a, "%s expected, found `%s`: the kernel would start on the marker itself or skip its "
                         "first line" % (what, U(a)))
    for a in ends:
        ok = C.affine(a.value) == {i: 1, 1: 0}
        if ok:
            ctx.node_ok("R1", f, a, "end = index of the marker line (exclusive)")
        else:
            ctx.node_bad("R1", f, a, "end index must be the marker's own index (slice end is exclusive), found `%s`" % U(a))
    # defaults and slice
    for nm in ("index_start", "index_end"):
        init = [a for a in C.assigns_to(f.node, nm) if not C.in_subtree(a, loop)]
        ctx.check(len(init) == 1 and C.const_num(init[0].value) == -1, "R1", "%s defaults to -1 (no marker)" % nm, f.where(),
                  "%s does not default to -1" % nm, f.qname, "%s default" % nm)
    rets = [r for r in ast.walk(f.node) if isinstance(r, ast.Return)]
    ctx.check(len(rets) == 1 and U(rets[0].value) == "(index_start, index_end)", "R1", "returns (start, end)", f.where(),
              "find_marked_section does not return (index_start, index_end)", f.qname, "return order")
    r = ctx.func("marker_utils.reduce_to_section")
    k = r.params()[0]
    sl = [n for n in ast.walk(r.node) if isinstance(n, ast.Return) and n.value is not None]
    ok = len(sl) == 1 and U(sl[0].value) == "%s[start:end]" % k
    m0 = pm.find("if start == -1:\n    start = 0", r.node)
    m1 = pm.find("if end == -1:\n    end = len(%s)" % k, r.node)
    ctx.check(ok and bool(m0) and bool(m1), "R1", "kernel = lines[start:end]; -1 -> 0 / len", r.where(),
              "reduce_to_section is not `lines[start:end]` with missing markers mapped to the file's bounds", r.qname,
              "section slice")
    for isa, fn in (("x86", "find_marked_kernel_x86ATT"), ("aarch64", "find_marked_kernel_AArch64")):
        # the unpacking statement sits where `isa == '<isa>'` holds (branch, elif, or after a guard clause)
        unp = [n for n in ast.walk(r.node) if isinstance(n, ast.Assign) and U(n.value) == "%s(%s)" % (fn, k)
               and U(n.targets[0]) in ("(start, end)", "start, end")]
        # (canonicalisation splits `a, b = f(x)` only for tuple values, so the unpacking stays one statement)
        hit = [n for n in unp if C.holds_at(n, "isa == '%s'" % isa)]
        ctx.check(bool(hit), "R1", "%s kernels use %s with (start, end) unpacking" % (isa, fn), r.where(),
                  "reduce_to_section no longer unpacks start, end = %s(lines) for %s" % (fn, isa), r.qname, "dispatch " + isa)
    # match_bytes lockstep
    mb = ctx.func("marker_utils.match_bytes")
    wl = [n for n in ast.walk(mb.node) if isinstance(n, ast.While)]
    if len(wl) != 1:
        ctx.broken("R1: while loop of match_bytes not found")
    idx = mb.params()[1]
    incs = {U(s.target): C.const_num(s.value) for s in wl[0].body if isinstance(s, ast.AugAssign) and isinstance(s.op, ast.Add)}
    cnt = [k2 for k2 in incs if k2 != idx and isinstance(incs[k2], int)]
    ctx.check(incs.get(idx) == 1 and len(cnt) == 1 and incs[cnt[0]] == 1, "R1", "line count and scan index advance in lockstep",
              mb.where(wl[0]), "match_bytes increments %s per consumed line" % incs, mb.qname, "lockstep")
    t = U(wl[0].test)
    ctx.check("%s < len(%s)" % (idx, mb.params()[0]) in t and "directive is not None" in t and "directive.name == 'byte'" in t,
              "R1", "only consecutive .byte directives are consumed", mb.where(wl[0]), "loop condition is %s" % t, mb.qname,
              "byte loop condition")
    ret_true = [r2 for r2 in ast.walk(mb.node) if isinstance(r2, ast.Return) and isinstance(r2.value, ast.Tuple)
                and U(r2.value.elts[0]) == "True"]
    ebytes = U(wl[0].body[1].target) if len(wl[0].body) > 1 and isinstance(wl[0].body[1], ast.AugAssign) else "extracted_bytes"
    want = mb.params()[2]
    prefix_eq, zip_eq, len_ok = False, False, False
    if ret_true:
        for e, p in C.norm_fact_nodes(ret_true[0]):
            t_ = C.CT(U(e))
            if p and t_ in (C.CT(C.canon_eq("%s[0:len(%s)]" % (ebytes, want), want)), C.CT("%s[0:len(%s)] == %s" % (ebytes, want, want)),
                            C.CT("%s[:len(%s)] == %s" % (ebytes, want, want)), C.CT("%s == %s[:len(%s)]" % (want, ebytes, want)),
                            C.CT("%s == %s[0:len(%s)]" % (want, ebytes, want))):
                prefix_eq = True
            # all(a == b for a, b in zip(collected, marker)): equal as far as the shorter one goes ...
            if p and isinstance(e, ast.Call) and isinstance(e.func, ast.Name) and e.func.id == "all" and len(e.args) == 1 \
                    and isinstance(e.args[0], (ast.GeneratorExp, ast.ListComp)) and len(e.args[0].generators) == 1:
                g_ = e.args[0].generators[0]
                el_ = e.args[0].elt
                if not g_.ifs and C.is_call_to(g_.iter, "zip") and {U(a_) for a_ in g_.iter.args} == {ebytes, want} and len(g_.iter.args) == 2 \
                        and isinstance(g_.target, ast.Tuple) and isinstance(el_, ast.Compare) and len(el_.ops) == 1 \
                        and isinstance(el_.ops[0], ast.Eq) and {U(el_.left), U(el_.comparators[0])} == {U(x_) for x_ in g_.target.elts}:
                    zip_eq = True
            # ... so the collected bytes must be at least as many as the marker's
            if (t_, p) in ((C.CT("len(%s) >= len(%s)" % (ebytes, want)), True), (C.CT("len(%s) < len(%s)" % (ebytes, want)), False),
                           (C.CT("len(%s) <= len(%s)" % (want, ebytes)), True), (C.CT("len(%s) > len(%s)" % (want, ebytes)), False)):
                len_ok = True
    cmp_ok = prefix_eq or (zip_eq and len_ok)
    mentions = bool(ret_true) and any(ebytes in U(e) and want in U(e) for e, _ in C.norm_fact_nodes(ret_true[0]))
    ctx.judge(bool(ret_true) and bool(cnt) and U(ret_true[0].value.elts[1]) == cnt[0] and cmp_ok,
              not bool(ret_true) or not bool(cnt) or U(ret_true[0].value.elts[1]) != cnt[0] or not mentions or (zip_eq and not len_ok), "R1",
              "match iff the collected bytes start with the marker bytes; the count of consumed lines is returned", mb.where(),
              "match_bytes does not return (True, consumed lines) exactly when the byte prefix equals the marker" + (
                  ": zip() stops at the shorter sequence, so fewer bytes than the marker has (even none) match" if zip_eq and not len_ok else ""),
              mb.qname, "byte comparison")


def _same_branch(a, b):
    """Statements a and b are in the same innermost if-body (textual block)."""
    pa = getattr(a, "_parent", None)
    pb = getattr(b, "_parent", None)
    while pb is not None and not isinstance(pb, (ast.For, ast.FunctionDef)):
        if pb is pa:
            return True
        pb = getattr(pb, "_parent", None)
    return False


def _r2(ctx):
    ctx.rule("R2", "start / end marker branches agree up to the value slot; each is the full conjunction")
    f = ctx.func("marker_utils.find_marked_section")
    vals, reg, nop = f.params()[4], f.params()[3], f.params()[5]
    brs = []
    for n in ast.walk(f.node):
        if isinstance(n, ast.If) and isinstance(n.test, ast.BoolOp) and isinstance(n.test.op, ast.And):
            parts = [U(v) for v in n.test.values]
            slot = [p for p in parts if "normalize_imd" in p]
            if slot:
                brs.append((n, parts, slot[0]))
    if len(brs) != 2:
        ctx.broken("R2: expected two marker branches (start, end), found %d" % len(brs))
    norm = []
    for n, parts, slot in brs:
        m = re.search(r"%s\[(\d)\]" % re.escape(vals), slot)
        k = int(m.group(1)) if m else None
        want = {"isinstance(source, ImmediateOperand)", C.canon_eq("parser.normalize_imd(source)", "%s[%s]" % (vals, k)),
                "isinstance(destination, RegisterOperand)", C.canon_eq("parser.get_full_reg_name(destination)", reg)}
        ok = set(parts) == want
        which = "start" if k == 0 else "end" if k == 1 else "?"
        recognised, why_ = True, "the %s-marker test is %s; look-alike instructions that move another value or use another register " \
            "must not be markers" % (which, parts)
        if not ok:
            # by what the conjuncts say (operands used in place or through locals, extra arity test, any order): source is an
            # immediate with the marker value, destination is a register whose FULL NAME equals the marker register
            fl_ = C.flow_of(f)
            S_ = lambda e: U(fl_.subst(e))
            srcs = ("line.operands[0 if not reverse else 1]", "line.operands[1 if reverse else 0]")
            dsts = ("line.operands[1 if not reverse else 0]", "line.operands[0 if reverse else 1]")
            srcs = {C.CT(x) for x in srcs}
            dsts = {C.CT(x) for x in dsts}
            has = {"imm": False, "val": False, "regcls": False, "name": False, "alias": False}
            other = []
            for v_ in n.test.values:
                t_ = v_
                if C.is_call_to(t_, "isinstance") and len(t_.args) == 2:
                    who = C.CT(S_(t_.args[0]))
                    if who in srcs and U(t_.args[1]) == "ImmediateOperand":
                        has["imm"] = True
                        continue
                    if who in dsts and U(t_.args[1]) == "RegisterOperand":
                        has["regcls"] = True
                        continue
                if isinstance(t_, ast.Compare) and len(t_.ops) == 1 and isinstance(t_.ops[0], ast.Eq):
                    sides = [t_.left, t_.comparators[0]]
                    txt = [S_(x) for x in sides]
                    calls = [x for x in sides if isinstance(x, ast.Call)]
                    if any(C.is_call_to(x, "normalize_imd") and len(x.args) == 1 and C.CT(S_(x.args[0])) in srcs for x in calls) \
                            and "%s[%s]" % (vals, k) in txt:
                        has["val"] = True
                        continue
                    if any(C.is_call_to(x, "get_full_reg_name") and len(x.args) == 1 and C.CT(S_(x.args[0])) in dsts for x in calls) and reg in txt:
                        has["name"] = True
                        continue
                    if S_(t_) in ("len(line.operands) == 2", "2 == len(line.operands)"):
                        continue
                if C.is_call_to(t_, "is_reg_dependend_of") and len(t_.args) == 2 and reg in [S_(a_) for a_ in t_.args]:
                    has["alias"] = True
                    continue
                other.append(U(v_))
            ok = has["imm"] and has["val"] and has["regcls"] and has["name"] and not other
            if has["alias"] and not has["name"]:
                why_ = ("the %s-marker test compares the destination with the marker register through the ALIAS relation "
                        "(is_reg_dependend_of): every register that overlaps it - rbx, bx, bl for ebx; w1 for x1 - counts as the marker "
                        "register, so a look-alike `mov $111, %%rbx` / `mov w1, #111` followed by the byte sequence starts or ends the kernel"
                        % which)
            elif other:
                recognised = False
        ctx.judge(ok, recognised, "R2", "%s marker = immediate value and register full name (4 conjuncts)" % which, f.where(n),
                  why_, f.qname, "%s marker conjunction" % which)
        body = [U(s) for s in n.body]
        mb = [s for s in n.body if isinstance(s, ast.Assign) and C.is_call_to(s.value, "match_bytes")]
        okb = len(mb) == 1 and [U(a) for a in mb[0].value.args] == [f.params()[0], "i + 1", nop]
        inner = [s for s in n.body if isinstance(s, ast.If)]
        okm = bool(mb) and len(inner) == 1 and U(inner[0].test) == U(mb[0].targets[0].elts[0]) if mb and isinstance(mb[0].targets[0], ast.Tuple) else False
        tgt = [U(a.targets[0]) for st in n.body for a in ast.walk(st)
               if isinstance(a, ast.Assign) and U(a.targets[0]).startswith("index_")]
        okt = tgt == ["index_start"] if k == 0 else tgt == ["index_end"]
        ctx.check(okb and okm and okt, "R2", "%s marker requires the byte match from line i+1 and sets only its own index" % which,
                  f.where(n), "the %s branch: byte match args ok=%s, index set only under match=%s, target=%s" % (
                      which, okb, okm, tgt), f.qname, "%s marker byte match" % which)
        norm.append(sorted(p.replace("%s[%s]" % (vals, k), "VAL") for p in parts))
    ctx.check(norm[0] == norm[1], "R2", "both branches test the same things", f.where(), "start and end branch differ: %s vs %s" % (
        norm[0], norm[1]), f.qname, "branch agreement")
    # operand order
    src = pm.find("source = line.operands[0 if not reverse else 1]", f.node)
    dst = pm.find("destination = line.operands[1 if not reverse else 0]", f.node)
    body_txt = C.CT(U(f.node))
    inplace = all(any(C.CT(x) in body_txt for x in alt) for alt in (
        ("line.operands[0 if not reverse else 1]", "line.operands[1 if reverse else 0]"),
        ("line.operands[1 if not reverse else 0]", "line.operands[0 if reverse else 1]")))
    ctx.judge((bool(src) and bool(dst)) or inplace, bool(pm.find("source = M_x", f.node)) or bool(pm.find("destination = M_x", f.node)), "R2",
              "source/destination follow the ISA's operand order", f.where(),
              "operand selection by `reverse` changed", f.qname, "operand order")
    outer = [n for n in ast.walk(f.node) if isinstance(n, ast.If) and "in mov_instr" in U(n.test)]
    parts = {U(v) for v in outer[0].test.values} if outer and isinstance(outer[0].test, ast.BoolOp) else set()
    ctx.check(parts == {"line.mnemonic in mov_instr", C.CT("len(lines) > i + 1"), "lines[i + 1].directive is not None"}, "R2",
              "candidate = marker mov followed by a directive", f.where(), "candidate test is %s" % sorted(parts), f.qname,
              "candidate test")
    com = [n for n in ast.walk(f.node) if isinstance(n, ast.If) and U(n.test) == "comments['start'] == line.comment"]
    com2 = [n for n in ast.walk(f.node) if isinstance(n, ast.If) and U(n.test) == "comments['end'] == line.comment"]
    ctx.check(bool(com) and bool(com2), "R2", "comment markers compare the whole comment with the keyword", f.where(),
              "comment marker comparison changed", f.qname, "comment markers")


def _r3(ctx):
    ctx.rule("R3", "marker constants: code = emitted marker text = README")
    readme = ctx.repo.read_text("README.rst")
    gm = ctx.func("marker_utils.get_marker")
    emitted = " ".join(C.str_consts(gm.node))
    mod = [m for m in ctx.repo.modules.values() if m.stem == "marker_utils"][0]
    cm = C.literal(mod.globals["COMMENT_MARKER"]) if "COMMENT_MARKER" in mod.globals else {}
    ctx.check(cm == {"start": "OSACA-BEGIN", "end": "OSACA-END"} and "OSACA-BEGIN" in readme and "OSACA-END" in readme, "R3",
              "comment keywords OSACA-BEGIN / OSACA-END (code and README)", mod.rel, "COMMENT_MARKER is %s" % cm, "marker_utils",
              "comment keywords")
    want = {
        "marker_utils.find_marked_kernel_x86ATT": (["mov", "movl"], "ebx", [111, 222], [100, 103, 144], False,
                                                   [r"movl\s+\$111,\s*%ebx", r"\.byte\s+100,103,144", r"movl\s+\$222,\s*%ebx"],
                                                   [r"movl\s+\$111, %ebx", r"\.byte\s+100\b", r"\.byte\s+103\b", r"\.byte\s+144\b", r"movl\s+\$222, %ebx"]),
        "marker_utils.find_marked_kernel_AArch64": (["mov"], "x1", [111, 222], [213, 3, 32, 31], True,
                                                    [r"mov\s+x1,\s*#111", r"\.byte\s+213,3,32,31", r"mov\s+x1,\s*#222"],
                                                    [r"mov\s+x1, #111", r"\.byte\s+213,3,32,31", r"mov\s+x1, #222"]),
    }
    for q, (instr, reg, vals, nop, rev, readme_pats, emit_pats) in want.items():
        f = ctx.func(q)
        calls = C.calls_to(f.node, "find_marked_section")
        if len(calls) != 1:
            ctx.broken("R3: %s does not call find_marked_section once" % q)
        c = calls[0]
        flow = C.flow_of(f)
        args = [flow.subst(a) for a in c.args]
        got = {}
        try:
            got["instr"] = C.literal(args[2])
            got["reg"] = C.literal(args[3])
            got["vals"] = C.literal(args[4])
            got["nop"] = C.literal(args[5])
        except Exception:
            ctx.broken("R3: non-literal marker constants in %s" % q)
        kw = {k.arg: U(k.value) for k in c.keywords}
        got["rev"] = kw.get("reverse", "False") == "True"
        ok = got == {"instr": instr, "reg": reg, "vals": vals, "nop": nop, "rev": rev}
        ctx.check(ok, "R3", "%s passes %s/%s/%s/%s" % (f.name, instr, reg, vals, nop), f.where(c),
                  "%s passes %s, the documented marker is %s into %s followed by bytes %s" % (f.name, got, vals, reg, nop),
                  f.qname, "marker constants")
        ctx.check(kw.get("comments") == "COMMENT_MARKER", "R3", "%s enables the comment markers" % f.name, f.where(c),
                  "comment markers are not passed", f.qname, "comment marker argument")
        for p in readme_pats:
            ctx.check(re.search(p, readme) is not None, "R3", "README documents /%s/" % p, "README.rst",
                      "README marker block no longer contains /%s/" % p, "README.rst", "readme " + p)
        for p in emit_pats:
            ctx.check(re.search(p, emitted) is not None, "R3", "get_marker emits /%s/" % p, gm.where(),
                      "get_marker no longer emits /%s/" % p, gm.qname, "emit " + p)


def _r4(ctx):
    ctx.rule("R4", "--lines: inclusive ranges, ':' = '-', comma separated; selection by line number")
    f = ctx.func("osaca.get_line_range")
    p = f.params()[0]
    flow = C.flow_of(f)
    CTn = lambda e: C.CT(U(flow.subst(e)))
    # the entries: one loop over <argument with ':' mapped to '-'>.split(',')
    want_iter = C.CT("%s.replace(':', '-').split(',')" % p)
    loops = [n for n in ast.walk(f.node) if isinstance(n, ast.For) and isinstance(n.target, ast.Name)]
    ent = [n for n in loops if CTn(n.iter) in (want_iter, C.CT("%s.split(',')" % p))]
    if len(ent) != 1:
        ctx.unknown("R4", f.where(), "the loop over the comma separated entries of --lines was not found in this form", f.qname, "entries")
        lp = None
    else:
        lp = ent[0]
        ctx.check(CTn(lp.iter) == want_iter, "R4", "':' is accepted as range separator", f.where(lp), "':' is no longer mapped to '-'",
                  f.qname, "colon")
        ctx.check(True, "R4", "entries are comma separated", f.where(lp), "", f.qname, "comma")
    if lp is not None:
        L = lp.target.id
        rng = [c for c in ast.walk(lp) if isinstance(c, ast.Call) and isinstance(c.func, ast.Name) and c.func.id == "range"]
        if len(rng) != 1 or len(rng[0].args) != 2 or rng[0].keywords:
            ctx.unknown("R4", f.where(lp), "the expansion of an a-b entry is not a single two-argument range(..)", f.qname, "inclusive range")
        else:
            r = rng[0]
            lo, hi = CTn(r.args[0]), CTn(r.args[1])
            ok = lo == C.CT("int(%s.split('-')[0])" % L) and hi == C.CT("int(%s.split('-')[1]) + 1" % L)
            ctx.check(ok, "R4", "a-b is inclusive: range(a, b + 1)", f.where(r),
                      "range expansion is not range(int(a), int(b) + 1) over the two parts of the entry: %s" % U(flow.subst(r)), f.qname,
                      "inclusive range")
            # the expanded range and the single numbers reach the returned list
            rets = [x for x in ast.walk(f.node) if isinstance(x, ast.Return) and x.value is not None]
            acc = U(rets[0].value) if len(rets) == 1 and isinstance(rets[0].value, ast.Name) else None
            if acc is None:
                ctx.unknown("R4", f.where(), "the result is not one accumulated list", f.qname, "accumulate")
            else:
                rtexts = {C.CT(U(flow.subst(r))), C.CT("list(%s)" % U(flow.subst(r)))}
                adds = []
                for st in ast.walk(lp):
                    if isinstance(st, ast.AugAssign) and isinstance(st.op, ast.Add) and U(st.target) == acc:
                        adds.append(CTn(st.value))
                    if isinstance(st, ast.Expr) and isinstance(st.value, ast.Call) and isinstance(st.value.func, ast.Attribute) \
                            and U(st.value.func.value) == acc and st.value.func.attr in ("extend", "append") and st.value.args:
                        adds.append((st.value.func.attr, CTn(st.value.args[0])))
                got_rng = any(a in rtexts or (isinstance(a, tuple) and a[0] == "extend" and a[1] in rtexts) for a in adds)
                got_one = any((isinstance(a, tuple) and a == ("append", C.CT("int(%s)" % L))) or a == C.CT("[int(%s)]" % L) for a in adds)
                ctx.check(got_rng, "R4", "all expanded lines are returned", f.where(lp),
                          "expanded ranges are not accumulated into the returned list", f.qname, "accumulate")
                ctx.check(got_one, "R4", "single numbers are taken as they are", f.where(lp), "single line numbers are not appended as int",
                          f.qname, "single numbers")
    i = ctx.func("osaca.inspect")
    # the kernel under --lines = the parsed lines whose number is named, each once, in file order
    flow = C.flow_of(i)
    ksel = [a for a in C.assigns_to(i.node, "kernel") if isinstance(a, ast.Assign) and any(
        p2 and U(e) == "args.lines" for e, p2 in C.facts_at(a))]

    def strip_wrappers(e, names=("set", "frozenset", "list", "tuple", "sorted")):
        seen = []
        while isinstance(e, ast.Call) and isinstance(e.func, ast.Name) and e.func.id in names and len(e.args) == 1:
            seen.append(e.func.id)
            e = e.args[0]
        return e, seen
    verdict, why, node = None, "no assignment to `kernel` under `if args.lines`", None
    # (the parsed file under its name, or - where it has a single definition and was substituted - as that expression)
    pc_texts = {"parsed_code"} | {U(flow.subst(a_.value)) for a_ in C.assigns_to(i.node, "parsed_code") if isinstance(a_, ast.Assign)} | {
        U(a_.value) for a_ in C.assigns_to(i.node, "parsed_code") if isinstance(a_, ast.Assign)}
    if len(ksel) == 1:
        node = ksel[0]
        v = flow.subst(node.value)
        # list(filter(lambda x: COND, seq))  ==  [x for x in seq if COND]
        bl = pm.match("list(filter(M_f, M_seq))", v)
        if bl is not None and isinstance(bl["M_f"], ast.Lambda) and len(bl["M_f"].args.args) == 1:
            lam = bl["M_f"]
            nm = ast.Name(id=lam.args.args[0].arg, ctx=ast.Load())
            v = ast.ListComp(elt=nm, generators=[ast.comprehension(target=ast.Name(id=nm.id, ctx=ast.Store()), iter=bl["M_seq"],
                                                                   ifs=[lam.body], is_async=0)])
            ast.fix_missing_locations(v)
        if isinstance(v, ast.ListComp) and len(v.generators) == 1:
            g = v.generators[0]
            it, wr = strip_wrappers(g.iter, ("list", "tuple"))
            if U(it) in pc_texts and U(v.elt) == U(g.target) and len(g.ifs) == 1:
                c = g.ifs[0]
                if isinstance(c, ast.Compare) and len(c.ops) == 1 and isinstance(c.ops[0], ast.In) and U(c.left) == U(g.target) + ".line_number":
                    src_e, _ = strip_wrappers(c.comparators[0])
                    verdict = U(src_e) == "get_line_range(args.lines)"
                    why = "membership is tested in `%s`, not in get_line_range(args.lines)" % U(c.comparators[0])
            elif any(t_ in U(g.iter) for t_ in pc_texts) and len(g.ifs) == 1 and isinstance(g.ifs[0], ast.Compare) and isinstance(g.ifs[0].ops[0], ast.In) \
                    and U(strip_wrappers(g.ifs[0].comparators[0])[0]) == "get_line_range(args.lines)":
                verdict = False
                why = "a line is selected when `%s` is among the named numbers, not when its line_number is (blank lines are not parsed, so positions and line numbers differ)" % U(g.ifs[0].left)
            else:
                it2, wr2 = strip_wrappers(g.iter)
                if U(it2) == "get_line_range(args.lines)":
                    # driven by the option string: order and repeats follow what the user typed
                    if "sorted" in wr2 and ("set" in wr2 or "frozenset" in wr2):
                        verdict, why = True, ""
                    else:
                        verdict = False
                        why = ("the kernel is built by iterating the expanded --lines list (`%s`), so a line named twice (`4-7,6-9`) "
                               "enters the kernel twice and ranges given out of file order (`8-9,4-7`) reorder the instructions; "
                               "the named lines must be taken once each, in file order" % U(g.iter)[:80])
    ctx.judge(verdict is True, verdict is not None, "R4", "--lines selects the named parsed lines, once each, in file order (overriding markers)",
              i.where(node) if node is not None else i.where(), "kernel selection under --lines: %s" % why, i.qname, "lines selection")
    red = [a for a in C.assigns_to(i.node, "kernel") if C.is_call_to(a.value, "reduce_to_section")]
    ctx.check(bool(red) and [U(a) for a in red[0].value.args] == ["parsed_code", "isa"] and any(
        (not p2) and U(e) == "args.lines" for e, p2 in C.facts_at(red[0])), "R4", "otherwise the marked section (or whole file)",
        i.where(), "marker-based selection changed", i.qname, "marker selection")


def _r5(ctx):
    ctx.rule("R5", "non-instruction lines are neutral in every semantic stage")
    a = ctx.func("ISASemantics.assign_src_dst")
    first = [s for s in a.node.body if isinstance(s, ast.If)][0]
    parts = {U(v) for v in first.test.values} if isinstance(first.test, ast.BoolOp) and isinstance(first.test.op, ast.Or) else {U(first.test)}
    def empty_roles(v, depth=3):
        """True: evaluates to {'source': [], 'destination': [], 'src_dst': []} (possibly a copy of a constant holding it);
        None: not recognised"""
        while True:
            if isinstance(v, ast.Call) and (pm.call_name(v) or "").split(".")[-1] in ("deepcopy", "copy", "dict") and len(v.args) == 1:
                v = v.args[0]
            elif isinstance(v, ast.Call) and isinstance(v.func, ast.Attribute) and v.func.attr == "copy" and not v.args:
                v = v.func.value
            else:
                break
        if isinstance(v, ast.Dict):
            keys = {k.value for k in v.keys if isinstance(k, ast.Constant)}
            return keys == {"source", "destination", "src_dst"} and all(isinstance(x, ast.List) and not x.elts for x in v.values)
        if isinstance(v, ast.DictComp) and isinstance(v.value, ast.List) and not v.value.elts and len(v.generators) == 1:
            it = v.generators[0].iter
            if isinstance(it, (ast.Tuple, ast.List, ast.Set)) and {x.value for x in it.elts if isinstance(x, ast.Constant)} == {
                    "source", "destination", "src_dst"} and U(v.key) == U(v.generators[0].target):
                return True
        if depth and isinstance(v, ast.Attribute) and U(v.value) in ("self", "cls", a.cls.name if a.cls else ""):
            for c in ctx.repo.mro(a.cls.name):
                if v.attr in ctx.repo.classes[c].class_attrs:
                    return empty_roles(ctx.repo.classes[c].class_attrs[v.attr], depth - 1)
        if depth and isinstance(v, ast.Name) and v.id in a.module.globals:
            return empty_roles(a.module.globals[v.id], depth - 1)
        return None
    neutral = [empty_roles(s.value) if empty_roles(s.value) is not None else C.empty_roles_value(ctx, a, s.value)
               for s in first.body if isinstance(s, ast.Assign) and U(s.targets[0]) == "instruction_form.semantic_operands"]
    ok = "instruction_form.mnemonic is None" in parts and neutral == [True] and isinstance(first.body[-1], ast.Return)
    recognised = not ("instruction_form.mnemonic is None" in parts and neutral == [None] and isinstance(first.body[-1], ast.Return))
    uses_before = [n for s in a.node.body[: a.node.body.index(first)] for n in ast.walk(s)
                   if isinstance(n, ast.Attribute) and n.attr in ("mnemonic", "operands")]
    ctx.judge(ok and not uses_before, recognised, "R5", "assign_src_dst: no mnemonic -> empty roles, nothing else touched", a.where(first),
              "assign_src_dst does not return empty roles for a line without mnemonic before using it", a.qname, "src_dst neutral")
    t = ctx.func("ArchSemantics.assign_tp_lt")
    br = [n for n in ast.walk(t.node) if isinstance(n, ast.If) and U(n.test) == "instruction_form.mnemonic is None"]
    body = [U(s) for s in br[0].body] if br else []
    # which names are assigned the constant 0.0 in the branch (chained assignments count for every target)
    zeroed = set()
    for s in (br[0].body if br else []):
        if isinstance(s, ast.Assign) and (C.const_num(s.value) == 0 or (isinstance(s.value, ast.Name) and s.value.id in zeroed)):
            zeroed |= {U(x) for x in s.targets}
    ok = bool(br) and {"throughput", "latency", "latency_wo_load"} <= zeroed and "instruction_form.port_uops = []" in body and any(
        C.is_zero_vector_assign(s, "instruction_form.port_pressure") for s in br[0].body)
    # recognised: the three result locals exist in this function (otherwise the results are carried differently)
    known = bool(br) and bool({"throughput", "latency", "latency_wo_load"} & {
        x.id for s in br[0].body for x in ast.walk(s) if isinstance(x, ast.Name) and isinstance(x.ctx, ast.Store)})
    ctx.judge(ok, bool(br) and known, "R5", "assign_tp_lt: no mnemonic -> zero throughput/latency/pressure, no micro-ops", t.where(),
              "assign_tp_lt's branch for lines without mnemonic is %s" % body, t.qname, "tp_lt neutral")
    if br:
        look = C.calls_to(t.node, "get_instruction")
        ctx.check(all(C.in_subtree(c, br[0]) and not any(C.in_subtree(c, s) for s in br[0].body) for c in look), "R5",
                  "model look-ups happen only for lines with a mnemonic", t.where(),
                  "a model look-up is reachable for a line without mnemonic", t.qname, "lookup guard")
    g = ctx.func("ISASemantics.get_reg_changes")
    first = [s for s in g.node.body if isinstance(s, ast.If)][0]
    ctx.check(U(first.test) == "instruction_form.mnemonic is None" and U(first.body[0]) == "return {}", "R5",
              "get_reg_changes: no mnemonic -> no register change", g.where(first), "get_reg_changes guard changed", g.qname,
              "reg changes neutral")
    s = ctx.func("ArchSemantics.get_throughput_sum")
    sh = C.aggregator_shape(ctx)
    ctx.judge(sh["ok"] and sh["filter"] == ["I.throughput != 0.0"] and sh["rows_elt"] == "I.port_pressure", sh["ok"], "R5",
              "summary sums the lines with throughput != 0 only", s.where(),
              "the summary no longer sums exactly the lines with throughput != 0.0 (filter: %s)" % sh["filter"] if sh["ok"] else sh["why"],
              s.qname, "summary selection")
    for q in ("KernelDG.find_depending", "KernelDG.is_read", "KernelDG.is_written", "KernelDG.is_memload", "KernelDG.is_memstore"):
        f = ctx.func(q)
        g2 = [n for n in ast.walk(f.node) if isinstance(n, ast.If) and "semantic_operands is None" in U(n.test)]
        ctx.check(bool(g2) and any(isinstance(x, ast.Return) for x in g2[0].body), "R5", "%s tolerates lines without roles" % q,
                  f.where(), "%s lost its `semantic_operands is None` guard" % q, q, "roles guard")


def _r8(ctx):
    """The one analysis step that looks at distances between line numbers (the deprecated hidden-load pass: for each store it
    hides the load whose line number is closest) runs only for models that declare hidden loads - no shipped model does. If
    it ran, inserting comment / label / blank lines between a load and a store would change which load is hidden."""
    import re as _re
    from .. import consteval
    ctx.rule("R8", "the line-distance heuristic (set_hidden_loads) runs only for models declaring hidden loads; no shipped model does")
    calls = []
    for q, fi in ctx.repo.funcs.items():
        if fi.file.startswith("osaca/data/"):
            continue
        for c in C.calls_to(fi.node, "set_hidden_loads"):
            calls.append((fi, c))
    for fi, c in calls:
        ctx.touch(fi)
        guard = any(pol and isinstance(e, ast.Call) and pm.call_name(e).endswith("has_hidden_loads") for e, pol in C.norm_fact_nodes(c))
        ctx.check(guard, "R8", "set_hidden_loads is called only under has_hidden_loads()", fi.where(c),
                  "the hidden-load pass (closest load by line-number distance) runs although the model does not declare hidden loads: "
                  "comment / label / blank lines between a load and a store then change which load is hidden", fi.qname, "hidden-load pass guarded")
    h = ctx.func("MachineModel.has_hidden_loads")
    # the accessor, folded over every value the field takes in the model files (and a model without the field)
    seen = {}
    data_dir = ctx.repo.root / "osaca" / "data"
    for yml in sorted(data_dir.glob("*.yml")):
        txt = yml.read_text(encoding="utf-8", errors="replace")
        m = _re.search(r"(?m)^hidden_loads:[ \t]*([^#\n]*)", txt)
        if m:
            seen.setdefault(m.group(1).strip(), []).append(yml.name)
    yaml_val = {"false": False, "False": False, "~": None, "null": None, "": None, "true": True, "True": True}
    cases = [("<field missing>", consteval.Obj(_data={}))]
    for raw in sorted(seen):
        if raw not in yaml_val:
            ctx.unknown("R8", "hidden_loads value", "osaca/data/%s" % seen[raw][0], "value %r is not a YAML boolean / null" % raw)
            continue
        cases.append(("hidden_loads: %s (%s)" % (raw or "~", ", ".join(seen[raw][:4])), consteval.Obj(_data={"hidden_loads": yaml_val[raw]})))
        ctx.check(yaml_val[raw] is not True, "R8", "no shipped model declares hidden loads (%s)" % ", ".join(seen[raw][:3]),
                  "osaca/data/%s" % seen[raw][0], "the model declares hidden loads: its analysis depends on line-number distances",
                  "data", "hidden_loads true in " + seen[raw][0])
    for label, obj in cases:
        want = bool(obj["_data"].get("hidden_loads"))
        try:
            kind, val = consteval.call(h.node, obj)
        except consteval.Unsupported as e:
            ctx.unknown("R8", "has_hidden_loads folded for " + label, h.where(), "not foldable: %s" % e)
            continue
        ctx.check(kind == "return" and bool(val) == want, "R8", "has_hidden_loads() is %s for %s" % (want, label), h.where(),
                  "has_hidden_loads() answers %r for a model with %s: the line-distance heuristic is switched on for models that do "
                  "not declare hidden loads" % (val if kind == "return" else kind, label), h.qname, "has_hidden_loads " + label.split(" (")[0])
    ctx.floor("R8", "calls of the hidden-load pass", len(calls), 1)


def run(ctx):
    C.require_locals(ctx, ctx.func('marker_utils.find_marked_section'), ['index_start', 'index_end', 'line', 'lines', 'i', 'comments', 'mov_instr', 'reverse', 'parser'])
    C.require_locals(ctx, ctx.func('marker_utils.reduce_to_section'), ['start', 'end', 'isa'])
    C.require_locals(ctx, ctx.func('osaca.inspect'), ['kernel', 'parsed_code', 'args', 'isa'])
    _r1(ctx)
    _r2(ctx)
    _r3(ctx)
    _r4(ctx)
    _r5(ctx)
    _r8(ctx)
    # R7: lines without a mnemonic (comments, labels, directives) inside the kernel are transparent for the multi-process LCD search too
    from . import c16
    ctx.rule("R7", "the multi-process LCD search covers every line of the kernel, whatever kind of line it is (C16-R1)")
    c16.reuse_r1(ctx, "R7", "inserting comment / label / directive lines into a kernel of 50 or more lines changes the reported loop-carried dependencies")
    # R6: --lines selects by the parsed lines' line_number: it names the file's lines only if the numbering is the physical one
    from . import parsers as P
    P.r1_numbering(ctx, rule="R6")
