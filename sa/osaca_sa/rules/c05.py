"""C05 - loop-carried dependencies are exactly the cross-iteration dependency cycles.

Structural necessary conditions on KernelDG.check_for_loopcarried_dep / _extend_path and the
front end's selection of the longest cycle (DESIGN.md section 5, C05).
"""
import ast
import re

from .. import pm
from ..pm import U
from . import common as C

EXPLANATION = (
    "Static analysis of KernelDG.check_for_loopcarried_dep, KernelDG._extend_path and the two front-end consumers. R1: the second copy's renumbering, both path-search targets and the inverse map use the same offset variable in the same affine form; R2: the offset's defining expression is normalised to max(c, M)+k / max(c, M+k) / M+k with M = max over the kernel's line numbers and k >= 1 is required (copy test false on every original node id, incl. M+0.1 load nodes); R3: every kernel line is a search root (a root may be passed over only under a test that its copy in the next iteration is unreachable; the search may run on G.subgraph(nodes on a source->target path), which contains every such path): the root loops iterate the whole kernel / the whole slice, no iteration can return to the loop head without performing the search (CFG), and a depth bound (cutoff), if any, is at least the kernel length or the graph's node count - never a worker's slice length; R4: the de-duplication key is built from the sorted member list (sort dominates key construction, membership test precedes insertion) and the member list that is kept is in that sorted order too; R5: every edge contributes its latency once to members and sum; R6: result list sorted before the dict is built; R7: text and dict select the maximum-latency cycle by the same expression with default 0.0. R8: the list-based report (Frontend.loopcarried_dependencies) iterates every entry of the dict returned by get_loopcarried_dependencies() - a re-keying of the entries (e.g. by first line) under which two cycles collapse, a slice or a filter is a violation - and prints each entry's latency and member lines (the obligation is C13-R1's, embedded). R9: the flag-dependency request reaches the construction of the doubled kernel unchanged (C03-R3 flag threading, embedded)."
)
NOT_DECIDED = (
    "Completeness/soundness of the reported set against an independent cycle enumerator on "
    "generated kernels (behavioural; needs execution)."
)
ASSUMPTIONS = [
    "networkx all_simple_paths enumerates exactly the simple paths between the two given nodes",
    "line numbers of a parsed kernel are positive integers (BaseParser.parse_file numbering, C09-R1)",
]

FN = "KernelDG.check_for_loopcarried_dep"


def _offset_name(ctx, f):
    """Name of the iteration offset: the value added to .line_number of the copied forms."""
    hits = pm.find("M_t.line_number += M_off", f.node)
    hits += [(n, b) for n, b in pm.find("M_t.line_number = M_t.line_number + M_off", f.node)]
    if len(hits) != 1 or not isinstance(hits[0][1]["M_off"], ast.Name):
        ctx.broken("R1: cannot identify the renumbering `<copy>.line_number += <offset>` in %s "
                   "(found %d candidate(s))" % (f.qname, len(hits)))
    return hits[0][1]["M_off"].id, hits[0][0]


def _max_line_expr(node, kernel_names):
    """Is `node` the maximum over the kernel's line numbers? -> True/False."""
    for pat in ("max([M_i.line_number for M_i in M_k])", "max((M_i.line_number for M_i in M_k))",
                "max(M_i.line_number for M_i in M_k)", "max(map(lambda M_i: M_i.line_number, M_k))"):
        b = pm.match(pat, node)
        if b is not None and U(b["M_k"]) in kernel_names:
            return True
    return False


def separation_margin(expr, kernel_names):
    """Guaranteed lower bound k of (offset - M), M = max line number of the kernel.

    Returns (k, shape) or (None, reason) when the shape is not understood.
    """
    if _max_line_expr(expr, kernel_names):
        return 0, "M"
    for kn in kernel_names:
        if U(expr) == "%s[-1].line_number" % kn:
            return 0, "M (last line; the kernel is in file order)"
        if isinstance(expr, ast.BinOp) and isinstance(expr.op, ast.Add) and {U(expr.left), U(expr.right)} == {
                "%s[0].line_number" % kn, "len(%s)" % kn}:
            # first + count = M + 1 only when the line numbers are contiguous; blank lines are not parsed and --lines may
            # name disjoint ranges, so with g gaps the value is M + 1 - g
            return -999, "first line number + number of lines (= M + 1 - <number of gaps in the numbering>)"
    if isinstance(expr, ast.BinOp) and isinstance(expr.op, (ast.Add, ast.Sub)):
        for a, b in ((expr.left, expr.right), (expr.right, expr.left)):
            c = C.const_num(b)
            if c is not None and (a is expr.left or isinstance(expr.op, ast.Add)):
                sub, shape = separation_margin(a, kernel_names)
                if sub is None:
                    return None, shape
                k = sub + c if isinstance(expr.op, ast.Add) else sub - c
                return k, "(%s)%s%s" % (shape, "+" if isinstance(expr.op, ast.Add) else "-", c)
        return None, "sum of non-constant terms: " + U(expr)
    if isinstance(expr, ast.Call) and isinstance(expr.func, ast.Name) and expr.func.id == "max":
        args = expr.args
        if len(args) == 1 and isinstance(args[0], (ast.List, ast.Tuple)):
            args = args[0].elts
        best = None
        shapes = []
        for a in args:
            if C.const_num(a) is not None:
                shapes.append(str(C.const_num(a)))
                continue  # a constant gives no bound relative to M
            sub, shape = separation_margin(a, kernel_names)
            shapes.append(shape)
            if sub is not None:
                best = sub if best is None else max(best, sub)
        if best is None:
            return None, "max() without a term over the kernel's line numbers: " + U(expr)
        return best, "max(%s)" % ", ".join(shapes)
    if isinstance(expr, ast.Call) and isinstance(expr.func, ast.Name) and expr.func.id == "int":
        if len(expr.args) == 1:
            return separation_margin(expr.args[0], kernel_names)
    return None, "unrecognised shape: " + U(expr)


ON_PATH_FORMS = ["(nx.descendants(M_g, M_s) | {M_s}) & (nx.ancestors(M_g, M_t) | {M_t})",
                 "(nx.ancestors(M_g, M_t) | {M_t}) & (nx.descendants(M_g, M_s) | {M_s})",
                 "({M_s} | nx.descendants(M_g, M_s)) & ({M_t} | nx.ancestors(M_g, M_t))",
                 "(nx.descendants(M_g, M_s) & nx.ancestors(M_g, M_t)) | {M_s, M_t}"]


def searched_graph(fi, call):
    """(graph name, source text, target text, restriction) of an all_simple_paths call, locals resolved.
    restriction: None = the graph itself; "on-path" = G.subgraph(nodes on a source->target path) - loses no path;
    "?" = some other sub-graph (not understood)."""
    fl = C.flow_of(fi)
    g = call.args[0] if call.args else None
    src, dst = C.arg_of(call, 1, "source"), C.arg_of(call, 2, "target")
    # (new temporaries are already propagated by osaca_sa/inline.py; known locals such as the graph and the offset stay names)
    s_txt = U(src) if src is not None else None
    t_txt = U(dst) if dst is not None else None
    if isinstance(g, ast.Call) and isinstance(g.func, ast.Attribute) and g.func.attr == "subgraph" and len(g.args) == 1:
        nodes = g.args[0]
        if isinstance(nodes, ast.Name):
            ds = [a for a in C.assigns_to(fi.node, nodes.id) if isinstance(a, ast.Assign)]
            nodes = ds[0].value if len(ds) == 1 else nodes
        for pat in ON_PATH_FORMS:
            b = pm.match(pat, nodes)
            if b is not None and U(b["M_g"]) == U(g.func.value) and U(b["M_s"]) == s_txt and U(b["M_t"]) == t_txt:
                return U(g.func.value), s_txt, t_txt, "on-path"
        return U(g.func.value), s_txt, t_txt, "?"
    return (U(g) if g is not None else None), s_txt, t_txt, None


def _unreachability_test(fi, e, pol):
    """Is the fact (e, pol) 'the target cannot be reached from the source' (or 'source/target is not on any such path')?"""
    fl = C.flow_of(fi)
    t = U(e)
    # a root without outgoing edges starts no path at all
    m_ = re.fullmatch(r"(\w+)\.out_degree\((.+)\) (>|==|>=|!=|<|<=) (\d+)", t)
    if m_:
        op, k = m_.group(3), int(m_.group(4))
        has_edges = (op == ">" and k == 0) or (op == ">=" and k == 1) or (op == "!=" and k == 0)
        no_edges = (op == "==" and k == 0) or (op == "<" and k == 1) or (op == "<=" and k == 0)
        if (has_edges and not pol) or (no_edges and pol):
            return True
    if (not pol) and re.fullmatch(r"(\w+)\.out_degree\((.+)\)", t):
        return True
    if pol and (t.startswith("not nx.has_path(") or " not in " in t):
        if t.startswith("not nx.has_path("):
            return True
        rhs = e.comparators[0] if isinstance(e, ast.Compare) else None
        if rhs is not None:
            r = rhs
            if any(pm.match(p, r) is not None for p in ON_PATH_FORMS) or pm.match("nx.descendants(M_g, M_s)", r) is not None:
                return True
    if (not pol) and (t.startswith("nx.has_path(") or (isinstance(e, ast.Compare) and isinstance(e.ops[0], ast.In))):
        if t.startswith("nx.has_path("):
            return True
        r = e.comparators[0]
        if any(pm.match(p, r) is not None for p in ON_PATH_FORMS) or pm.match("nx.descendants(M_g, M_s)", r) is not None:
            return True
    return False


def roots_and_depth(ctx, rule, f, ext, seq_calls, ext_calls, kernel_names):
    """Shared by C05-R3 and C16-R2: no root is skipped, no depth bound below the longest possible cycle."""
    # every iteration of a root loop performs the search (no root is skipped), and the search depth is not bounded below
    # the longest possible cycle
    for fi, calls in ((f, seq_calls), (ext, ext_calls)):
        fcfg = C.cfg_of(fi)
        for c in calls:
            loop = C.root_loop(c)
            if not isinstance(loop, ast.For):
                continue
            # a root may be passed over when its copy in the next iteration cannot be reached at all (no cycle through it)
            harmless = []
            for st in ast.walk(loop):
                if isinstance(st, ast.Continue) and C.enclosing_loop(st) is loop:
                    facts = C.facts_at(st, stop=loop)
                    test = C.parent(st).test if isinstance(C.parent(st), ast.If) else None
                    parts = []
                    if test is not None:
                        parts = [(v, True) for v in test.values] if isinstance(test, ast.BoolOp) and isinstance(test.op, ast.Or) else [(test, True)]
                    if parts and all(_unreachability_test(fi, e, p) for e, p in parts) and len(facts) <= len(parts) + 0:
                        harmless.append(st)
                    elif any(_unreachability_test(fi, e_, p_) for e_, p_ in C.norm_fact_nodes(st, stop=loop)):
                        # skipped only where (among other things) no path can start at / reach the root: a conjunction
                        # with an unreachability test skips fewer roots than that test alone
                        harmless.append(st)
            # the same in nested form: the search sits under `if not <unreachable>`: every guard of the call (inside the
            # loop) is the negation of an unreachability test; an iteration that gets past that `if` without searching is harmless
            gfacts = C.facts_at(c, stop=loop)
            if gfacts and all(_unreachability_test(fi, e, not pol) for e, pol in gfacts):
                p_ = C.parent(fcfg.node_of(c))
                while p_ is not None and p_ is not loop:
                    if isinstance(p_, ast.If):
                        harmless.append(p_)
                    p_ = C.parent(p_)
            skip = fcfg.reachable(loop, loop, avoid=[c] + harmless, within=loop)
            ctx.check(not skip, rule, "no root is skipped: every iteration of the root loop performs the path search", fi.where(c),
                      "an iteration of `for %s in %s` can return to the loop head without searching from that root: cycles that are "
                      "only found from a skipped root (e.g. a second cycle through an instruction that already lies on one) are not "
                      "reported" % (U(loop.target), U(loop.iter)), fi.qname, "search in every iteration: " + U(loop.iter))
            cut = C.arg_of(c, 3, "cutoff")
            if cut is None:
                ctx.node_ok(rule, fi, c, "search depth unbounded (no cutoff)")
                continue
            g = searched_graph(fi, c)[0] or "?"      # the base graph: a sub-graph has at most as many nodes
            enough = {"len(%s)" % g, "%s.number_of_nodes()" % g, "len(%s.nodes)" % g, "len(%s.nodes())" % g, "%s.order()" % g}
            def depth_verdict(fi, cut, g):
                enough = {"len(%s)" % g, "%s.number_of_nodes()" % g, "len(%s.nodes)" % g, "len(%s.nodes())" % g, "%s.order()" % g}
                if fi is ext and isinstance(cut, ast.Name) and cut.id in ext.params():
                    # a worker parameter: judged by what the caller hands in for it (Process(args=(...)))
                    procs = [c_ for c_ in ast.walk(f.node) if isinstance(c_, ast.Call) and pm.call_name(c_).endswith("Process")]
                    argt = [k.value for c_ in procs for k in c_.keywords if k.arg == "args"]
                    idx = ext.params().index(cut.id) - 1
                    if len(argt) == 1 and isinstance(argt[0], ast.Tuple) and 0 <= idx < len(argt[0].elts):
                        gname = U(argt[0].elts[ext.params().index(g) - 1]) if g in ext.params() and ext.params().index(g) - 1 < len(argt[0].elts) else g
                        return depth_verdict(f, argt[0].elts[idx], gname)
                    return None
                aff0 = C.affine(cut)
                t0 = {k: v for k, v in aff0.items() if k != 1}
                if len(t0) == 1 and aff0.get(1, 0) >= 0 and next(iter(t0)) in enough and next(iter(t0.values())) >= 1:
                    return True
                # a name defined more than once (one definition per branch): the definition that reaches this use
                if isinstance(cut, ast.Name) and len(C.assigns_to(fi.node, cut.id)) > 1:
                    try:
                        cut = C.flow_of(fi).subst(cut)
                    except Exception:
                        pass
                aff = C.affine(cut)
                terms = {k: v for k, v in aff.items() if k != 1}
                verdict = None
                if len(terms) == 1 and aff.get(1, 0) >= 0:
                    (t, co), = terms.items()
                    whole = {"len(%s)" % k for k in kernel_names} if fi is f else set()
                    if fi is f:
                        whole |= {a.targets[0].id for a in ast.walk(f.node) if isinstance(a, ast.Assign) and isinstance(a.targets[0], ast.Name)
                                  and U(a.value) in whole}
                    if t in enough and co >= 1:
                        verdict = True
                    elif t in whole:
                        verdict = co >= 1       # nodes on a path root -> root + offset are kernel lines (load stages have no
                                                # incoming edge, C04-R2), each at most once: at most len(kernel) edges
                    elif fi is ext and any(t == "len(%s)" % prm for prm in ext.params()):
                        verdict = False         # a worker parameter: the slice of roots, not the kernel
                    else:
                        # a local: expand once
                        ds = [a for a in C.assigns_to(fi.node, t)] if t.isidentifier() else []
                        if len(ds) == 1 and isinstance(ds[0], ast.Assign):
                            t2 = U(ds[0].value)
                            if t2 in enough and co >= 1:
                                verdict = True
                            elif fi is ext and any(t2 == "len(%s)" % prm for prm in ext.params()):
                                verdict = False
                            elif t2 in whole:
                                verdict = co >= 1
                            elif co >= 1 and not isinstance(ds[0].value, ast.Name):
                                verdict = depth_verdict(fi, ds[0].value, g)
                return verdict
            verdict = depth_verdict(fi, cut, g)
            if verdict is None:
                ctx.broken("R3: search depth bound `%s` is not understood (neither the graph's node count nor a multiple of the kernel length)" % U(cut))
            ctx.check(verdict, rule, "search depth bound >= longest possible simple path", fi.where(c),
                      "the search depth is bounded by `%s`, which can be smaller than a cycle (a cycle may visit every line of the "
                      "kernel)%s; longer cycles are silently dropped" % (
                          U(cut), ": in the worker this is the length of its slice of roots, not of the kernel" if fi is ext
                          else ""), fi.qname, "search depth bound")



def run(ctx):
    f = ctx.func(FN)
    ext = ctx.func("KernelDG._extend_path")
    flow = C.flow_of(f)
    cfg = C.cfg_of(f)
    kparam = f.params()[1] if len(f.params()) > 1 else None
    if kparam is None:
        ctx.broken("%s has no kernel parameter" % FN)
    kernel_names = {kparam}

    # ---------------------------------------------------------------- R1 offset agreement
    ctx.rule("R1", "renumbering, both search targets and the inverse map use one offset")
    off, renum = _offset_name(ctx, f)
    ctx.node_ok("R1", f, renum, "renumbering of the second copy: " + U(renum))
    # the renumbered object must be a copy, taken from the kernel, appended to the doubled kernel
    loop = C.enclosing_loop(renum)
    ok_loop = isinstance(loop, ast.For) and U(loop.iter) in kernel_names
    ctx.check(ok_loop, "R1", "second copy iterates the whole kernel", f.where(renum),
              "the loop that builds the second iteration does not iterate the kernel parameter",
              f.qname, U(loop) if loop is not None else U(renum))
    if ok_loop:
        tgt = U(pm.match("M_t.line_number += M_off", renum)["M_t"]) if pm.match(
            "M_t.line_number += M_off", renum) else None
        copies = [n for n, b in pm.find_any(["M_c = copy.copy(M_o)", "M_c = copy.deepcopy(M_o)",
                                             "M_c = deepcopy(M_o)", "M_c = copy(M_o)"], loop)
                  if tgt and U(n.targets[0]) == tgt]
        ctx.check(bool(copies), "R1", "renumbering applies to a copy, not the original form",
                  f.where(renum), "the renumbered instruction form is not a copy of the original: "
                  "the first iteration's line numbers would be shifted as well", f.qname,
                  U(loop))
    offdefs = C.assigns_to(f.node, off)
    if len(offdefs) != 1:
        ctx.broken("R1/R2: %d definitions of the offset variable %r (expected one)" % (len(offdefs), off))
    offdef = offdefs[0]

    # sequential search target
    seq_calls = [c for c in C.calls_to(f.node, "all_simple_paths")]
    ext_calls = [c for c in C.calls_to(ext.node, "all_simple_paths")]
    ctx.floor("R1", "all_simple_paths call sites", len(seq_calls) + len(ext_calls), 2)

    def check_search(fi, call, offname):
        src, dst = C.arg_of(call, 1, "source"), C.arg_of(call, 2, "target")
        if src is None or dst is None:
            ctx.node_bad("R1", fi, call, "path query without explicit source/target")
            return
        gname, s_txt, t_txt, restr = searched_graph(fi, call)
        if restr == "?":
            ctx.unknown("R1", U(call)[:100], fi.where(call), "the search runs on a sub-graph the rule cannot show to contain every path")
            return
        src = ast.parse(s_txt, mode="eval").body
        dst = ast.parse(t_txt, mode="eval").body
        b = pm.match("M_i.line_number", src)
        good = b is not None and C.affine_eq(dst, ast.parse(
            "%s + %s" % (U(src), offname), mode="eval").body)
        if good:
            ctx.node_ok("R1", fi, call, "search target = root line + offset: " + U(call))
        else:
            ctx.node_bad("R1", fi, call,
                         "path search does not run from a root's line number to exactly that line "
                         "number plus the iteration offset (source %s, target %s)" % (U(src), U(dst)))

    for c in seq_calls:
        check_search(f, c, off)
    # _extend_path: parameter receiving the offset
    proc_calls = [c for c in ast.walk(f.node) if isinstance(c, ast.Call)
                  and any(k.arg == "target" and U(k.value).endswith("_extend_path") for k in c.keywords)]
    ext_off = None
    for pc in proc_calls:
        args = [k.value for k in pc.keywords if k.arg == "args"]
        if not args or not isinstance(args[0], ast.Tuple):
            ctx.broken("R1: worker arguments are not a literal tuple")
        elts = args[0].elts
        params = ext.params()[1:]  # without self
        if len(elts) != len(params):
            ctx.node_bad("R1", f, pc, "worker receives %d arguments, %s takes %d" % (
                len(elts), ext.qname, len(params)))
            continue
        pos = [i for i, e in enumerate(elts) if U(e) == off]
        if len(pos) != 1:
            ctx.node_bad("R1", f, pc, "the iteration offset is not handed to the worker exactly once")
            continue
        ext_off = params[pos[0]]
        ctx.node_ok("R1", f, pc, "worker receives the offset as parameter %r" % ext_off)
    ctx.floor("R1", "worker construction sites", len(proc_calls), 1)
    if ext_off:
        for c in ext_calls:
            check_search(ext, c, ext_off)

    # inverse map
    inv = pm.find("M_v -= %s" % off, f.node)
    ctx.floor("R1", "inverse-map sites `node -= offset`", len(inv), 1)
    for n, b in inv:
        facts = C.facts_at(n)
        v = U(b["M_v"])
        good = any(pol and U(e) in ("%s >= %s" % (v, off), "%s > %s" % (v, off),
                                    "%s <= %s" % (off, v), "%s < %s" % (off, v))
                   for e, pol in facts)
        if good:
            ctx.node_ok("R1", f, n, "inverse map guarded by the copy test: if %s >= %s: %s" % (v, off, U(n)))
        else:
            ctx.node_bad("R1", f, n, "node id is mapped back by subtracting the offset without the "
                         "copy test `%s >= %s` guarding it" % (v, off))

    # ---------------------------------------------------------------- R2 strict separation
    ctx.rule("R2", "offset strictly greater than the largest original line number")
    k, shape = separation_margin(offdef.value, kernel_names)
    if k is None:
        ctx.broken("R2: the offset's defining expression has a shape the rule does not know (%s)" % shape)
    if k >= 1:
        ctx.node_ok("R2", f, offdef, "offset = %s guarantees offset >= M + %s" % (shape, k))
    else:
        tail = ("for a kernel whose last line number is >= the offset, the copy test `node >= offset` is true for an ORIGINAL "
                "node, which is then mapped to line M - offset")
        if k <= -999:
            ctx.node_bad("R2", f, offdef, "offset = %s guarantees no margin above M, the kernel's largest line number (blank lines "
                         "are skipped by the parser, --lines can name disjoint ranges): %s" % (shape, tail))
        else:
            ctx.node_bad("R2", f, offdef, "offset = %s only guarantees offset >= M%+d where M is the kernel's largest line number: %s"
                         % (shape, k, tail))

    # ---------------------------------------------------------------- R3 roots
    ctx.rule("R3", "every kernel line is a search root (sequential branch)")
    for c in seq_calls:
        loop = C.root_loop(c)
        src = C.arg_of(c, 1, "source")
        b = pm.match("M_i.line_number", src) if src is not None else None
        good = (isinstance(loop, ast.For) and U(loop.iter) in kernel_names and b is not None
                and U(loop.target) == U(b["M_i"]))
        if not good and isinstance(loop, ast.For) and isinstance(loop.iter, ast.Name) and b is not None and U(loop.target) == U(b["M_i"]):
            # the roots held in a local: the kernel lines minus lines without outgoing edges (they start no path)
            from . import c16 as _c16
            if any(_c16.harmless_root_list(f, loop.iter.id, k_) is True for k_ in kernel_names):
                good = True
        if good:
            ctx.node_ok("R3", f, loop, "for %s in %s: roots = all kernel lines" % (U(loop.target), U(loop.iter)))
        else:
            ctx.node_bad("R3", f, loop if loop is not None else c,
                         "the sequential search does not use every line of the kernel as a root "
                         "(loop over %s)" % (U(loop.iter) if isinstance(loop, ast.For) else "?"))
    for c in ext_calls:
        loop = C.root_loop(c)
        src = C.arg_of(c, 1, "source")
        b = pm.match("M_i.line_number", src) if src is not None else None
        good = (isinstance(loop, ast.For) and U(loop.iter) in ext.params() and b is not None
                and U(loop.target) == U(b["M_i"]))
        if good:
            ctx.node_ok("R3", ext, loop, "worker roots = every line of its slice")
        else:
            ctx.node_bad("R3", ext, loop if loop is not None else c,
                         "the worker does not use every line of its slice as a root")

    roots_and_depth(ctx, "R3", f, ext, seq_calls, ext_calls, kernel_names)

    # parallel branch: the roots are partitioned over the workers (premises of the partition lemma, shared with C16-R1)
    from . import c16
    from .. import report as _report

    sub = _report.Ctx("C16", ctx.repo, ctx.tier, ctx.data)
    c16._r1(sub, f)
    for ob in sub.obligations:
        new_ob = dict(ob)
        new_ob["rule"] = "R3"
        new_ob["instance"] = "parallel roots (C16-R1): " + ob["instance"]
        ctx.obligations.append(new_ob)
    for fd in sub.findings:
        ctx.obligations.pop(next(i for i, o in enumerate(ctx.obligations) if o.get("key") == fd.key))
        ctx.bad("R3", "parallel roots (C16-R1): " + fd.construct, fd.where, "not every kernel line is a search root in the "
                "multi-process search: " + fd.detail, fd.scope, fd.construct)

    # ---------------------------------------------------------------- R4 canonical identity
    ctx.rule("R4", "de-duplication key built from the sorted member list")
    adds = pm.find("M_set.add(M_key)", f.node)
    adds = [(n, b) for n, b in adds if isinstance(b["M_set"], ast.Name)]
    ctx.floor("R4", "de-duplication set insertions", len(adds), 1)
    for n, b in adds:
        key = b["M_key"]
        if isinstance(key, ast.Name):
            kd = [a for a in C.assigns_to(f.node, key.id) if isinstance(a, ast.Assign)]
            if len(kd) == 1 and cfg.dominates(kd[0], n) and C.enclosing_loop(kd[0]) is C.enclosing_loop(n):
                key = kd[0].value
        kb = pm.match("tuple(sorted(M_l))", key)
        key_sorted = kb is not None
        kb = kb or pm.match("tuple(M_l)", key)
        lst = U(kb["M_l"]) if kb else None
        if lst is None:
            ctx.node_bad("R4", f, n, "de-duplication key `%s` is not tuple(<sorted member list>)" % U(key))
            continue
        if not isinstance(kb["M_l"], ast.Name):
            # the key is built in one expression (no member list to sort or to append to): it identifies a cycle when it is
            # the sorted sequence of one (node, latency) pair per edge of the path, and paths are dropped only when it was seen
            gen = kb["M_l"]
            inner = pm.match("sorted(M_g)", gen)
            gen = inner["M_g"] if inner else gen
            per_edge = (isinstance(gen, (ast.GeneratorExp, ast.ListComp)) and len(gen.generators) == 1
                        and not gen.generators[0].ifs and C.is_call_to(gen.generators[0].iter, "pairwise")
                        and isinstance(gen.generators[0].target, ast.Tuple) and len(gen.generators[0].target.elts) == 2
                        and isinstance(gen.elt, ast.Tuple) and len(gen.elt.elts) == 2)
            if per_edge and (key_sorted or inner):
                s_, d_ = (U(e) for e in gen.generators[0].target.elts)
                first, second = gen.elt.elts
                lat_ok = any(pm.match(pt, second) for pt in ('M_g.edges[%s, %s]["latency"]' % (s_, d_),
                                                             'M_g.edges[(%s, %s)]["latency"]' % (s_, d_),
                                                             'M_g[%s][%s]["latency"]' % (s_, d_)))
                node_ok = s_ in {x.id for x in ast.walk(first) if isinstance(x, ast.Name)}
                memb = C.CT("%s in %s" % (U(b["M_key"]), U(b["M_set"])))
                if lat_ok and node_ok and (memb, False) in C.norm_facts(n):
                    ctx.node_ok("R4", f, n, "one-expression key: sorted (node, latency) pair per edge; add only when new")
                    continue
            ctx.unknown("R4", "de-duplication key %s" % U(b["M_key"]), f.where(n),
                        "the key `%s` is built in one expression that is not the sorted sequence of one (node, latency) pair "
                        "per edge of the path" % U(key)[:160])
            continue
        sorts = [s for s, _ in pm.find_any(["%s.sort()" % lst, "%s = sorted(%s)" % (lst, lst)], f.node)]
        dom = [s for s in sorts if cfg.dominates(s, n) and C.enclosing_loop(s) is C.enclosing_loop(n)]
        if not dom and not key_sorted:
            ctx.node_bad("R4", f, n, "the member list %s is not sorted (in the same iteration) before "
                         "the key %s is built: rotations of one cycle get different keys" % (lst, U(key)))
            continue
        # the member list that is *kept* for a cycle must be in canonical (sorted) order too: which rotation arrives first
        # depends on the root order / worker completion order
        keeps = [k for k, kbn in pm.find("M_r.append((M_s, M_l2))", f.node) if C.enclosing_loop(k) is C.enclosing_loop(n)
                 and U(kbn["M_l2"]) in (lst, "sorted(%s)" % lst)]
        for k in keeps:
            stored_sorted = U(pm.match("M_r.append((M_s, M_l2))", k)["M_l2"]) == "sorted(%s)" % lst or any(
                cfg.dominates(sd, k) for sd in dom)
            ctx.check(stored_sorted, "R4", "the member list kept for a cycle is in sorted order", f.where(k),
                      "the key is canonical but the member list stored for the cycle (`%s`) is left in path order: root, dict key "
                      "and member order of the reported cycle are those of whichever rotation is processed first" % U(k),
                      f.qname, "stored member list sorted")
        if not dom:
            dom = [cfg.node_of(kb["M_l"])]
        # nothing appended after the sort
        late = [a for a, _ in pm.find("%s.append(M__)" % lst, f.node)
                if cfg.reachable(dom[0], a, avoid=[C.enclosing_loop(n)]) and cfg.dominates(dom[0], a)]
        # the membership test (either polarity, branch or guard clause) follows the sort, and the insertion happens exactly
        # where `key in set` is false
        memb = C.CT("%s in %s" % (U(b["M_key"]), U(b["M_set"])))
        tests = [t for t in ast.walk(f.node) if isinstance(t, ast.If) and any(
            tt == memb for tt, _ in C.norm_facts_of_test(t.test)) and cfg.dominates(dom[0], t)]
        good = not late and bool(tests)
        skip_ok = (memb, False) in C.norm_facts(n)
        if good and skip_ok:
            ctx.node_ok("R4", f, n, "sort -> membership test -> add only when new, key %s" % U(key))
        else:
            ctx.node_bad("R4", f, n, "de-duplication is not `sort; if key in set: continue; set.add(key)` "
                         "(late appends: %d, membership tests after the sort: %d, skips: %s)" % (
                             len(late), len(tests), skip_ok))
        # the sorted list elements must start with the (mapped) node id
        apps = pm.find("%s.append((M_n, M_l))" % lst, f.node)
        ctx.check(len(apps) >= 1, "R4", "members are (line, latency) pairs", f.where(n),
                  "member list elements are not (line number, edge latency) pairs", f.qname, U(n))

    # ---------------------------------------------------------------- R5 latency sum
    ctx.rule("R5", "each edge's latency enters member list and sum exactly once")
    pair_loops = [n for n in ast.walk(f.node) if isinstance(n, ast.For)
                  and C.is_call_to(n.iter, "pairwise")]
    ctx.floor("R5", "pairwise loops over a path", len(pair_loops), 1)
    for pl in pair_loops:
        if not (isinstance(pl.target, ast.Tuple) and len(pl.target.elts) == 2):
            ctx.broken("R5: pairwise loop target is not a pair")
        s, d = U(pl.target.elts[0]), U(pl.target.elts[1])
        lat_defs = pm.find_any(['M_e = M_g.edges[%s, %s]["latency"]' % (s, d),
                                'M_e = M_g.edges[(%s, %s)]["latency"]' % (s, d),
                                'M_e = M_g[%s][%s]["latency"]' % (s, d)], pl)
        if len(lat_defs) != 1:
            ctx.node_bad("R5", f, pl, "edge latency is not read once as <graph>.edges[%s, %s]['latency']" % (s, d))
            continue
        e = U(lat_defs[0][1]["M_e"])
        graph = U(lat_defs[0][1]["M_g"])
        sums = pm.find_any(["M_acc += %s" % e, "M_acc = M_acc + %s" % e], pl)
        apps = pm.find("M_lst.append((M_n, %s))" % e, pl)
        other_aug = [n for n in ast.walk(pl) if isinstance(n, ast.AugAssign)
                     and sums and U(n.target) == U(sums[0][1]["M_acc"]) and n is not sums[0][0]]
        if len(sums) == 1 and len(apps) == 1 and not other_aug and all(
                parent_is_body(x[0], pl) for x in (sums[0], apps[0])):
            acc = U(sums[0][1]["M_acc"])
            # accumulator reset per path
            outer = C.enclosing_loop(pl)
            resets = [a for a in C.assigns_to(f.node, acc) if isinstance(a, ast.Assign)
                      and C.const_num(a.value) == 0 and outer is not None and a in outer.body]
            if resets and resets[0].lineno < pl.lineno:
                ctx.node_ok("R5", f, pl, "per edge: %s; %s (reset per path)" % (U(sums[0][0]), U(apps[0][0])))
            else:
                ctx.node_bad("R5", f, pl, "the latency accumulator %s is not reset to 0 for every path" % acc)
            # graph must be the doubled-kernel graph built in this function
            gdefs = C.assigns_to(f.node, graph)
            gok = len(gdefs) == 1 and C.is_call_to(gdefs[0].value, "create_DG")
            ctx.check(gok, "R5", "latencies read from the doubled-kernel graph", f.where(pl),
                      "edge latencies are not read from the graph built over the doubled kernel",
                      f.qname, U(lat_defs[0][0]))
            # the node stored must be the (mapped) source
            nb = U(apps[0][1]["M_n"])
            ctx.check(nb == s, "R5", "member = source node of the edge", f.where(apps[0][0]),
                      "the member recorded for an edge is %s, not its source node %s" % (nb, s),
                      f.qname, U(apps[0][0]))
        else:
            ctx.node_bad("R5", f, pl, "inside the pairwise loop the edge latency must be added once to the "
                         "sum and appended once with its source node (sums=%d, appends=%d, other "
                         "updates=%d)" % (len(sums), len(apps), len(other_aug)))

    # ---------------------------------------------------------------- R6 result order
    ctx.rule("R6", "result list sorted (descending) before the dict is built")
    appends = pm.find("M_res.append((M_sum, M_path))", f.node)
    ctx.floor("R6", "result-list appends", len(appends), 1)
    r6_seen = []
    for n, b in appends:
        res = U(b["M_res"])
        sorts = [s for s, _ in pm.find_any([
            "%s.sort(reverse=True)" % res, "%s = sorted(%s, reverse=True)" % (res, res)], f.node)]
        dict_loops = [l for l in ast.walk(f.node) if isinstance(l, ast.For) and U(l.iter) == res]
        if not dict_loops:
            continue  # some other list of pairs (e.g. the member list)
        r6_seen.append(n)
        good = bool(sorts) and all(cfg.dominates(sorts[0], l) for l in dict_loops) and not C.enclosing_loops(sorts[0])
        if good:
            ctx.node_ok("R6", f, sorts[0], "%s dominates the dict construction" % U(sorts[0]))
        else:
            ctx.node_bad("R6", f, dict_loops[0], "the dict of loop-carried dependencies is built from %s "
                         "without a preceding total descending sort: entry order (and the cycle picked "
                         "among equal latencies) would depend on discovery order" % res)
        for l in dict_loops:
            stores = pm.find('M_d[M_k] = {"root": M_r, "dependencies": M_deps, "latency": M_lat}', l)
            if len(stores) != 1:
                ctx.node_bad("R6", f, l, "dict entry is not {root, dependencies, latency}")
                continue
            sb = stores[0][1]
            tnames = [U(e) for e in l.target.elts] if isinstance(l.target, ast.Tuple) else []
            lat_ok = len(tnames) == 2 and U(sb["M_lat"]) == tnames[0]
            deps_ok = len(tnames) == 2 and pm.match(
                "[(self._get_node_by_lineno(M_a), M_b) for M_a, M_b in %s]" % tnames[1], sb["M_deps"]) is not None
            ctx.check(lat_ok, "R6", "entry latency = the path's latency sum", f.where(stores[0][0]),
                      "the 'latency' stored for a cycle is %s, not the sum accumulated for it" % U(sb["M_lat"]),
                      f.qname, U(stores[0][0])[:200])
            ctx.check(deps_ok, "R6", "entry members = every (line, latency) of the path", f.where(stores[0][0]),
                      "the 'dependencies' of a cycle are not all (instruction, latency) members of the path",
                      f.qname, U(sb["M_deps"]))

    ctx.floor("R6", "result lists that are turned into the returned dict", len(r6_seen), 1)

    # ---------------------------------------------------------------- R7 selection
    ctx.rule("R7", "text and dict select the maximum-latency cycle; default 0.0")
    sel_sites = []
    for q in ("Frontend.combined_view", "Frontend.full_analysis_dict"):
        fr = ctx.func(q)
        hits = pm.find_any(["M_v = max(M_d, key=lambda M_k: M_d[M_k]['latency'])",
                            "M_v = min(M_d, key=lambda M_k: M_d[M_k]['latency'])",
                            "M_v = max(M_d, key=M__)", "M_v = min(M_d, key=M__)",
                            "M_v = sorted(M_d, key=M__)[M__]", "M_v = sorted(M_d, key=M__, reverse=M__)[M__]"], fr.node)
        if not hits:
            # the selection used in place (e.g. `entry = d[max(d, key=...)]`): only its direction can be judged
            inplace = [n for n in ast.walk(fr.node) if isinstance(n, ast.Call) and isinstance(n.func, ast.Name)
                       and n.func.id in ("max", "min", "sorted") and "['latency']" in U(n)]
            wrong = [n for n in inplace if n.func.id == "min"]
            for n in wrong:
                ctx.node_bad("R7", fr, n, "the LCD figure is taken from `%s`: not a maximum-latency cycle" % U(n)[:80])
            if not wrong:
                ctx.unknown("R7", "longest-cycle selection in " + q, fr.where(),
                            "no statement `v = max(dict, key=latency)` found (%d selection(s) used in place)" % len(inplace))
            continue
        for n, b in hits:
            good = any(pm.match(pat, n) is not None for pat in (
                "M_v = max(M_d, key=lambda M_k: M_d[M_k]['latency'])",
                "M_v = sorted(M_d, key=lambda M_k: M_d[M_k]['latency'])[-1]",
                "M_v = sorted(M_d, key=lambda M_k: M_d[M_k]['latency'], reverse=True)[0]"))
            v, d = U(b["M_v"]), U(b["M_d"])
            uses = pm.find("M_s = %s[%s]['latency']" % (d, v), fr.node)
            guard = any(pol and U(e) == d for e, pol in C.facts_at(n))
            sums = [U(u[1]["M_s"]) for u in uses]
            default_ok = bool(sums) and any(
                C.const_num(a.value) == 0 and isinstance(a.value.value, float)
                for a in C.assigns_to(fr.node, sums[0]) if isinstance(a, ast.Assign) and a is not uses[0][0]
                and isinstance(a.value, ast.Constant))
            if good and uses and guard and default_ok:
                ctx.node_ok("R7", fr, n, "%s; %s (default 0.0, only if the dict is non-empty)" % (U(n), U(uses[0][0])))
                sel_sites.append((q, U(n).replace(v, "V").replace(d, "D")))
            else:
                ctx.node_bad("R7", fr, n, "the LCD figure must be the latency of max(dict, key=latency), "
                             "computed only for a non-empty dict, defaulting to 0.0 (max-form=%s, latency "
                             "read=%s, non-empty guard=%s, default 0.0=%s)" % (good, bool(uses), guard, default_ok))
    # (that text and dict pick the SAME cycle among equal maxima is an obligation of C13-R1)
    # LCD column members come from the selected entry
    cv = ctx.func("Frontend.combined_view")
    col = pm.find("M_l = {M_i.line_number: M_lat for M_i, M_lat in M_d[M_v]['dependencies']}", cv.node)
    col_any = [n for n in ast.walk(cv.node) if isinstance(n, ast.DictComp) and "['dependencies']" in U(n)]
    ctx.judge(len(col) == 1, not col_any or len(col) > 1, "R7", "LCD column = members of the selected cycle", cv.where(),
              "the LCD column is not filled from the 'dependencies' of the selected cycle", cv.qname,
              "lcd_lines construction")


    lcd_cell_presence(ctx, "R7")
    # R9: the doubled kernel in which the cycles are searched is built with the requested flag-dependency setting (C03-R3)
    from . import c03
    ctx.rule("R9", "the graph searched for cycles is built with the requested flag-dependency setting (C03-R3)")
    C.embed(ctx, "C03", lambda sub: c03.flag_threading(sub, "R3"), "R9", "flag dependencies (C03-R3)",
            "the doubled kernel in which loop-carried cycles are searched lacks (or gains) the flag-dependency edges the user asked "
            "for: cycles carried through a flag register are not reported under --consider-flag-deps", f.where())
    # R8: the list-based report prints every cycle of the dict once (shared with C13-R1)
    from . import c13
    ctx.rule("R8", "the list-based LCD report iterates every entry of the dict (C13-R1)")
    C.embed(ctx, "C13", lambda sub: c13.lcd_list(sub, "R1"), "R8", "LCD list (C13-R1)",
            "a cycle found by the search is missing from (or collapsed in) the printed list", ctx.func("Frontend.loopcarried_dependencies").where())


def lcd_cell_presence(ctx, rule, kinds=("LCD", "CP")):
    """The LCD cell of a line is filled iff the line is a member of the selected cycle: the per-line value handed to the
    cell formatter is `<members>.get(line)` - None for non-members, the edge latency (possibly 0.0: eliminated moves)
    for members - so the formatter must test `is None`, not truthiness."""
    cv = ctx.func("Frontend.combined_view")
    lc = ctx.func("Frontend._get_lcd_cp_ports")
    call = C.calls_to(cv.node, "_get_lcd_cp_ports")
    if not call:
        ctx.unknown(rule, "LCD cell presence", cv.where(), "call of _get_lcd_cp_ports(...) not found")
        return
    prm = [p_ for p_ in lc.params() if p_ not in ("self", "cls")]
    found_lcd = False
    for i_, arg in enumerate(call[0].args):
        if i_ >= len(prm):
            break
        via_get = isinstance(arg, ast.Call) and isinstance(arg.func, ast.Attribute) and arg.func.attr == "get" and len(arg.args) == 1
        if not via_get:
            continue
        # which column: the map the value is looked up in
        kind = None
        if isinstance(arg.func.value, ast.Name):
            ds = [a_ for a_ in C.assigns_to(cv.node, arg.func.value.id) if isinstance(a_, ast.Assign) and isinstance(a_.value, ast.DictComp)]
            for d_ in ds:
                t_ = U(d_.value)
                kind = kind or ("LCD" if "'dependencies'" in t_ or '"dependencies"' in t_ else "CP" if "latency_cp" in t_ else None)
        found_lcd = found_lcd or kind == "LCD"
        if kind is None or kind not in kinds:
            continue
        p = prm[i_]
        tests = C.presence_tests(lc.node, p)
        bad = [n for n, v in tests if v is False]
        what = "selected cycle" if kind == "LCD" else "critical path"
        ctx.judge(bool(tests) and not bad and all(v is True for _, v in tests), bool(tests) and all(v is not None for _, v in tests),
                  rule, "%s cell filled for every member of the %s (presence by `is None`)" % (kind, what),
                  lc.where(bad[0]) if bad else lc.where(),
                  "`%s` receives `%s` - None for lines outside the %s, the latency for members - and tests it by "
                  "truthiness: a member whose latency is 0.0 (an eliminated register move such as zen2 `vmovapd %%ymm4, %%ymm0`) is "
                  "treated as a non-member, its %s cell stays blank and the column no longer marks the %s that the summary "
                  "reports" % (p, U(arg), what, kind, what), lc.qname, "%s cell presence test" % kind.lower())
    if not found_lcd and "LCD" in kinds:
        ctx.unknown(rule, "LCD cell presence", cv.where(), "no argument of _get_lcd_cp_ports is looked up in the member map of the selected cycle")


def parent_is_body(node, loop):
    """node is a statement directly in the loop body (executed once per iteration)."""
    from ..srcmodel import parent

    st = node
    while st is not None and not isinstance(st, ast.stmt):
        st = parent(st)
    return st in loop.body
