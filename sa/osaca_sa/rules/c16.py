"""C16 - LCD result is independent of process scheduling and worker count."""
import ast

from .. import pm, report
from ..pm import U
from . import common as C

TECHNIQUE = (
    'static analysis: premises of a partition lemma (ceiling form of the chunk size, affine start/end arithmetic over the same quantities, one worker per slice), sibling agreement of the sequential and the worker search, order-insensitive reduction (canonical key -> set de-duplication -> total sort, re-using the C05 obligations), use-analysis of every set-derived value that can reach the text report ; origin analysis of every store into the fields the machine-readable output serialises (no set-ordered sequence)'
)
EXPLANATION = (
    "R1 (lemma: with W = ceil(n/c) the slices [t*W, min((t+1)*W, n)), t = 0..c-1, are disjoint and cover [0, n)): W is one of the accepted ceiling forms of (len(kernel), cpu_count()); starts/ends have exactly those affine forms over the same W, n, c; the slices are taken from the list the sequential branch iterates; one process per slice receiving the shared list, its slice, the doubled graph and the offset. Floor-division forms are violations (tail dropped). R2: worker body and sequential loop issue the same path query (graph, source, target), neither skips a root nor bounds the depth below the longest possible cycle (C05-R3), and both add every path found. R3: from the merge point to the return the data passes only through canonical key -> set-based de-duplication -> total sort (the C05-R4/R6 obligations). R4: no set-ordered sequence reaches the text report other than through membership tests or sorted iteration. R5: no list whose order is the iteration order of a set (list(set(x)), list({...}), iteration over a set) is stored into an instruction-form field that full_analysis_dict serialises: for string elements that order changes with the interpreter's hash seed, so two runs of the same --yaml-out command differ."
)
NOT_DECIDED = "Actual schedules and byte-identical repetition of the report (needs runs under perturbed schedules)."
ASSUMPTIONS = ["Manager().list() preserves every element appended by a worker that was not killed"]

FN = "KernelDG.check_for_loopcarried_dep"

CEIL_FORMS = ["int((M_n - 1) / M_c) + 1", "(M_n - 1) // M_c + 1", "(M_n + M_c - 1) // M_c", "-(-M_n // M_c)",
              "math.ceil(M_n / M_c)", "ceil(M_n / M_c)", "int(math.ceil(M_n / M_c))", "1 + (M_n - 1) // M_c",
              "1 + int((M_n - 1) / M_c)",
              # quotient plus one when there is a remainder
              "M_n // M_c + (1 if M_n % M_c else 0)", "M_n // M_c + (1 if M_n % M_c != 0 else 0)", "M_n // M_c + (1 if M_n % M_c > 0 else 0)",
              "M_n // M_c + (0 if M_n % M_c == 0 else 1)", "M_n // M_c + bool(M_n % M_c)", "M_n // M_c + (M_n % M_c > 0)",
              "M_n // M_c + (M_n % M_c != 0)", "M_n // M_c + int(M_n % M_c > 0)", "M_n // M_c + int(M_n % M_c != 0)",
              "M_n // M_c + int(bool(M_n % M_c))", "(1 if M_n % M_c else 0) + M_n // M_c"]
FLOOR_FORMS = ["M_n // M_c", "int(M_n / M_c)", "math.floor(M_n / M_c)", "int(M_n // M_c)", "round(M_n / M_c)"]


def _count_form(e):
    """(iterated text, {(condition with the variable renamed, polarity)}) for len([x for x in K if c]) / sum(1 for x in K if c)
    / len(K); None otherwise"""
    b = pm.match("len(M_k)", e)
    gen = None
    if b is not None and isinstance(b["M_k"], (ast.ListComp, ast.GeneratorExp)):
        gen = b["M_k"]
        if U(gen.elt) != U(gen.generators[0].target):
            return None
    elif b is not None:
        return U(b["M_k"]), frozenset()
    else:
        b = pm.match("sum(M_g)", e)
        if b is not None and isinstance(b["M_g"], (ast.ListComp, ast.GeneratorExp)) and U(b["M_g"].elt) == "1":
            gen = b["M_g"]
    if gen is None or len(gen.generators) != 1 or not isinstance(gen.generators[0].target, ast.Name):
        return None
    g = gen.generators[0]
    facts = set()
    for c in g.ifs:
        ren = ast.parse(U(c), mode="eval").body
        for x in ast.walk(ren):
            if isinstance(x, ast.Name) and x.id == g.target.id:
                x.id = "ITEM_"
        facts |= C.norm_facts_of_test(ren)
    return U(g.iter), frozenset(facts)


def is_len_of(e, kern, flow=None):
    """is `e` the number of entries of `kern`: len(kern), or a count of the entries with a condition plus the count of those
    without it"""
    cf0 = _count_form(e)
    if cf0 is not None and cf0 == (kern, frozenset()):
        return True
    e = flow.subst(e) if flow is not None else e
    cf = _count_form(e)
    if cf is not None:
        return cf == (kern, frozenset())
    if isinstance(e, ast.BinOp) and isinstance(e.op, ast.Add):
        a, b = _count_form(e.left), _count_form(e.right)
        if a is None or b is None or a[0] != kern or b[0] != kern or len(a[1]) != 1 or len(b[1]) != 1:
            return False
        (ta, pa), = a[1]
        (tb, pb), = b[1]
        return ta == tb and pa != pb
    return False


def harmless_root_list(f, name, kern):
    """`name` is a local holding the kernel lines minus lines that cannot start a path: `[x for x in kernel if c]` whose
    dropped lines (not c) have no outgoing edge in the searched graph. Returns True / False / None (not such a list)."""
    from . import c05
    from ..cfg import conjuncts
    ds = [a for a in C.assigns_to(f.node, name) if isinstance(a, ast.Assign)]
    if len(ds) != 1 or not isinstance(ds[0].value, ast.ListComp) or len(ds[0].value.generators) != 1:
        return None
    lc = ds[0].value
    g = lc.generators[0]
    if U(g.iter) != kern or U(lc.elt) != U(g.target) or not g.ifs:
        return None
    test = g.ifs[0] if len(g.ifs) == 1 else ast.BoolOp(op=ast.And(), values=list(g.ifs))
    # a line is dropped when the filter is false: every way of being false must include "no outgoing edge"
    neg = ast.UnaryOp(op=ast.Not(), operand=test)
    try:
        facts = list(conjuncts(neg, True))
    except Exception:
        return False
    return any(c05._unreachability_test(f, e, pol) for e, pol in facts)


def _r1(ctx, f):
    ctx.rule("R1", "static partition covers every root exactly once (premises of the partition lemma)")
    kern = f.params()[1]
    flow = C.flow_of(f)
    # the roots held in a local: the kernel lines without those that have no outgoing edge (they start no path)
    for sl_ in ast.walk(f.node):
        if isinstance(sl_, ast.Subscript) and isinstance(sl_.slice, ast.Slice) and isinstance(sl_.value, ast.Name) and sl_.value.id != kern:
            h_ = harmless_root_list(f, sl_.value.id, kern)
            if h_ is True:
                ctx.ok("R1", "roots = `%s`: the kernel lines except lines without outgoing edges (they start no path)" % sl_.value.id, f.where(sl_))
                kern = sl_.value.id
                break
    procs = [c for c in ast.walk(f.node) if isinstance(c, ast.Call) and pm.call_name(c).endswith("Process")]
    if len(procs) != 1:
        ctx.broken("R1: worker construction (Process(...)) not found")
    p = procs[0]
    comp = C.enclosing_loop(p)
    gens = [g for g in ast.walk(f.node) if isinstance(g, ast.ListComp) and C.in_subtree(p, g)]
    if not gens:
        ctx.broken("R1: workers are not created by a comprehension over the slices")
    gen = gens[0].generators[0]
    slices_var = U(gen.iter)
    sl = [a for a in C.assigns_to(f.node, slices_var)]
    if len(sl) != 1:
        ctx.broken("R1: definition of the slice list %s not found" % slices_var)
    b = pm.match("[%s[M_s:M_e] for M_s, M_e in zip(M_starts, M_ends)]" % kern, sl[0].value)
    direct = None
    if b is None:
        # slices taken directly: kernel[first:first + W] for first in range(0, c * W, W)  (slicing clips at the end)
        for pat in ("[%s[M_f:M_f + M_w] for M_f in range(0, M_stop, M_w)]", "[%s[M_f:M_w + M_f] for M_f in range(0, M_stop, M_w)]"):
            direct = direct or pm.match(pat % kern, sl[0].value)
    if direct is not None:
        W = U(direct["M_w"])
        stop = direct["M_stop"]
        nvars = [a.targets[0].id for a in ast.walk(f.node) if isinstance(a, ast.Assign) and isinstance(a.targets[0], ast.Name)
                 and is_len_of(a.value, kern, flow)]
        cdefs = [a for a in ast.walk(f.node) if isinstance(a, ast.Assign) and isinstance(a.targets[0], ast.Name)
                 and C.calls_to(a.value, "cpu_count")]
        wd = C.assigns_to(f.node, W)
        if len(nvars) != 1 or len(cdefs) != 1 or len(wd) != 1:
            ctx.unknown("R1", U(sl[0]), f.where(sl[0]), "direct slicing, but n / c / W definitions were not found")
            return
        n, c1 = nvars[0], cdefs[0].targets[0].id
        if U(stop) in (n, "len(%s)" % kern):
            ctx.node_ok("R1", f, sl[0], "slices = kernel[t:t+W] for t in range(0, n, W): a partition of [0, n) for any W >= 1")
        elif C.affine(stop) in ({"%s * %s" % (c1, W): 1, 1: 0}, {"%s * %s" % (W, c1): 1, 1: 0}):
            form = None
            wv = wd[0].value
            while True:     # max(k, X) / min(k, X) / int(X) keep X's rounding direction
                if isinstance(wv, ast.Call) and isinstance(wv.func, ast.Name) and wv.func.id in ("max", "min") and len(wv.args) == 2 \
                        and any(C.const_num(a) is not None for a in wv.args):
                    wv = [a for a in wv.args if C.const_num(a) is None][0]
                elif isinstance(wv, ast.Call) and isinstance(wv.func, ast.Name) and wv.func.id == "int" and len(wv.args) == 1 \
                        and not any(pm.match(p2, wv) is not None for p2 in CEIL_FORMS + FLOOR_FORMS):
                    wv = wv.args[0]
                else:
                    break
            for pat in CEIL_FORMS:
                m = pm.match(pat, wv)
                if m is not None and U(m["M_n"]) == n and U(m["M_c"]) == c1:
                    form = pat
            ctx.judge(form is not None, any(pm.match(p2, wv) is not None for p2 in CEIL_FORMS + FLOOR_FORMS), "R1",
                      "slices = kernel[t:t+W] for t in range(0, c*W, W) with W = ceil(n/c): covers [0, n)", f.where(wd[0]),
                      "chunk size %s is not a ceiling form of (n, c): range(0, c*W, W) then stops before the end of the kernel" % U(wd[0].value),
                      f.qname, "chunk size")
        else:
            ctx.unknown("R1", U(sl[0]), f.where(sl[0]), "direct slicing with an unrecognised range bound %s" % U(stop))
            return
        ok = _worker_args_ok(ctx, f, p, U(gen.target))
        ctx.check(ok, "R1", "one worker per slice: Process(target=_extend_path, args=(shared, slice, graph, offset))", f.where(p),
                  "workers are not created one per slice with (shared list, that slice, graph, offset)", f.qname, "worker per slice")
        return
    fused = None
    if b is None:
        # the same family written in one comprehension: kernel[lo(t):hi(t)] for t in range(c)
        fused = pm.match("[%s[M_lo:M_hi] for M_t in range(M_c)]" % kern, sl[0].value)
    if b is None and fused is None:
        other = pm.match("[M_k[M_lo:M_hi] for M_t in M_it]", sl[0].value) or pm.match("[M_k[M_s:M_e] for M_s, M_e in zip(M_starts, M_ends)]", sl[0].value)
        if other is not None and U(other["M_k"]) != kern and U(flow.subst(other["M_k"])) != kern:
            ctx.node_bad("R1", f, sl[0], "the worker slices are not kernel[s:e] for (s, e) in zip(starts, ends) over the same "
                         "kernel list the sequential branch iterates")
        else:
            ctx.unknown("R1", U(sl[0]), f.where(sl[0]), "the worker slices are not written as kernel[lo:hi] for t in range(c) or over zip(starts, ends)")
        return
    if fused is not None:
        def syn(elt):
            a = ast.parse("_ = [%s for %s in range(%s)]" % (U(elt), U(fused["M_t"]), U(fused["M_c"]))).body[0]
            for x in ast.walk(a):
                ast.copy_location(x, sl[0])
            return a
        ctx.node_ok("R1", f, sl[0], "slices = kernel[lo(t):hi(t)] for t in range(c)")
        sd, ed = [syn(fused["M_lo"])], [syn(fused["M_hi"])]
    else:
        ctx.node_ok("R1", f, sl[0], "slices = kernel[s:e] over zip(starts, ends)")
        starts, ends = U(b["M_starts"]), U(b["M_ends"])
        sd = C.assigns_to(f.node, starts)
        ed = C.assigns_to(f.node, ends)
        if len(sd) != 1 or len(ed) != 1:
            ctx.broken("R1: starts/ends definitions not found")
    bs = pm.match("[M_t * M_w for M_t in range(M_c)]", sd[0].value) or pm.match("[M_w * M_t for M_t in range(M_c)]", sd[0].value)
    be = None
    for pat in ("[min((M_t + 1) * M_w, M_n) for M_t in range(M_c)]", "[min(M_n, (M_t + 1) * M_w) for M_t in range(M_c)]",
                "[min(M_w * (M_t + 1), M_n) for M_t in range(M_c)]"):
        be = be or pm.match(pat, ed[0].value)
    if bs is None:
        ctx.node_bad("R1", f, sd[0], "slice starts are not t * W for t in range(c): %s" % U(sd[0].value))
    else:
        ctx.node_ok("R1", f, sd[0], "starts = t * W, t in range(c)")
    if be is None:
        ctx.node_bad("R1", f, ed[0], "slice ends are not min((t + 1) * W, n) for t in range(c): %s (an end beyond n is "
                     "harmless, an end below (t+1)*W or without the clamp on a different bound loses roots)" % U(ed[0].value))
    else:
        ctx.node_ok("R1", f, ed[0], "ends = min((t + 1) * W, n), t in range(c)")
    if bs is None or be is None:
        return
    W = U(bs["M_w"])
    # n and c are the names bound to len(kernel) and cpu_count()
    nvars = [a.targets[0].id for a in ast.walk(f.node) if isinstance(a, ast.Assign) and isinstance(a.targets[0], ast.Name)
             and is_len_of(a.value, kern, flow)]
    # c: the name bound to an expression of cpu_count() (any positive value works for the lemma)
    cdefs = [a for a in ast.walk(f.node) if isinstance(a, ast.Assign) and isinstance(a.targets[0], ast.Name)
             and C.calls_to(a.value, "cpu_count")]
    if len(nvars) != 1:
        # the bound that clamps the slice ends / feeds the chunk size, when it is the length of something else
        other = [a for a in ast.walk(f.node) if isinstance(a, ast.Assign) and isinstance(a.targets[0], ast.Name)
                 and a.targets[0].id == U(be["M_n"]) and C.is_call_to(a.value, "len")]
        if len(other) == 1:
            ctx.node_bad("R1", f, other[0], "the slices are taken from `%s` but clamped to (and sized by) `%s`, which is not its length: the last "
                         "len(%s) - %s lines are given to no worker and are never used as search roots (loop-carried dependencies through "
                         "them are lost in the multi-process search only)" % (kern, U(other[0]), kern, U(other[0].targets[0])))
            return
    if len(nvars) != 1 or len(cdefs) != 1:
        ctx.broken("R1: n = len(kernel) / c = <expression of cpu_count()> definitions not found (n: %s, c: %s)" % (
            nvars, [U(a) for a in cdefs]))
    n, c1 = nvars[0], cdefs[0].targets[0].id
    ctx.ok("R1", "n = len(kernel) is `%s`, c = `%s` = %s" % (n, c1, U(cdefs[0].value)), f.where())
    ctx.check(W == U(be["M_w"]), "R1", "starts and ends use the same W", f.where(ed[0]),
              "starts use W=%s, ends use W=%s" % (W, U(be["M_w"])), f.qname, "same W")
    ctx.check(U(bs["M_c"]) == c1 and U(be["M_c"]) == c1, "R1", "t ranges over range(c) in starts and ends", f.where(sd[0]),
              "slices are generated for t in range(%s) / range(%s) instead of range(%s): with fewer slices than the chunk "
              "size assumes, the roots of the missing slices are never searched" % (U(bs["M_c"]), U(be["M_c"]), c1), f.qname,
              "range(c)")
    ctx.check(U(be["M_n"]) == n, "R1", "ends are clamped to n", f.where(ed[0]),
              "slice ends are clamped to %s instead of n = %s: the last root(s) are dropped" % (U(be["M_n"]), n), f.qname,
              "clamp to n")
    wd = C.assigns_to(f.node, W)
    if len(wd) != 1:
        ctx.broken("R1: definition of the chunk size %s not found" % W)
    def classify(e):
        for pat in CEIL_FORMS:
            m = pm.match(pat, e)
            if m is not None and U(m["M_n"]) == n and U(m["M_c"]) == c1:
                return ("ceil", pat)
        for pat in FLOOR_FORMS:
            m = pm.match(pat, e)
            if m is not None and U(m["M_n"]) == n and U(m["M_c"]) == c1:
                return ("floor", pat)
        # max(k, X) / min(k, X) with a constant k keeps X's rounding direction for large n
        if isinstance(e, ast.Call) and isinstance(e.func, ast.Name) and e.func.id in ("max", "min") and len(e.args) == 2:
            consts = [a for a in e.args if C.const_num(a) is not None]
            rest = [a for a in e.args if C.const_num(a) is None]
            if len(consts) == 1 and len(rest) == 1:
                return classify(rest[0])
        if isinstance(e, ast.Call) and isinstance(e.func, ast.Name) and e.func.id == "int" and len(e.args) == 1:
            return classify(e.args[0])
        return None

    form = classify(wd[0].value)
    if form is None:
        ctx.broken("R1: chunk size `%s` is neither a known ceiling form nor a known floor form of (n, c)" % U(wd[0].value))
    if form[0] == "ceil":
        ctx.node_ok("R1", f, wd[0], "W = ceil(n / c) in the form %s" % form[1].replace("M_n", "n").replace("M_c", "c"))
    else:
        ctx.node_bad("R1", f, wd[0], "chunk size %s rounds n/c DOWN: c chunks of that size cover only c*floor(n/c) roots, so "
                     "the last n mod c instructions are never used as search roots (LCDs through them are lost for "
                     "kernel lengths that are not a multiple of the worker count)" % U(wd[0].value))
    # one process per slice, with the right arguments
    ok = _worker_args_ok(ctx, f, p, U(gen.target))
    ctx.check(ok, "R1", "one worker per slice: Process(target=_extend_path, args=(shared, slice, graph, offset))", f.where(p),
              "workers are not created one per slice with (shared list, that slice, graph, offset)", f.qname, "worker per slice")
    st = [l for l in ast.walk(f.node) if isinstance(l, ast.For) and any(U(s) == "%s.start()" % U(l.target) for s in l.body)]
    plist = [a for a in ast.walk(f.node) if isinstance(a, ast.Assign) and a.value is gens[0]]
    ctx.check(bool(st) and bool(plist) and U(st[0].iter) == U(plist[0].targets[0]), "R1", "every worker is started", f.where(),
              "not every constructed worker is started", f.qname, "all started")
    thr = ctx.repo.cls("KernelDG").class_attrs.get("INSTRUCTION_THRESHOLD")
    br = [n2 for n2 in ast.walk(f.node) if isinstance(n2, ast.If) and "INSTRUCTION_THRESHOLD" in U(n2.test)]
    # the worker construction is reached exactly when n >= INSTRUCTION_THRESHOLD (whatever the spelling / branch order)
    rel = None
    for e, pol in C.facts_at(p):
        if "INSTRUCTION_THRESHOLD" not in U(e):
            continue
        if isinstance(e, ast.Compare) and len(e.ops) == 1:
            l, r, op = U(e.left), U(e.comparators[0]), type(e.ops[0]).__name__
            if r == n:          # T op n  ==  n flipped-op T
                l, r, op = r, l, {"Lt": "Gt", "LtE": "GtE", "Gt": "Lt", "GtE": "LtE"}.get(op, op)
            if l == n and r.endswith("INSTRUCTION_THRESHOLD"):
                if not pol:
                    op = {"Lt": "GtE", "LtE": "Gt", "Gt": "LtE", "GtE": "Lt"}.get(op, "?")
                rel = op
    ctx.judge(thr is not None and rel == "GtE", rel is not None, "R1",
              "parallel search for n >= INSTRUCTION_THRESHOLD (%s)" % (U(thr) if thr is not None else "?"), f.where(),
              "the multi-process search is used when n %s INSTRUCTION_THRESHOLD, not when n >= INSTRUCTION_THRESHOLD" % {
                  "Gt": ">", "Lt": "<", "LtE": "<=", "GtE": ">="}.get(rel, "?"), f.qname, "threshold")


def _worker_args_ok(ctx, f, p, slice_var):
    """Process(target=self._extend_path, args=(...)): the arguments bound to the worker's parameters - the slice for its
    kernel parameter, a list for its result parameter, the searched graph and the offset (extra parameters are allowed)."""
    args = [k.value for k in p.keywords if k.arg == "args"]
    tgt = [U(k.value) for k in p.keywords if k.arg == "target"]
    if not args or not isinstance(args[0], ast.Tuple) or tgt != ["self._extend_path"]:
        return False
    w = ctx.func("KernelDG._extend_path")
    params = [x for x in w.params() if x != "self"]
    if len(args[0].elts) > len(params) or len(args[0].elts) < 4:
        return False
    bound = dict(zip(params, args[0].elts))
    # the worker's kernel parameter is the one its root loop iterates
    loops = [l for l in ast.walk(w.node) if isinstance(l, ast.For) and isinstance(l.iter, ast.Name) and l.iter.id in params
             and C.calls_to(l, "all_simple_paths")]
    if len(loops) != 1:
        return False
    kparam = loops[0].iter.id
    return U(bound.get(kparam, ast.Constant(None))) == slice_var


def _worker_early_exit(ctx, f, p):
    """R6: a worker that leaves its root loop early hands back an incomplete result without anybody knowing - unless that can
    only happen when a time-out is in force, in which case the parent reports it (C19-R1). The exit must be conditioned on a
    deadline parameter that is not None, and the caller may pass a non-None deadline only where `timeout != -1`."""
    ctx.rule("R6", "a worker leaves its roots early only under a deadline, and a deadline exists only when a time-out is in force")
    w = ctx.func("KernelDG._extend_path")
    wparams = [x for x in w.params() if x != "self"]
    loops = [l for l in ast.walk(w.node) if isinstance(l, ast.For) and C.calls_to(l, "all_simple_paths")]
    if len(loops) != 1:
        ctx.unknown("R6", "worker root loop", w.where(), "the worker's loop over its roots was not found")
        return
    lp = loops[0]
    exits = [x for x in ast.walk(w.node) if (isinstance(x, ast.Break) and C.enclosing_loop(x) is lp) or (
        isinstance(x, ast.Return) and C.in_subtree(x, lp))]
    if not exits:
        ctx.ok("R6", "the worker visits every root of its slice (no early exit)", w.where(lp))
        return
    tmo = f.params()[2] if len(f.params()) > 2 else "timeout"
    dparams = set()
    for x in exits:
        nf = C.norm_fact_nodes(x, stop=lp)
        ds = {C.is_none_test(e)[0] for e, pol in nf if (not pol) and C.is_none_test(e) is not None and C.is_none_test(e)[0] in wparams}
        timed = [e for e, pol in nf if pol and isinstance(e, ast.Compare) and any(
            isinstance(c_, ast.Call) and U(c_.func).startswith("time.") for c_ in ast.walk(e)) and any(d_ in pm.names_in(e) for d_ in ds)]
        ctx.judge(bool(ds) and bool(timed), bool(ds) or not nf, "R6", "early exit of the worker only under `deadline is not None and clock > deadline`",
                  w.where(x), "the worker can leave its root loop early (guards: %s) without a deadline being in force: the roots it did not "
                  "visit are missing from the result, and nobody reports it" % [("" if pol else "not ") + U(e) for e, pol in nf], w.qname,
                  "worker early exit " + U(x))
        dparams |= ds
    # what the caller passes for the deadline parameter(s)
    args = [k.value for k in p.keywords if k.arg == "args"]
    if not args or not isinstance(args[0], ast.Tuple):
        return
    bound = dict(zip(wparams, args[0].elts))
    flow = C.flow_of(f)
    for dp in sorted(dparams):
        a = bound.get(dp)
        if a is None:
            ctx.ok("R6", "the deadline parameter `%s` keeps its default None: workers never leave early" % dp, f.where(p))
            continue

        def verdict(v, at, extra=()):
            """True: this value is None whenever there is no time-out; False: it can be a real deadline although timeout == -1"""
            if isinstance(v, ast.Constant) and v.value is None:
                return True
            if isinstance(v, ast.IfExp):
                facts = C.norm_facts_of_test(v.test)
                no_tmo_body = (C.CT("%s == -1" % tmo), True) in facts
                no_tmo_else = (C.CT("%s == -1" % tmo), False) in facts
                if no_tmo_body:
                    return verdict(v.body, at) is True      # the branch taken without a time-out must be None
                if no_tmo_else:
                    return verdict(v.orelse, at) is True
                return None
            in_force = (C.CT("%s == -1" % tmo), False) in C.norm_facts(at)
            if in_force:
                return True
            if isinstance(v, ast.BinOp) and tmo in pm.names_in(v):
                return False
            return None
        vs = []
        if isinstance(a, ast.Name):
            try:
                defs = flow.reaching(p, a.id)
            except KeyError:
                defs = []
            for d in defs:
                vs.append((verdict(d.value, d.stmt) if d.kind == "assign" and d.value is not None else None, d.stmt))
        else:
            vs.append((verdict(a, p), p))
        bad = [st for v_, st in vs if v_ is False]
        ctx.judge(not bad and all(v_ is True for v_, _ in vs), bool(vs) and all(v_ is not None for v_, _ in vs), "R6",
                  "the deadline handed to the workers is None whenever no time-out is in force (timeout == -1)",
                  f.where(bad[0]) if bad else f.where(p),
                  "the workers get a deadline computed from `%s` also when it is -1 (no time-out): that deadline lies in the past, every "
                  "worker stops after its first root, and the parent - which waits without a time-out - reports the truncated result "
                  "as complete" % tmo, f.qname, "worker deadline without time-out")


def reuse_r1(ctx, rule, why):
    """The partition premises (R1) as an obligation of another property."""
    from .. import report as _report
    f = ctx.func("KernelDG.check_for_loopcarried_dep")
    sub = _report.Ctx("C16", ctx.repo, ctx.tier, ctx.data)
    try:
        _r1(sub, f)
    except Exception as e:        # AnalysisError of the sub-analysis: not understood here either
        ctx.unknown(rule, "parallel roots (C16-R1)", f.where(), str(e)[:300])
        return
    for ob in sub.obligations:
        if ob["status"] == "violated":
            continue
        new_ob = dict(ob)
        new_ob["rule"] = rule
        new_ob["instance"] = "parallel roots (C16-R1): " + ob["instance"]
        ctx.obligations.append(new_ob)
    for fd in sub.findings:
        ctx.bad(rule, "parallel roots (C16-R1): " + fd.construct, fd.where, why + ": " + fd.detail, fd.scope, fd.construct)
    for u in getattr(sub, "unknowns", []):
        ctx.unknown(rule, "parallel roots (C16-R1)", f.where(), u)


def _r2(ctx, f):
    ctx.rule("R2", "worker and sequential search issue the same query and keep every path")
    ext = ctx.func("KernelDG._extend_path")
    seq = [c for c in C.calls_to(f.node, "all_simple_paths")]
    wrk = [c for c in C.calls_to(ext.node, "all_simple_paths")]
    if len(seq) != 1 or len(wrk) != 1:
        ctx.broken("R2: expected one all_simple_paths call in each of the two search variants")

    def norm(fi, c):
        loop = C.root_loop(c)
        root = U(loop.target) if isinstance(loop, ast.For) else "?"
        params = fi.params()
        from . import c05
        gname, s_txt, t_txt, restr = c05.searched_graph(fi, c)
        if restr == "?":
            return None
        # graph, source, target (locals resolved; a restriction to the nodes on source->target paths loses nothing)
        text = "%s(%s, %s, %s)" % (U(c.func), gname, s_txt, t_txt)
        text = text.replace(root + ".", "ROOT.")
        return text
    a, b = norm(f, seq[0]), norm(ext, wrk[0])
    if a is None or b is None:
        ctx.unknown("R2", "path query agreement", ext.where(wrk[0]), "a search runs on a sub-graph the rule cannot show to contain every path")
        a = b = ""
    # map the worker's parameter names onto the caller's argument names
    procs = [c for c in ast.walk(f.node) if isinstance(c, ast.Call) and pm.call_name(c).endswith("Process")]
    args = [k.value for k in procs[0].keywords if k.arg == "args"][0]
    for prm, arg in zip(ext.params()[1:], args.elts):
        if prm in ("dg", "offset") or U(arg) in ("dg", "offset"):
            b = b.replace(prm, U(arg))
    ctx.check(a == b, "R2", "same path query in both variants", ext.where(wrk[0]),
              "sequential: %s / worker: %s" % (a, b), "KernelDG", "path query agreement")

    from . import c05
    c05.roots_and_depth(ctx, "R2", f, ext, seq, wrk, {f.params()[1]})

    def keeps_all(fi, c):
        """every path produced by the generator is added to the accumulator"""
        loop = C.enclosing_loop(c)
        st = C.cfg_of(fi).node_of(c)
        if isinstance(st, ast.For) and C.in_subtree(c, st.iter):
            apps = pm.find("M_l.append(%s)" % U(st.target), st)
            if apps and isinstance(st.body[0], ast.Expr) and apps[0][0] is st.body[0].value:
                return True
            if len(apps) == 1:
                # a path is dropped only when its canonical key was seen before (`if key not in seen: seen.add(key); append`):
                # that is the de-duplication C05-R4 (embedded as R3) judges by its key, not a filter
                app_st = C.cfg_of(fi).node_of(apps[0][0])
                extra = [x for x in C.norm_facts(app_st) if x not in C.norm_facts(st)]
                seen = []
                for t, pol in extra:
                    m = pm.match("M_k in M_s", ast.parse(t, mode="eval").body) if isinstance(t, str) else None
                    if m is None or pol is not False or not pm.find("%s.add(%s)" % (U(m["M_s"]), U(m["M_k"])), st):
                        return False
                    seen.append(m)
                return bool(seen)
            return False
        if isinstance(st, ast.Expr) and pm.match("M_l.extend(M_g)", st.value) is not None:
            return True
        if isinstance(st, ast.Assign):
            v = U(st.targets[0])
            # the generator held in a local and consumed by a loop: `g = all_simple_paths(..); for p in g: acc.append(p)`
            for lp_ in [l for l in ast.walk(fi.node) if isinstance(l, ast.For) and U(l.iter) == v]:
                apps = pm.find("M_l.append(%s)" % U(lp_.target), lp_)
                if apps and isinstance(lp_.body[0], ast.Expr) and apps[0][0] is lp_.body[0].value:
                    return True
            uses = pm.find_any(["M_l.extend(list(%s))" % v, "M_l.extend(%s)" % v, "M_t = list(%s)" % v], fi.node)
            if uses and "M_t" in uses[0][1]:
                return bool(pm.find("M_l.extend(%s)" % U(uses[0][1]["M_t"]), fi.node))
            return bool(uses)
        return False
    for fi, c, nm in ((f, seq[0], "sequential"), (ext, wrk[0], "worker")):
        ctx.check(keeps_all(fi, c), "R2", "%s variant keeps every path it finds" % nm, fi.where(c),
                  "the %s search does not add every enumerated path to the result list (or adds it after a filter)" % nm,
                  fi.qname, "%s keeps all" % nm)


def _r3(ctx, f):
    ctx.rule("R3", "order-insensitive reduction: canonical key -> set de-duplication -> total sort")
    from . import c05

    sub = report.Ctx("C05", ctx.repo, ctx.tier, ctx.data)
    c05.run(sub)
    for ob in sub.obligations:
        if ob["rule"] in ("R4", "R6"):
            new = dict(ob)
            new["rule"] = "R3"
            new["instance"] = "C05-%s: %s" % (ob["rule"], ob["instance"])
            ctx.obligations.append(new)
    for fd in sub.findings:
        if fd.rule in ("R4", "R6"):
            ctx.bad("R3", "C05-%s: %s" % (fd.rule, fd.construct), fd.where, "reduction is order-sensitive: " + fd.detail,
                    fd.scope, fd.construct)
            ctx.obligations.pop()  # already copied above
    # merge point: the shared list is copied to a plain list inside the manager block
    cp = pm.find("M_a = list(M_a)", f.node)
    withs = [w for w in ast.walk(f.node) if isinstance(w, ast.With) and "Manager()" in U(w.items[0].context_expr)]
    ctx.check(bool(cp) and bool(withs) and C.in_subtree(cp[0][0], withs[0]), "R3", "shared list is copied before the manager is torn down",
              f.where(), "the shared path list is not copied to a plain list inside the Manager block", f.qname, "merge copy")
    # both variants feed the same post-processing variable
    if cp:
        merged = U(cp[0][1]["M_a"])
        loops = [l for l in ast.walk(f.node) if isinstance(l, ast.For) and U(l.iter) == merged]
        ctx.check(len(loops) == 1 and not C.enclosing_loops(loops[0]) and not any(
            C.in_subtree(loops[0], w) for w in withs), "R3", "one post-processing loop over the merged paths of either variant",
            f.where(), "sequential and parallel results do not flow through the same post-processing loop", f.qname,
            "single post-processing")
    ctx.note("R3: for a duplicate cycle the kept latency sum is the one of the first path in arrival order; the sums "
             "of rotations add the same numbers in a different order (floating-point order, not decided here)")


def _r4(ctx):
    ctx.rule("R4", "set-ordered values reach the text report only through membership tests or sorting")
    n_sets = 0
    for q in ("Frontend.combined_view", "Frontend.throughput_analysis", "Frontend.latency_analysis",
              "Frontend.loopcarried_dependencies", "Frontend._get_port_pressure", "Frontend._get_flag_symbols",
              "Frontend._symbol_map", "Frontend._get_lcd_cp_ports", "Frontend._get_port_number_line",
              "Frontend._get_separator_list", "Frontend._get_max_port_len", "Frontend.full_analysis"):
        f = ctx.func(q)
        for n in ast.walk(f.node):
            is_set = (isinstance(n, (ast.Set, ast.SetComp)) or (isinstance(n, ast.Call) and isinstance(n.func, ast.Name)
                                                                and n.func.id in ("set", "frozenset")))
            if not is_set:
                continue
            n_sets += 1
            # climb through list()/tuple() wrappers to the variable it is bound to
            cur = n
            par = getattr(cur, "_parent", None)
            while isinstance(par, ast.Call) and isinstance(par.func, ast.Name) and par.func.id in ("list", "tuple"):
                cur, par = par, getattr(par, "_parent", None)
            if isinstance(par, ast.Call) and isinstance(par.func, ast.Name) and par.func.id in ("sorted", "len", "max", "min", "sum"):
                ctx.node_ok("R4", f, n, "set consumed by %s()" % par.func.id)
                continue
            if isinstance(par, ast.Compare):
                ctx.node_ok("R4", f, n, "set used in a comparison/membership test")
                continue
            if isinstance(par, ast.Attribute) and par.value is cur and par.attr in ORDER_FREE_SET_METHODS and isinstance(
                    getattr(par, "_parent", None), ast.Call):
                ctx.node_ok("R4", f, n, "set used through the order-independent method .%s()" % par.attr)
                continue
            if isinstance(par, (ast.BinOp, ast.BoolOp, ast.UnaryOp, ast.If, ast.IfExp, ast.While)) and not isinstance(
                    getattr(par, "op", None), (ast.Add, ast.Mult, ast.Mod)):
                # set algebra / truthiness: still a set (or a boolean); judged where the result is used
                gp = getattr(par, "_parent", None)
                if isinstance(par, (ast.If, ast.IfExp, ast.While, ast.BoolOp, ast.UnaryOp)) or isinstance(gp, (ast.If, ast.IfExp, ast.While, ast.Compare)):
                    ctx.node_ok("R4", f, n, "set used for its truth value / in set algebra under a test")
                    continue
            if not (isinstance(par, ast.Assign) and isinstance(par.targets[0], ast.Name)):
                ctx.node_bad("R4", f, n, "a set-ordered value is used directly in report construction: `%s`" % U(par)[:100])
                continue
            var = par.targets[0].id
            bad_uses = []
            flow = C.flow_of(f)
            for u in ast.walk(f.node):
                if isinstance(u, ast.Name) and u.id == var and isinstance(u.ctx, ast.Load):
                    try:
                        if not any(d.stmt is par for d in flow.reaching(u, var)):
                            continue  # another definition of the same name
                    except KeyError:
                        pass
                    up = getattr(u, "_parent", None)
                    if isinstance(up, ast.Compare) and u in up.comparators:
                        continue
                    if isinstance(up, ast.Call) and isinstance(up.func, ast.Name) and up.func.id in ("sorted", "len", "set"):
                        continue
                    if isinstance(up, ast.Attribute) and up.value is u and up.attr in ORDER_FREE_SET_METHODS and isinstance(
                            getattr(up, "_parent", None), ast.Call):
                        continue
                    if isinstance(up, (ast.If, ast.IfExp, ast.While, ast.UnaryOp, ast.BoolOp)):
                        continue        # truth value only
                    if isinstance(up, ast.Call) and u in up.args:
                        # passed on: the callee must use the parameter for membership only
                        cn = pm.call_name(up).split(".")[-1]
                        g = ctx.repo.funcs.get("Frontend." + cn)
                        if g is not None:
                            off = 1
                            idx = up.args.index(u) + off
                            prm = g.params()[idx] if idx < len(g.params()) else None
                            ok = prm is not None and all(
                                isinstance(getattr(x, "_parent", None), ast.Compare) and x in getattr(x, "_parent").comparators
                                for x in ast.walk(g.node) if isinstance(x, ast.Name) and x.id == prm and isinstance(x.ctx, ast.Load))
                            if ok:
                                continue
                    bad_uses.append(u)
            if bad_uses:
                ctx.node_bad("R4", f, n, "`%s` is set-ordered and is iterated / indexed / formatted at %s: the report "
                             "text would depend on hash order" % (var, [f.where(b) for b in bad_uses][:3]))
            else:
                ctx.node_ok("R4", f, n, "`%s` (set-ordered) is only tested for membership" % var)
    ctx.floor("R4", "set constructions in report code", n_sets, 1)


ORDER_FREE_SET_METHODS = {"issubset", "issuperset", "isdisjoint", "__contains__", "add", "discard", "update", "copy"}


def _set_ordered(e):
    """Does expression `e` produce a sequence whose order is the iteration order of a set (not passed through sorted)?"""
    if isinstance(e, ast.Call) and isinstance(e.func, ast.Name) and e.func.id in ("list", "tuple") and len(e.args) == 1:
        a = e.args[0]
        if isinstance(a, (ast.Set, ast.SetComp)):
            return True
        if isinstance(a, ast.Call) and isinstance(a.func, ast.Name) and a.func.id in ("set", "frozenset"):
            return True
        if isinstance(a, ast.Call) and isinstance(a.func, ast.Attribute) and a.func.attr in (
                "intersection", "union", "difference", "symmetric_difference"):
            return True
        if isinstance(a, ast.BinOp) and isinstance(a.op, (ast.BitAnd, ast.BitOr, ast.Sub, ast.BitXor)) and (
                _set_ordered(ast.Call(func=ast.Name(id="list"), args=[a.left], keywords=[]))
                or _set_ordered(ast.Call(func=ast.Name(id="list"), args=[a.right], keywords=[]))):
            return True
    if isinstance(e, (ast.ListComp, ast.GeneratorExp)) and e.generators:
        it = e.generators[0].iter
        if isinstance(it, (ast.Set, ast.SetComp)) or (isinstance(it, ast.Call) and isinstance(it.func, ast.Name)
                                                      and it.func.id in ("set", "frozenset")):
            return True
    return False


def _r5(ctx):
    """The machine-readable output serialises attributes of the instruction forms; a list whose order is the iteration order
    of a set of strings differs from process to process (hash randomisation)."""
    ctx.rule("R5", "no set-ordered sequence is stored into a field that the machine-readable output serialises")
    fd = ctx.func("Frontend.full_analysis_dict")
    comps = [g for g in ast.walk(fd.node) if isinstance(g, ast.comprehension) and U(g.iter) == fd.params()[1]]
    if not comps:
        ctx.unknown("R5", "serialised fields", fd.where(), "the per-line comprehension over the kernel was not found in full_analysis_dict")
        return
    fields = sorted({n.attr for g in comps for n in ast.walk(fd.node) if isinstance(n, ast.Attribute) and U(n.value) == U(g.target)})
    ctx.floor("R5", "instruction-form fields serialised by full_analysis_dict", len(fields), 5)
    n_stores = 0
    for f in ctx.repo.all_funcs():
        if f.file.startswith("osaca/data/"):
            continue
        flow = None
        for n in ast.walk(f.node):
            tgts = n.targets if isinstance(n, ast.Assign) else [n.target] if isinstance(n, ast.AugAssign) else []
            for t in tgts:
                if not (isinstance(t, ast.Attribute) and t.attr.lstrip("_") in fields):
                    continue
                n_stores += 1
                flow = flow or C.flow_of(f)
                vals = [n.value]
                try:
                    vals += [x for x in flow.expand(n.value, 4) if isinstance(x, ast.AST)]
                except Exception:
                    pass
                bad = [v for v in vals for x in ast.walk(v) if _set_ordered(x)]
                if bad:
                    ctx.touch(f)
                    ctx.node_bad("R5", f, n, "`%s` stores a sequence in set iteration order (`%s`) into the field '%s', which "
                                 "full_analysis_dict writes to the YAML output: for string elements that order changes with the "
                                 "interpreter's hash seed, so two runs of the same command differ" % (U(n)[:80], U(bad[0])[:60], t.attr))
    ctx.ok("R5", "%d stores into the %d serialised fields examined: %s" % (n_stores, len(fields), fields), fd.where())


def run(ctx):
    C.require_locals(ctx, ctx.func('KernelDG.check_for_loopcarried_dep'), ['dg', 'offset'])
    f = ctx.func(FN)
    _r1(ctx, f)
    _r2(ctx, f)
    _r3(ctx, f)
    _r4(ctx)
    _r5(ctx)
    procs = [c for c in ast.walk(f.node) if isinstance(c, ast.Call) and pm.call_name(c).endswith("Process")]
    if len(procs) == 1:
        _worker_early_exit(ctx, f, procs[0])
