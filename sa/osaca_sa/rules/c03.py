"""C03 - register dependency graph is exactly the read-after-write relation."""
import ast
import json

from .. import pm
from ..pm import U
from ..report import VERIF
from ..yamldata import entry_names, sig_of_entry
from . import common as C

TECHNIQUE = "static analysis: affine slice check (forward only), CFG ordering use-before-kill with loop exit, parameter-threading over the resolved call path, role/part table extraction compared with spec/roles.json, truth-table of the (source,destination)->role classifiers, slice partition of the default roles, writer/reader key agreement of the edge attribute, ISA data lint"
EXPLANATION = (
    "R1: the candidate list handed to find_depending is kernel[i+1:] for the enumerate index i (edges point forward, also in the doubled kernel). R2: in the scan loop, for register and flag destinations the read test/yield precedes the overwrite test, whose true path leaves the loop. R3: every yield/break of the flag branch is dominated by the flag_dependencies parameter and that parameter is passed on unchanged at every call site along inspect -> KernelDG -> create_DG / check_for_loopcarried_dep -> find_depending. R4: roles and operand parts consulted by is_read / is_written equal spec/roles.json. R5: (source, destination) -> role is (T,T)->src_dst, (T,F)->source, (F,T)->destination in the explicit operand loop and both hidden-operand classifiers (4-row truth tables of the extracted conditions). R6: default roles partition the operand list (x86: last is destination; AArch64: first; single operand: source only). R7: the edge attribute written by add_edge is the one every consumer reads; ordinary weight from latency_wo_load (fallback latency), write-back weight from the model's p_index_latency; edges run producer -> consumer. R8: the dependency-breaking branch puts all operands and hidden operands into destination only, under the DB flag and all-operands-equal. D1: ISA data roles are boolean, immediates/identifiers/conditions never destinations, hidden operands are flag/register/memory and never memory on AArch64. R9: the ISA-entry look-up that decides the roles is followed on its miss path by both suffix fall-backs with the same operand list in every slot (shared with C07-R4). R10: the parsers' alias predicates (is_reg_dependend_of of both ISAs) that is_read / is_written consult satisfy the obligations of C12 (architectural alias partition, every `return True` under a same-family condition whose families exist): otherwise registers without a family - condition flags, rip, segment registers - alias each other and spurious edges appear under --consider-flag-deps."
)
NOT_DECIDED = "Equality with an independently computed RAW relation on generated programs (behavioural)."
ASSUMPTIONS = [
    "register aliasing is decided by is_reg_dependend_of (property C12)",
    "the curated read-modify-write list of spec/roles.json is advisory only (NOTE lines)",
]


def _spec():
    return json.loads((VERIF / "spec" / "roles.json").read_text())


def _r1(ctx):
    ctx.rule("R1", "dependencies are searched strictly after the producer (kernel[i+1:])")
    f = ctx.func("KernelDG.create_DG")
    kern = f.params()[1]
    calls = C.calls_to(f.node, "find_depending")
    ctx.floor("R1", "find_depending call sites in create_DG", len(calls), 1)
    for c in calls:
        loop = C.enclosing_loop(c)
        if isinstance(loop, ast.For) and C.in_subtree(c, loop.iter):
            loop = C.enclosing_loop(loop)  # the call is the iterable of the dependency loop
        ok = False
        detail = "candidate list %s" % U(c.args[1])
        if isinstance(loop, ast.For) and C.is_call_to(loop.iter, "enumerate") and U(loop.iter.args[0]) == kern \
                and isinstance(loop.target, ast.Tuple):
            idx, elem = U(loop.target.elts[0]), U(loop.target.elts[1])
            sl = c.args[1]
            if isinstance(sl, ast.Subscript) and U(sl.value) == kern and isinstance(sl.slice, ast.Slice) \
                    and sl.slice.upper is None and sl.slice.step is None and sl.slice.lower is not None:
                aff = C.affine(sl.slice.lower)
                start = C.arg_of(loop.iter, 1, "start")
                s0 = 0 if start is None else C.const_num(start)
                # position of the producer in the list = idx - start; the candidates must begin at position + 1
                ok = s0 is not None and aff == {idx: 1, 1: 1 - s0} and U(c.args[0]) == elem
                detail = "slice lower bound %s for producer index %s (enumerate start %s)" % (U(sl.slice.lower), idx, s0)
        if ok:
            ctx.node_ok("R1", f, c, "find_depending(%s, %s[%s+1:], ...)" % (elem, kern, idx))
        else:
            ctx.node_bad("R1", f, c, "the instructions scanned for dependants are not exactly those after the "
                         "producer (%s): an instruction could depend on itself or on an earlier line, or the next "
                         "line is skipped" % detail)


def _scan_loop(ctx, fd):
    loops = [n for n in ast.walk(fd.node) if isinstance(n, ast.For) and C.calls_to(n, "is_read")
             and not any(isinstance(x, ast.For) and x is not n and C.calls_to(x, "is_read") for x in ast.walk(n))]
    if len(loops) != 1:
        ctx.broken("R2: scan loop of find_depending not found")
    return loops[0]


def _r2_r3(ctx):
    ctx.rule("R2", "use before kill: read test/yield precedes the overwrite test, which leaves the scan")
    ctx.rule("R3", "flag dependencies only on request; the request is threaded unchanged")
    fd = ctx.func("KernelDG.find_depending")
    cfg = C.cfg_of(fd)
    loop = _scan_loop(ctx, fd)
    flagp = fd.params()[3] if len(fd.params()) > 3 else None
    # the per-class branches, wherever they sit (separate ifs, an if/elif chain, ...): only their own body counts
    branches = [n for n in ast.walk(loop) if isinstance(n, ast.If) and "isinstance(dst, " in U(n.test)]
    seen = set()
    for br in branches:
        t = U(br.test)
        cls = None
        for c in ("RegisterOperand", "FlagOperand"):
            if "isinstance(dst, %s)" % c in t:
                cls = c
        if cls is None:
            continue
        seen.add(cls)
        reads = [n for s in br.body for n in ast.walk(s) if isinstance(n, ast.If) and C.is_call_to(n.test, "is_read")]
        writes = [n for s in br.body for n in ast.walk(s) if isinstance(n, ast.If) and C.is_call_to(n.test, "is_written")]
        if len(reads) != 1 or len(writes) != 1:
            ctx.node_bad("R2", fd, br, "the %s branch needs one read test and one overwrite test (found %d/%d)" % (
                cls, len(reads), len(writes)))
            continue
        r, w = reads[0], writes[0]
        y = [x for x in ast.walk(r) if isinstance(x, ast.Yield)]
        ctx.check(bool(y) and all(U(x.value.elts[0]) == U(r.test.args[1]) for x in y if isinstance(x.value, ast.Tuple)),
                  "R2", "%s: a reader is yielded" % cls, fd.where(r), "a reading instruction is not yielded", fd.qname,
                  "%s read yield" % cls)
        ctx.check(cfg.dominates(r, w) and r is not w and not C.in_subtree(w, r), "R2",
                  "%s: read test precedes the overwrite test" % cls, fd.where(w),
                  "the overwrite test comes before (or inside) the read test: an instruction that reads and "
                  "overwrites the register (e.g. add %%r, %%r) would end the scan without being linked", fd.qname,
                  "%s order read/write" % cls)
        brk = any(isinstance(s, ast.Break) for s in w.body)
        ctx.check(brk and cfg.exits_loop_on_all_paths(w.body[0], loop), "R2", "%s: overwrite ends the scan" % cls,
                  fd.where(w), "an overwrite of the %s does not end the scan: later readers would be linked to a dead "
                  "value" % ("register" if cls == "RegisterOperand" else "flag"), fd.qname, "%s kill" % cls)
        for n, nm in ((r, "is_read"), (w, "is_written")):
            a = [U(x) for x in n.test.args]
            ctx.check(a == ["dst", U(loop.target.elts[1]) if isinstance(loop.target, ast.Tuple) else U(loop.target)],
                      "R2", "%s: %s(destination, scanned instruction)" % (cls, nm), fd.where(n),
                      "%s is called with %s" % (nm, a), fd.qname, "%s %s args" % (cls, nm))
        if cls == "FlagOperand":
            ok = flagp is not None and ("and %s" % flagp in t or "%s and" % flagp in t) and isinstance(br.test, ast.BoolOp) \
                and isinstance(br.test.op, ast.And)
            if not ok and flagp is not None:
                # the request tested inside the branch: every read/overwrite test must sit under it
                ok = all(any(p and U(e) == flagp for e, p in C.facts_at(n, stop=br)) for n in (r, w))
            ctx.check(ok, "R3", "flag branch is guarded by the flag_dependencies parameter", fd.where(br),
                      "flag reads/overwrites are considered without the flag-dependency request (test: %s)" % t,
                      fd.qname, "flag branch guard")
    for cls in ("RegisterOperand", "FlagOperand"):
        ctx.check(cls in seen, "R2", "scan has a %s branch" % cls, fd.where(loop), "no branch for %s destinations" % cls,
                  fd.qname, "%s branch" % cls)
    # every written operand is scanned: no iteration of the producer's operand loop returns to its head without the scan
    outer0 = [l for l in C.enclosing_loops(loop) if isinstance(l, ast.For)]
    if outer0:
        ol = outer0[0]
        skip = cfg.reachable(ol, ol, avoid=[loop], within=ol)
        skips = [x for x in ast.walk(ol) if isinstance(x, ast.Continue) and C.enclosing_loop(x) is ol]
        # a skip taken only for an operand whose full register identity (prefix and name) was recorded by an earlier, scanned
        # iteration is a de-duplication of repeats; whether the repeat's scan would have produced anything new depends on
        # what else the scan reads of the operand (write-back flags) - not decided here
        fl_ = C.flow_of(fd)
        def _repeat_only(x):
            nf = C.norm_fact_nodes(x, stop=ol)
            memb = [(e, p) for e, p in nf if isinstance(e, ast.Compare) and isinstance(e.ops[0], ast.In)]
            if not memb or not all(p for _, p in memb):
                return False
            is_reg = any(p and C.is_call_to(e, "isinstance") and U(e.args[1]) == "RegisterOperand" and U(e.args[0]) == U(ol.target)
                         for e, p in nf)
            for e, _ in memb:
                key = U(fl_.subst(e.left))
                attrs = {a.attr for a in ast.walk(fl_.subst(e.left)) if isinstance(a, ast.Attribute) and U(a.value) == U(ol.target)}
                sname = U(e.comparators[0])
                adds = [c for c in ast.walk(ol) if isinstance(c, ast.Call) and isinstance(c.func, ast.Attribute)
                        and U(c.func.value) == sname and c.func.attr in ("add", "update", "discard", "remove", "pop")]
                good_adds = adds and all(c.func.attr == "add" and len(c.args) == 1 and U(fl_.subst(c.args[0])) == key
                                         and not cfg.reachable(cfg.node_of(c), ol, avoid=[loop], within=ol) for c in adds)
                if not (is_reg and {"prefix", "name"} <= attrs and good_adds):
                    return False
            return True
        if skip and skips and all(_repeat_only(x) for x in skips) and not cfg.reachable(
                ol, ol, avoid=[loop] + [cfg.node_of(x) for x in skips], within=ol):
            ctx.unknown("R2", "every written operand of the producer is scanned for readers", fd.where(skips[0]),
                        "the scan is left out for a register operand whose (prefix, name) was already scanned in this call; that "
                        "is safe only if the scan reads nothing else of the operand (write-back flags) - not decided")
            skip = False
        else:
            ctx.check(not skip, "R2", "every written operand of the producer is scanned for readers", fd.where(skips[0]) if skips else fd.where(ol),
                      "an iteration over the producer's written operands can skip the scan of the following instructions (guards: %s): "
                      "readers of that operand get no edge - e.g. registers that agree in `name` but not in `prefix` (AArch64 q0 / x0) are "
                      "different registers" % [[("" if p else "not ") + U(e) for e, p in C.facts_at(x, stop=ol)] for x in skips][:2],
                      fd.qname, "every written operand scanned")
    # destinations scanned: destination + src_dst
    outer = [l for l in C.enclosing_loops(loop) if isinstance(l, ast.For)]
    roles = sorted(C.str_consts(C.flow_of(fd).subst(outer[-1].iter))) if outer else []
    ctx.check(roles == ["destination", "src_dst"], "R2", "producers' written operands = destination + src_dst", fd.where(),
              "find_depending starts from the roles %s" % roles, fd.qname, "producer roles")
    flag_threading(ctx, "R3")


def flag_threading(ctx, rule="R3"):
    """The flag-dependency request reaches every graph construction unchanged (shared with C04: the critical path is
    searched in the graph built by KernelDG.__init__)."""
    # ---- threading
    chain = [("osaca.inspect", "KernelDG", "KernelDG.__init__"), ("KernelDG.__init__", "create_DG", "KernelDG.create_DG"),
             ("KernelDG.__init__", "check_for_loopcarried_dep", "KernelDG.check_for_loopcarried_dep"),
             ("KernelDG.check_for_loopcarried_dep", "create_DG", "KernelDG.create_DG"),
             ("KernelDG.create_DG", "find_depending", "KernelDG.find_depending")]
    for caller_q, callee_name, callee_q in chain:
        caller = ctx.func(caller_q)
        callee = ctx.func(callee_q)
        pi = C.param_index(callee, "flag_dependencies")
        if pi is None:
            ctx.bad(rule, "%s has a flag_dependencies parameter" % callee_q, callee.where(),
                    "%s lost its flag_dependencies parameter" % callee_q, callee_q, "parameter")
            continue
        calls = [c for c in ast.walk(caller.node) if isinstance(c, ast.Call) and pm.call_name(c).split(".")[-1] == callee_name]
        if not calls:
            ctx.bad(rule, "%s calls %s" % (caller_q, callee_name), caller.where(), "call not found", caller_q,
                    "call %s" % callee_name)
            continue
        for c in calls:
            a = C.arg_of(c, pi, "flag_dependencies")
            if caller_q == "osaca.inspect":
                ok = a is not None and U(a) == "args.consider_flag_deps"
                want = "args.consider_flag_deps"
            else:
                ok = a is not None and U(a) == "flag_dependencies"
                want = "its own flag_dependencies"
                if a is None:
                    # not passed: the callee may fall back to an attribute of the object, which then must have been set
                    # from the caller's own parameter before the call
                    def fallback_attr(fn_, depth=0):
                        for st_ in ast.walk(fn_.node):
                            if isinstance(st_, ast.Assign) and U(st_.targets[0]) == "flag_dependencies" and C.holds_at(st_, "flag_dependencies is None"):
                                m_ = pm.match("getattr(self, M_a, M_d)", st_.value) or pm.match("getattr(self, M_a)", st_.value)
                                if m_ is not None and isinstance(m_["M_a"], ast.Constant):
                                    return m_["M_a"].value
                                if isinstance(st_.value, ast.Attribute) and U(st_.value.value) == "self":
                                    return st_.value.attr
                        if depth < 2 and not any(isinstance(x, (ast.Assign, ast.AugAssign)) and U(
                                x.targets[0] if isinstance(x, ast.Assign) else x.target) == "flag_dependencies" for x in ast.walk(fn_.node)):
                            # the parameter is handed on untouched (None included) to a function that has the fall-back
                            for c2 in ast.walk(fn_.node):
                                if isinstance(c2, ast.Call) and isinstance(c2.func, ast.Attribute) and U(c2.func.value) == "self" \
                                        and any(U(x) == "flag_dependencies" for x in list(c2.args) + [k.value for k in c2.keywords]):
                                    g_ = ctx.repo.funcs.get("KernelDG." + c2.func.attr)
                                    if g_ is not None and "flag_dependencies" in g_.params():
                                        a_ = fallback_attr(g_, depth + 1)
                                        if a_ is not None:
                                            return a_
                        return None
                    attr = fallback_attr(callee)
                    dflt = callee.node.args.defaults
                    pidx = [x.arg for x in callee.node.args.args].index("flag_dependencies")
                    dnode = dflt[pidx - (len(callee.node.args.args) - len(dflt))] if pidx >= len(callee.node.args.args) - len(dflt) else None
                    if attr is not None and isinstance(dnode, ast.Constant) and dnode.value is None:
                        ccfg = C.cfg_of(caller)
                        sets = [x for x in ast.walk(caller.node) if isinstance(x, ast.Assign) and U(x.targets[0]) == "self." + attr
                                and U(x.value) == "flag_dependencies"]
                        ok = any(ccfg.dominates(x, ccfg.node_of(c)) for x in sets)
                        want = "its own flag_dependencies (directly, or through self.%s set before the call)" % attr
            if ok:
                ctx.node_ok(rule, caller, c, "%s -> %s passes %s" % (caller_q, callee_name, want))
            else:
                ctx.node_bad(rule, caller, c, "%s does not pass %s to %s (got %s): the request for flag dependencies "
                             "is lost or forced on this path" % (caller_q, want, callee_q, U(a) if a is not None else "nothing"))
    cp = ctx.func("osaca.create_parser")
    opt = [c for c in ast.walk(cp.node) if isinstance(c, ast.Call) and c.args and isinstance(c.args[0], ast.Constant)
           and c.args[0].value == "--consider-flag-deps"]
    kw = {k.arg: U(k.value) for k in opt[0].keywords} if opt else {}
    ctx.check(kw.get("dest") == "'consider_flag_deps'" and kw.get("action") == "'store_true'" and kw.get("default", "False") == "False",
              rule, "--consider-flag-deps is an opt-in switch", cp.where(), "option definition changed: %s" % kw, cp.qname,
              "cli flag option")


def _role_triples(ctx, f, writeback):
    """Extract (roles, class, part) triples consulted by a read/write predicate."""
    reg = f.params()[1]
    out = set()
    for loop in [n for n in ast.walk(f.node) if isinstance(n, ast.For) and C.is_call_to(n.iter, "chain")]:
        roles = tuple(sorted(C.str_consts(loop.iter)))
        var = U(loop.target)
        for c in C.calls_to(loop, "is_reg_dependend_of", "is_flag_dependend_of"):
            if len(c.args) < 2 or U(c.args[0]) != reg:
                continue
            # the operand class under which the call is made: the positive isinstance facts on the loop variable
            allf = C.facts_at(c, stop=loop)
            clss = []
            for e, p in allf:
                m = pm.match("isinstance(%s, M_cls)" % var, e)
                if m is not None and p:
                    clss.append(U(m["M_cls"]))
            if len(clss) != 1:
                continue
            cls = clss[0]
            tgt = U(c.args[1])
            part = "self" if tgt == var else tgt.replace(var + ".", "")
            if writeback:
                facts = [U(e) for e, p in allf if p]
                wb = any(C.CT("%s.pre_indexed or %s.post_indexed" % (var, var)) == x for x in facts)
                if part != "self":
                    part = part + ("@writeback" if wb else "@always")
            out.add((roles, cls, part))
    return out


def _r4(ctx):
    ctx.rule("R4", "roles and operand parts consulted by is_read / is_written = spec/roles.json")
    spec = _spec()
    for name, wb in (("is_read", False), ("is_written", True)):
        f = ctx.func("KernelDG." + name)
        got = _role_triples(ctx, f, wb)
        want = {(tuple(sorted(r)), c, p) for r, c, p in spec[name]}
        for t in sorted(want):
            ctx.check(t in got, "R4", "%s consults %s of %s operands in %s" % (name, t[2], t[1], "+".join(t[0])), f.where(),
                      "%s no longer consults the %s of %s operands in the roles %s: such a %s is missed" % (
                          name, t[2], t[1], list(t[0]), "read" if name == "is_read" else "write"), f.qname,
                      "%s %s %s %s" % (name, "+".join(t[0]), t[1], t[2]))
        for t in sorted(got - want):
            ctx.bad("R4", "%s extra: %s" % (name, t), f.where(), "%s additionally treats the %s of %s operands in %s as "
                    "%s" % (name, t[2], t[1], list(t[0]), "read" if name == "is_read" else "written"), f.qname,
                    "%s extra %s %s %s" % (name, "+".join(t[0]), t[1], t[2]))
        # result is the disjunction of all hits
        rets = [r for r in ast.walk(f.node) if isinstance(r, ast.Return) and isinstance(r.value, ast.Name)]
        acc = pm.find("M_r = M_c or M_r", f.node) + pm.find("M_r = M_r or M_c", f.node)
        # (intermediate accumulators - per operand, from a helper expanded in place - are followed below; the result is the
        # one that is returned)
        acc = [(n_, b_) for n_, b_ in acc if any(U(r.value) == U(b_["M_r"]) for r in rets)] or acc
        ok = bool(acc) and all(U(b["M_r"]) == U(acc[0][1]["M_r"]) for _, b in acc) and any(
            U(r.value) == U(acc[0][1]["M_r"]) for r in rets)
        inits = [a for a in C.assigns_to(f.node, U(acc[0][1]["M_r"])) if U(a.value) == "False"] if acc else []
        ctx.check(ok and bool(inits), "R4", "%s = disjunction of all hits, initially False" % name, f.where(),
                  "%s does not accumulate its hits with `or` starting from False" % name, f.qname, "%s accumulation" % name)
        # every consulted part contributes on its own: the dependence test of one part of an operand is not made
        # conditional on ANOTHER part of the same operand being present, and its value flows into the accumulated result
        res = U(acc[0][1]["M_r"]) if acc else None
        n_calls = 0
        for loop in [n for n in ast.walk(f.node) if isinstance(n, ast.For) and C.is_call_to(n.iter, "chain")]:
            var = U(loop.target)
            for c in C.calls_to(loop, "is_reg_dependend_of", "is_flag_dependend_of"):
                if len(c.args) < 2 or U(c.args[0]) != f.params()[1]:
                    continue
                n_calls += 1
                tgt = U(c.args[1])
                part = tgt.replace(var + ".", "") if tgt != var else "self"
                foreign = []
                for e, pol in C.facts_at(c, stop=loop):
                    if any(isinstance(x, ast.Call) and pm.call_name(x).split(".")[-1] in ("is_reg_dependend_of", "is_flag_dependend_of")
                           for x in ast.walk(e)):
                        continue        # "only if an earlier part did not hit": the result is a disjunction anyway
                    others = {U(x) for x in ast.walk(e) if isinstance(x, ast.Attribute) and U(x.value) == var and U(x) != tgt
                              and x.attr in ("base", "index", "offset")}
                    if others:
                        foreign.append((U(e), pol, sorted(others)))
                # the call's value reaches `<result> = ... or <result>`
                st = c
                while st is not None and not isinstance(st, ast.stmt):
                    st = C.parent(st)
                def flows_to_result(tname, seen_=()):
                    """the local `tname` is or-ed (or copied) into the result, directly or through other locals"""
                    if tname == res:
                        return True
                    for a_ in ast.walk(f.node):
                        if isinstance(a_, ast.Assign) and isinstance(a_.targets[0], ast.Name) and a_.targets[0].id not in seen_:
                            v_ = a_.value
                            ops_ = v_.values if isinstance(v_, ast.BoolOp) and isinstance(v_.op, ast.Or) else [v_]
                            if any(isinstance(o_, ast.Name) and o_.id == tname for o_ in ops_) and a_.targets[0].id != tname:
                                if flows_to_result(a_.targets[0].id, tuple(seen_) + (tname,)):
                                    return True
                    return False
                own = isinstance(st, ast.Assign) and isinstance(st.targets[0], ast.Name) and st.targets[0].id != res and (
                    st.value is c or (isinstance(st.value, ast.BoolOp) and isinstance(st.value.op, ast.Or) and any(v_ is c for v_ in st.value.values)))
                flows = (isinstance(st, ast.Assign) and U(st.targets[0]) == res and res in [U(x) for x in ast.walk(st.value) if isinstance(x, ast.Name)]) \
                    or (own and flows_to_result(st.targets[0].id))
                if foreign:
                    ctx.bad("R4", "%s: %s of %s consulted independently" % (name, part, var), f.where(c),
                            "the %s of `%s` is tested for a dependence only under `%s%s`, a condition on ANOTHER part of the operand (%s): "
                            "an operand that has the one but not the other - x86 `disp(,%%index,scale)` has an index and no base - is "
                            "then not seen as a %s of its %s register and the edge from that register's last writer disappears"
                            % (part, var, "" if foreign[0][1] else "not ", foreign[0][0], ", ".join(foreign[0][2]),
                               "read" if name == "is_read" else "write", part), f.qname, "%s %s independent" % (name, tgt))
                else:
                    ctx.judge(flows, flows or isinstance(st, ast.Assign), "R4", "%s: %s of %s consulted independently and accumulated" % (name, part, var),
                              f.where(c), "the dependence test on %s is not or-ed into %s" % (tgt, res), f.qname, "%s %s accumulated" % (name, tgt))
        ctx.floor("R4", "%s: dependence tests on operand parts" % name, n_calls, 4)


def _eval_bool(expr, env):
    """Evaluate a boolean condition over the atoms in env (texts ending in source/destination)."""
    if isinstance(expr, ast.BoolOp):
        vals = [_eval_bool(v, env) for v in expr.values]
        return all(vals) if isinstance(expr.op, ast.And) else any(vals)
    if isinstance(expr, ast.UnaryOp) and isinstance(expr.op, ast.Not):
        return not _eval_bool(expr.operand, env)
    t = U(expr)
    for k, v in env.items():
        if t.endswith("." + k) or t.endswith("['%s']" % k):
            return v
    raise ValueError("condition %s is not over source/destination" % t)


def _eval_ifexp(expr, env):
    if isinstance(expr, ast.IfExp):
        return _eval_ifexp(expr.body, env) if _eval_bool(expr.test, env) else _eval_ifexp(expr.orelse, env)
    if isinstance(expr, ast.Constant):
        return expr.value
    raise ValueError("not a role constant: %s" % U(expr))


def _r5(ctx):
    ctx.rule("R5", "(source, destination) -> role classification (truth tables of the extracted conditions)")
    spec = _spec()["classification"]
    f = ctx.func("ISASemantics._apply_found_ISA_data")
    combos = {"TT": (True, True), "TF": (True, False), "FT": (False, True)}
    # explicit operands loop
    loops = [n for n in ast.walk(f.node) if isinstance(n, ast.For) and C.is_call_to(n.iter, "enumerate")
             and U(n.iter.args[0]).endswith(".operands")]
    if len(loops) != 1:
        ctx.broken("R5: explicit-operand loop not found")
    loop = loops[0]
    idx, op = U(loop.target.elts[0]), U(loop.target.elts[1])
    for key, (s, d) in combos.items():
        env = {"source": s, "destination": d}
        role = None
        try:
            work = list(loop.body)
            while work:
                st = work.pop(0)
                if isinstance(st, ast.If):
                    if _eval_bool(st.test, env):
                        apps = [x for s2 in st.body for x in pm.find("M_d[M_k].append(M_v)", s2)]
                        if apps:
                            role = C.literal(apps[0][1]["M_k"])
                            ok_elem = U(apps[0][1]["M_v"]) == "%s[%s]" % (f.params()[2], idx)
                            ctx.check(ok_elem, "R5", "explicit operand i is filed (not another one)", f.where(st),
                                      "the operand filed for entry operand i is %s" % U(apps[0][1]["M_v"]), f.qname,
                                      "explicit operand index %s" % key)
                        if any(isinstance(x, (ast.Continue, ast.Break)) for x in st.body):
                            break
                        if st.orelse:
                            break       # an if/elif chain: the first true arm is the only one taken
                    else:
                        work = list(st.orelse) + work
        except ValueError as e:
            ctx.broken("R5: %s" % e)
        ctx.check(role == spec[key], "R5", "explicit operand %s -> %s" % (key, spec[key]), f.where(loop),
                  "an operand with (source, destination) = %s is filed under %r instead of %r" % ((s, d), role, spec[key]),
                  f.qname, "explicit classification %s" % key)
    # hidden operand classifiers
    cls = [a for a in ast.walk(f.node) if isinstance(a, ast.Assign) and isinstance(a.value, ast.IfExp)
           and isinstance(a.targets[0], ast.Name)]
    def leaves(v):
        """the (source, destination) classifiers below a representation switch `X if isinstance(op, Operand) else Y`"""
        if isinstance(v, ast.IfExp) and "isinstance(" in U(v.test):
            return leaves(v.body) + leaves(v.orelse)
        return [v] if isinstance(v, ast.IfExp) else []
    pairs = [(a, v) for a in cls for v in leaves(a.value)]
    ctx.floor("R5", "hidden-operand classifiers", len(pairs), 2)
    for a, v in pairs:
        for key, (s, d) in combos.items():
            try:
                role = _eval_ifexp(v, {"source": s, "destination": d})
            except ValueError as e:
                ctx.broken("R5: %s" % e)
            ctx.check(role == spec[key], "R5", "hidden operand %s -> %s (%s form)" % (
                key, spec[key], "object" if "." in U(v.test) else "dict"), f.where(a),
                "a hidden operand with (source, destination) = %s is filed under %r instead of %r" % ((s, d), role, spec[key]),
                f.qname, "hidden classification %s %s" % (key, U(v.test)[:30]))
    for a in cls:
        var = a.targets[0].id
        use = pm.find("M_d[%s].append(M_o)" % var, f.node)
        ctx.check(bool(use), "R5", "the classified hidden operand is appended under that role", f.where(a),
                  "classification result is not used as the role key", f.qname, "hidden key use")


def _r6(ctx):
    ctx.rule("R6", "default roles: destination = last (x86) / first (AArch64); the slices partition the operands")
    src = ctx.func("ISASemantics._get_regular_source_operands")
    dst = ctx.func("ISASemantics._get_regular_destination_operands")

    def by_isa(f):
        """{case: returned expression}: the return statement that executes where the case's condition holds (if / elif
        branch or after guard clauses - facts, not syntax)"""
        out = {}
        for r_ in [x for x in ast.walk(f.node) if isinstance(x, ast.Return) and x.value is not None]:
            facts = C.norm_facts(r_)
            pos = [t for t, p_ in facts if p_]
            key = None
            if any("len(" in t and "== 1" in t for t in pos):
                key = "single"
            elif any("'x86'" in t and "==" in t for t in pos):
                key = "x86"
            elif any("'aarch64'" in t and "==" in t for t in pos):
                key = "aarch64"
            if key:
                out.setdefault(key, C.flow_of(f).subst(r_.value))
        return out

    s, d = by_isa(src), by_isa(dst)
    ops = "instruction_form.operands"

    def slice_of(e):
        """(lower, upper) of a slice / comprehension over a slice of the operand list; None if not a slice."""
        if isinstance(e, ast.ListComp) and len(e.generators) == 1 and U(e.elt) == U(e.generators[0].target) and not e.generators[0].ifs:
            e = e.generators[0].iter
        if isinstance(e, ast.Call) and isinstance(e.func, ast.Name) and e.func.id == "list" and len(e.args) == 1 and not e.keywords:
            e = e.args[0]           # list(<slice>) is the same fresh list as the identity comprehension
        if isinstance(e, ast.Subscript) and U(e.value) == ops and isinstance(e.slice, ast.Slice):
            lo = C.const_num(e.slice.lower) if e.slice.lower is not None else 0
            hi = C.const_num(e.slice.upper) if e.slice.upper is not None else None
            return (lo if lo is not None else "?", hi if e.slice.upper is None or hi is not None else "?")
        if isinstance(e, ast.List) and len(e.elts) == 1 and U(e.elts[0]) == ops + "[0]":
            return (0, 1)
        if isinstance(e, ast.List) and not e.elts:
            return "empty"
        return None

    want = {"x86": ((0, -1), (-1, None)), "aarch64": ((1, None), (0, 1))}
    for isa, (ws, wd) in want.items():
        gs, gd = slice_of(s.get(isa)) if isa in s else None, slice_of(d.get(isa)) if isa in d else None
        ok = gs == ws and gd == wd
        if gs is None or gd is None:
            ctx.unknown("R6", "default roles %s" % isa, src.where(), "the default source / destination operands of %s are not written as a "
                        "slice of the operand list (%s / %s)" % (isa, U(s[isa]) if isa in s else None, U(d[isa]) if isa in d else None))
            continue
        ctx.check(ok, "R6", "%s: sources %s, destination %s" % (isa, ws, wd), src.where(),
                  "default roles for %s are sources=%s destination=%s (expected operands[%s:%s] / operands[%s:%s]): the "
                  "destination is not the %s operand or an operand is in neither/both roles" % (
                      isa, gs, gd, ws[0], ws[1], wd[0], wd[1], "last" if isa == "x86" else "first"),
                  "ISASemantics", "default roles %s" % isa)
    ctx.check(slice_of(s.get("single")) == (0, 1) and slice_of(d.get("single")) == "empty", "R6",
              "single operand: source only", src.where(), "a single operand is not treated as source only",
              "ISASemantics", "default roles single")
    a = ctx.func("ISASemantics.assign_src_dst")
    use = [n for n in ast.walk(a.node) if isinstance(n, ast.If) and U(n.test) == "assign_default"]
    helpers_ok = bool(use) and any("_get_regular_source_operands" in U(x) and "['source']" in U(x) for x in use[0].body) and any(
        "_get_regular_destination_operands" in U(x) and "['destination']" in U(x) for x in use[0].body)
    explicit = bool(use) and any(U(x) == "op_dict['src_dst'] = []" for x in use[0].body)
    if use and not explicit:
        # ... or the branch starts from a fresh dict of empty roles
        for x in use[0].body:
            if isinstance(x, ast.Assign) and U(x.targets[0]) == "op_dict" and isinstance(x.value, (ast.Dict, ast.DictComp)):
                val_ = x.value.value if isinstance(x.value, ast.DictComp) else None
                fresh_vals = (val_ is None and all(isinstance(v_, ast.List) for v_ in x.value.values)) or isinstance(val_, ast.List) or (
                    isinstance(val_, ast.Call) and pm.call_name(val_) == "list")
                if fresh_vals and C.empty_roles_value(ctx, a, x.value) is True:
                    explicit = True
    # ... or op_dict starts as a fresh empty-roles dict (literal, or a deep copy of a constant) and src_dst is not written before
    inits = [x for x in C.assigns_to(a.node, "op_dict") if isinstance(x, ast.Assign) and not C.in_subtree(x, use[0])] if use else []
    fresh_empty = False
    if inits and not explicit:
        v = inits[0].value
        while isinstance(v, ast.Call) and (pm.call_name(v) or "").split(".")[-1] == "deepcopy" and len(v.args) == 1:
            v = v.args[0]
        if isinstance(v, ast.Attribute) and a.cls is not None:
            for c in ctx.repo.mro(a.cls.name):
                if v.attr in ctx.repo.classes[c].class_attrs and (pm.call_name(inits[0].value) or "").endswith("deepcopy"):
                    v = ctx.repo.classes[c].class_attrs[v.attr]
        fresh_empty = isinstance(v, ast.Dict) and any(isinstance(k, ast.Constant) and k.value == "src_dst" and isinstance(x, ast.List)
                                                    and not x.elts for k, x in zip(v.keys, v.values))
        if not fresh_empty and isinstance(inits[0].value, (ast.DictComp, ast.Dict)):
            # a dict built here (fresh lists per value: `[]` / `list(..)`) that folds to the three empty roles
            val_ = inits[0].value.value if isinstance(inits[0].value, ast.DictComp) else None
            fresh_vals = val_ is None or isinstance(val_, ast.List) or (isinstance(val_, ast.Call) and pm.call_name(val_) == "list")
            fresh_empty = bool(fresh_vals) and C.empty_roles_value(ctx, a, inits[0].value) is True
    ok = helpers_ok and (explicit or fresh_empty)
    ctx.judge(ok, helpers_ok is False or explicit or fresh_empty or not inits or isinstance(inits[0].value, ast.Dict), "R6", "default roles are applied when no ISA entry matched", a.where(),
              "assign_default branch does not assign source/destination/src_dst from the default helpers", a.qname,
              "default application")


def _r7(ctx):
    ctx.rule("R7", "edge attribute written = attribute read; weights from latency_wo_load / p_index_latency; producer -> consumer")
    f = ctx.func("KernelDG.create_DG")
    adds = C.calls_to(f.node, "add_edge")
    ctx.floor("R7", "add_edge sites", len(adds), 2)
    keys = set()
    for c in adds:
        kws = [k.arg for k in c.keywords]
        keys |= set(kws)
        ctx.check(kws == ["latency"], "R7", "edge carries exactly the attribute `latency`: " + U(c)[:80], f.where(c),
                  "add_edge writes attributes %s" % kws, f.qname, U(c)[:120])
    # consumers
    consumers = []
    for q in ("KernelDG.check_for_loopcarried_dep", "KernelDG.get_critical_path", "KernelDG.export_graph"):
        g = ctx.func(q)
        for n in ast.walk(g.node):
            if isinstance(n, ast.Subscript) and isinstance(n.slice, ast.Constant) and isinstance(n.slice.value, str) \
                    and ".edges[" in U(n.value) and isinstance(n.ctx, ast.Load):
                consumers.append((g, n, n.slice.value))
        for c in C.calls_to(g.node, "dag_longest_path"):
            w = C.arg_of(c, None, "weight")
            consumers.append((g, c, C.literal(w) if w is not None else "weight"))
    ctx.floor("R7", "consumers of the edge attribute", len(consumers), 4)
    for g, n, key in consumers:
        if g.name == "export_graph" and key != "latency":
            continue
        ctx.check(key in keys, "R7", "%s reads edge attribute %r" % (g.qname, key), g.where(n),
                  "%s reads the edge attribute %r, add_edge writes %s: %s" % (
                      g.qname, key, sorted(keys), "every edge silently weighs 1 in the longest-path search"
                      if "dag_longest_path" in U(n) else "KeyError / wrong latency"), g.qname, U(n)[:100])
    # the dependency edge
    loop = [n for n in ast.walk(f.node) if isinstance(n, ast.For) and C.is_call_to(n.iter, "find_depending")]
    if len(loop) != 1:
        ctx.broken("R7: dependency loop not found in create_DG")
    loop = loop[0]
    dep = U(loop.target.elts[0])
    prod = U(loop.iter.args[0])
    e = [c for c in adds if C.in_subtree(c, loop)]
    ok = len(e) == 1 and [U(a) for a in e[0].args] == ["%s.line_number" % prod, "%s.line_number" % dep]
    ctx.check(ok, "R7", "edge runs producer.line_number -> dependant.line_number", f.where(loop),
              "the dependency edge is not (producer line, dependant line): %s" % ([U(a) for a in e[0].args] if e else None),
              f.qname, "edge direction")
    if e and any(k.arg == "latency" for k in e[0].keywords):
        wname = [U(k.value) for k in e[0].keywords if k.arg == "latency"][0]
        for _ in range(3):
            # the weight handed over through a plain copy (`w2 = w` on every path): follow it
            ds = [a for a in ast.walk(loop) if isinstance(a, ast.Assign) and U(a.targets[0]) == wname]
            srcs = {U(a.value) for a in ds if isinstance(a.value, ast.Name)}
            if ds and len(srcs) == 1 and all(isinstance(a.value, ast.Name) for a in ds):
                wname = srcs.pop()
            else:
                break
        base = [a for a in ast.walk(loop) if isinstance(a, ast.Assign) and U(a.targets[0]) == wname and isinstance(a.value, ast.IfExp)]
        ok = False
        if base:
            v = base[0].value
            test_parts = {U(x) for x in v.test.values} if isinstance(v.test, ast.BoolOp) and isinstance(v.test.op, ast.Or) else {U(v.test)}
            ok = (U(v.body) == "%s.latency" % prod and U(v.orelse) == "%s.latency_wo_load" % prod
                  and "%s.latency_wo_load is None" % prod in test_parts
                  and test_parts <= {"%s.latency_wo_load is None" % prod, "'mem_dep' in %s" % U(loop.target.elts[1])})
        anydef = [a for a in ast.walk(loop) if isinstance(a, ast.Assign) and U(a.targets[0]) == wname]
        orform = [a for a in anydef if isinstance(a.value, ast.BoolOp) and isinstance(a.value.op, ast.Or)
                  and [U(v) for v in a.value.values] == ["%s.latency_wo_load" % prod, "%s.latency" % prod]]
        if orform:
            ctx.node_bad("R7", f, orform[0], "`%s` falls back to the full latency whenever latency_wo_load is falsy - that is also when it is 0 "
                         "(a zero-latency register form composed with a load): the load stage, which already is a node of its own, is "
                         "then counted a second time on every edge leaving the instruction" % U(orform[0]), instance="ordinary weight")
        else:
            ctx.judge(ok, bool(base) or not anydef, "R7", "ordinary weight = producer's latency without its load stage (fallback: latency)", f.where(loop),
                      "the register-dependency edge weight is not `latency_wo_load` (latency only when that is None): %s" % (
                          U(base[0].value) if base else "no definition"), f.qname, "ordinary weight")
        wb = [n for n in ast.walk(loop) if isinstance(n, ast.If) and "'p_indexed' in" in U(n.test)]
        okw = bool(wb) and any(pm.match("%s = self.model.get('p_index_latency', M_d)" % wname, s) for s in wb[0].body)
        ctx.check(okw, "R7", "write-back edges weigh the model's p_index_latency", f.where(loop),
                  "edges tagged p_indexed do not get the model's p_index_latency", f.qname, "write-back weight")
        if wb and base:
            cfg = C.cfg_of(f)
            inner = C.enclosing_loop(e[0])
            late = [a for a in ast.walk(loop) if isinstance(a, (ast.Assign, ast.AugAssign)) and U(
                a.targets[0] if isinstance(a, ast.Assign) else a.target) == wname and inner is not None
                and cfg.reachable(e[0], a, within=inner)]
            ctx.check(cfg.dominates(base[0], e[0]) and not late, "R7",
                      "weight is fully determined before the edge is added", f.where(e[0]),
                      "the edge is added before its weight is final", f.qname, "weight before add_edge")
    # load node edge
    ld = [c for c in adds if not C.in_subtree(c, loop)]
    okl = bool(ld) and C.affine_eq(ld[0].args[0], ast.parse("%s.line_number + 0.1" % prod, mode="eval").body) and \
        U(ld[0].args[1]) == "%s.line_number" % prod and any(
            U(k.value) == "%s.latency - %s.latency_wo_load" % (prod, prod) for k in ld[0].keywords)
    ctx.check(okl, "R7", "load stage = separate node line+0.1 -> line with weight latency - latency_wo_load",
              f.where(ld[0]) if ld else f.where(), "the load-stage edge changed", f.qname, "load node edge")


def _r8(ctx):
    ctx.rule("R8", "dependency-breaking idiom: all operands and hidden operands are destinations only")
    f = ctx.func("ISASemantics._apply_found_ISA_data")
    ops = f.params()[2]
    brs = [n for n in ast.walk(f.node) if isinstance(n, ast.If) and "breaks_dependency_on_equal_operands" in U(n.test)]
    if len(brs) != 1:
        ctx.broken("R8: zero-idiom branch not found")
    b = brs[0]
    parts = {U(v) for v in b.test.values} if isinstance(b.test, ast.BoolOp) and isinstance(b.test.op, ast.And) else set()
    eq = {"%s[1:] == %s[:-1]" % (ops, ops), "%s[:-1] == %s[1:]" % (ops, ops)}
    good = len(parts) == 2 and any("breaks_dependency_on_equal_operands" in p for p in parts) and bool(parts & eq)
    recognised = True
    why = "zero-idiom guard is %s" % U(b.test)
    if not good:
        # which operands does the guard compare? all-equal over a role-filtered part of the operands with nothing said about
        # the rest is the recognised defect (an output in another register keeps the input alive); a guard that talks about
        # several parts of the operand list is not understood
        sub = C.flow_of(f).subst(b.test)
        conj = list(sub.values) if isinstance(sub, ast.BoolOp) and isinstance(sub.op, ast.And) else [sub]
        rest = [c for c in conj if "breaks_dependency_on_equal_operands" not in U(c)]
        flat = []
        for c in rest:
            flat.extend(c.values if isinstance(c, ast.BoolOp) and isinstance(c.op, ast.And) else [c])
        m = [pm.match("M_x[1:] == M_x[:-1]", c) or pm.match("M_x[:-1] == M_x[1:]", c) for c in flat]
        if len(flat) == 1 and m[0] is not None and U(m[0]["M_x"]) == ops:
            good = len(rest) == 1 and len(conj) == 2
        elif len(flat) == 1 and m[0] is not None and isinstance(m[0]["M_x"], (ast.ListComp, ast.GeneratorExp)) \
                and m[0]["M_x"].generators[0].ifs and ops in U(m[0]["M_x"].generators[0].iter):
            why = "the zero-idiom guard compares only a filtered part of the operands (`%s`): operands outside it may name other " \
                  "registers, whose values the instruction then does not kill" % U(m[0]["M_x"])[:120]
        elif any(ops in {x.id for x in ast.walk(c) if isinstance(x, ast.Name)} for c in flat):
            recognised = False
    ctx.judge(good, recognised, "R8", "guard = DB flag and all operands equal", f.where(b), why, f.qname, "zero idiom guard")
    body = [U(s) for s in b.body]
    ctx.check(any(s == "op_dict['destination'] += %s" % ops for s in body) and isinstance(b.body[-1], ast.Return), "R8",
              "all operands become destinations and nothing else is assigned", f.where(b),
              "zero-idiom branch does not put all operands into destination only", f.qname, "zero idiom operands")
    roles_written = {C.literal(n.slice) for n in ast.walk(b) if isinstance(n, ast.Subscript) and U(n.value) == "op_dict"
                     and isinstance(n.slice, ast.Constant)}
    ctx.check(roles_written == {"destination"}, "R8", "no source/src_dst role in the zero-idiom branch", f.where(b),
              "zero-idiom branch writes the roles %s" % sorted(roles_written), f.qname, "zero idiom roles")
    ctx.check(any("hidden_operands" in s and "destination" in s for s in [U(x) for x in ast.walk(b) if isinstance(x, ast.AugAssign)]),
              "R8", "hidden operands are written (destination) as well", f.where(b),
              "hidden operands (flags) are not added as destinations of a zero idiom", f.qname, "zero idiom hidden operands")


def _d1(ctx):
    ctx.rule("D1", "ISA databases: boolean roles; immediates/identifiers/conditions never destinations; hidden operand classes")
    spec = _spec()
    n_ops = 0
    for path, d in sorted(ctx.data.isas().items()):
        rel = ctx.data.rel(path)
        ctx.files.add(rel)
        if not isinstance(d, dict):
            continue
        isa = str(d.get("isa", "")).lower()
        hidden_mem = 0
        bad = 0
        names = set()
        for e in d.get("instruction_forms") or []:
            if not isinstance(e, dict):
                continue
            key = "%s %s" % ("/".join(entry_names(e)), sig_of_entry(e))
            names |= {n.lower() for n in entry_names(e)}
            for hidden, ops in ((False, e.get("operands") or []), (True, e.get("hidden_operands") or [])):
                for o in ops:
                    if not isinstance(o, dict):
                        continue
                    n_ops += 1
                    cls = o.get("class")
                    probs = []
                    for k in ("source", "destination"):
                        if not isinstance(o.get(k), bool):
                            probs.append("%s operand lacks a boolean %r" % ("hidden" if hidden else "explicit", k))
                    if cls in ("immediate", "identifier", "condition") and o.get("destination") is True:
                        probs.append("a %s operand is marked as destination" % cls)
                    if hidden and cls not in ("flag", "register", "memory"):
                        probs.append("hidden operand of class %r" % cls)
                    if hidden and cls == "memory":
                        hidden_mem += 1
                        if isa == "aarch64":
                            probs.append("hidden MEMORY operand in the AArch64 ISA DB: the write-back post-processing of "
                                         "assign_src_dst would mutate this model-owned operand (C18 declared exception)")
                    for p in probs:
                        bad += 1
                        ctx.bad("D1", "%s :: %s" % (rel, key), rel, p, rel, "%s %s" % (key, {k: o.get(k) for k in ("class", "name", "source", "destination")}))
        ctx.ok("D1", "%s: %d problems; %d hidden memory operand(s)" % (rel, bad, hidden_mem), rel)
        # advisory: curated read-modify-write mnemonics without an ISA entry
        missing = [m for m in spec["rmw_mnemonics_advisory"].get(isa, []) if m not in names]
        if missing:
            ctx.note("D1b (advisory): %s has no entry for read-modify-write mnemonics %s; their destination is "
                     "treated as write-only by the default roles" % (rel, missing))
    ctx.floor("D1", "ISA operands linted", n_ops, 500)


def run(ctx):
    C.require_locals(ctx, ctx.func('KernelDG.find_depending'), ['dst', 'instruction_form', 'flag_dependencies'])
    C.require_locals(ctx, ctx.func('ISASemantics._apply_found_ISA_data'), ['op_dict'])
    C.require_locals(ctx, ctx.func('ISASemantics.assign_src_dst'), ['assign_default', 'op_dict', 'instruction_form'])
    C.require_locals(ctx, ctx.func('KernelDG.create_DG'), ['flag_dependencies'])
    _r1(ctx)
    _r2_r3(ctx)
    _r4(ctx)
    _r5(ctx)
    _r6(ctx)
    _r7(ctx)
    _r8(ctx)
    _d1(ctx)
    # R9: the ISA-entry look-up that decides the operand roles tries the documented fall-backs (shared with C07-R4)
    from . import c07
    c07._r4(ctx, rule="R9", funcs=("ISASemantics.assign_src_dst", "ISASemantics.get_reg_changes"), floor=3)
    # R10: is_read / is_written decide "same register" through the parsers' alias predicates: a predicate that relates
    # strangers (flags, rip, segment registers have no family) adds edges that are no read-after-write (shared with C12)
    from . import c12
    ctx.rule("R10", "the alias predicates behind is_read / is_written relate only architectural aliases (C12-R1..R4)")
    C.embed(ctx, "C12", lambda sub: c12._x86_returns(sub, *c12._x86(sub)), "R10", "x86 alias predicate (C12)",
            "is_read / is_written treat two different registers as the same one", ctx.func("ParserX86ATT.is_reg_dependend_of").where())
    C.embed(ctx, "C12", c12._aarch64, "R10", "AArch64 alias predicate (C12)",
            "is_read / is_written treat two different registers as the same one", ctx.func("ParserAArch64.is_reg_dependend_of").where())
