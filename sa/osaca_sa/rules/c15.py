"""C15 - every shipped model entry is well-formed and can be costed (exhaustive data lint).

The schema is the one the consumers destructure (MachineModel.__init__, operand_to_class,
average_port_pressure, the balancer, the front end, db_interface); D0 verifies on every run that
the consumers still destructure that way, D1 lints every entry of every non-empty data file,
D2 checks the --db-check counting path, R3 the shape agreement between writers and readers of
InstructionForm.port_uops.
"""
import ast
import numbers

from .. import pm
from ..pm import U
from ..yamldata import entry_names, sig_of_entry
from . import common as C

EXHAUSTIVE = True
TECHNIQUE = "static analysis: exhaustive data lint of all YAML entries against the schema derived from the consuming code; AST checks of the consumers, the --db-check counting path and writer/reader shape agreement of port_uops"
EXPLANATION = (
    "Exhaustive lint of every instruction form, load/store table row and default of every non-empty "
    "model file and of both ISA databases, read as data (never through osaca). D0: the consuming code "
    "(average_port_pressure, operand_to_class, the loader's table conversion) still destructures "
    "entries the way the schema assumes. D1: name is a string or list of strings; operands is a list "
    "of class-tagged maps carrying the fields operand_to_class subscripts unconditionally; "
    "throughput/latency present (arch models) and ~ or a number >= 0; port_pressure ~, a list of "
    "[cycles >= 0, non-empty port collection] or a map 0..n-1 of such lists; every port (element of a "
    "list, character of a string - which is how the code iterates it) is in the model's `ports`; "
    "load/store rows carry base/index/offset/scale/port_pressure; both defaults are micro-op lists; "
    "load_latency and the multipliers map to numbers. D2: --db-check appends to each list under "
    "`is None` of the like-named field, returns/unpacks/passes the lists in matching order and prints "
    "len() of the right list. R3: every reader that indexes port_uops as a list of pairs is dominated "
    "by a resolution of an alternatives map, on the --fixed path too. D0b: the fields the schema allows to be missing (throughput / latency `~`) are tested for None by every consumer before arithmetic, max() or += - in the direct path and where an entry is used as the register form of a memory instruction (obligation of C08-R2, embedded). D0c: a value read from the path-keyed in-process cache never becomes a model object's data unless it is overwritten or re-validated against the file content (C17-R5, embedded): otherwise --db-check and the costing code see entries an earlier import added, not the shipped file."
)
NOT_DECIDED = (
    "That no other run-time path crashes for an instruction matching a shipped form (only the "
    "destructuring paths named above are covered), and the CLI output of --db-check itself."
)
ASSUMPTIONS = [
    "model files that are 0 bytes in the working tree (bdw, csx, skx here) are treated as absent, as "
    "the property's quantifier says",
    "ruamel's safe loader yields the same scalars as the round-trip loader OSACA uses",
]

MEM_KEYS = ("base", "offset", "index", "scale")


def is_num(x):
    return isinstance(x, numbers.Real) and not isinstance(x, bool)


def lint_uop_list(uops, ports, what):
    """Problems (strings) of a micro-op list; [] when well-formed."""
    out = []
    if not isinstance(uops, list):
        return ["%s is %s, not a list of [cycles, ports]" % (what, type(uops).__name__)]
    for i, u in enumerate(uops):
        if not isinstance(u, (list, tuple)):
            out.append("%s[%d] = %r is not a [cycles, ports] pair (average_port_pressure unpacks "
                       "`for cycles, ports in ...`)" % (what, i, u))
            continue
        if len(u) != 2:
            out.append("%s[%d] = %r has %d elements, not [cycles, ports]" % (what, i, u, len(u)))
            continue
        cyc, ps = u
        if not is_num(cyc) or cyc < 0:
            out.append("%s[%d]: cycles %r is not a number >= 0" % (what, i, cyc))
        if isinstance(ps, str):
            plist = list(ps)
        elif isinstance(ps, (list, tuple)):
            plist = list(ps)
        else:
            out.append("%s[%d]: ports %r is neither a string nor a list (cannot be iterated)" % (what, i, ps))
            continue
        if not plist:
            out.append("%s[%d]: empty port collection" % (what, i))
        for p in plist:
            if not isinstance(p, str):
                out.append("%s[%d]: port %r is not a string" % (what, i, p))
            elif p not in ports:
                out.append("%s[%d]: port %r (from %r) is not in the model's port list" % (what, i, p, ps))
    return out


def lint_port_pressure(pp, ports):
    if pp is None:
        return []
    if isinstance(pp, dict):
        out = []
        keys = list(pp.keys())
        if keys != list(range(len(keys))) or not keys:
            out.append("alternatives map has keys %r, expected 0..n-1 in order (option 0 is the "
                       "--fixed choice, values()[0] the balancer's)" % keys)
        for k, v in pp.items():
            out.extend(lint_uop_list(v, ports, "port_pressure[%r]" % k))
        return out
    return lint_uop_list(pp, ports, "port_pressure")


def lint_operand(o, hidden=False, isa_db=False):
    out = []
    if not isinstance(o, dict):
        return ["operand %r is not a map" % (o,)]
    c = o.get("class")
    if "class" not in o:
        return ["operand %r has no 'class'" % (o,)]
    if c == "register":
        if "name" not in o and "prefix" not in o:
            out.append("register operand without name and prefix")
        for k in ("name", "prefix", "shape"):
            if k in o and o[k] is not None and not isinstance(o[k], str):
                out.append("register %s %r is not a string" % (k, o[k]))
    elif c == "memory":
        for k in MEM_KEYS:
            if k not in o:
                out.append("memory operand lacks %r (operand_to_class subscripts it)" % k)
        for k in ("base", "index"):
            v = o.get(k)
            if isinstance(v, dict) and "name" not in v:
                out.append("memory %s map without 'name'" % k)
    elif c == "immediate":
        if "imd" not in o:
            out.append("immediate operand lacks 'imd'")
    elif c == "condition":
        if not isinstance(o.get("ccode"), str):
            out.append("condition operand lacks a string 'ccode'")
    elif c == "flag":
        if "name" not in o:
            out.append("flag operand lacks 'name'")
    elif c in ("identifier", "prfop"):
        pass
    else:
        out.append("operand class %r is not one the loader converts" % (c,))
    for k in ("source", "destination"):
        if k in o and not isinstance(o[k], bool):
            out.append("%s flag %r is not a boolean" % (k, o[k]))
    if isa_db and c in ("register", "memory", "flag", "immediate", "condition", "identifier"):
        for k in ("source", "destination"):
            if k not in o:
                out.append("ISA operand lacks boolean %r" % k)
    return out


def lint_model(rel, d, arch):
    """Yield (entry key, construct, detail) problems of one data file."""
    if not isinstance(d, dict):
        yield "<file>", "top level", "file does not contain a map"
        return
    ports = d.get("ports") if arch else []
    if arch:
        if not (isinstance(ports, list) and ports and all(isinstance(p, str) for p in ports)):
            yield "ports", "ports", "`ports` is not a non-empty list of strings: %r" % (ports,)
            ports = [p for p in ports if isinstance(p, str)] if isinstance(ports, list) else []
        elif len(set(ports)) != len(ports):
            yield "ports", "ports", "duplicate port names in `ports`"
        if not isinstance(d.get("isa"), str):
            yield "isa", "isa", "`isa` missing or not a string"
        ll = d.get("load_latency")
        if not isinstance(ll, dict) or not all(v is None or (is_num(v) and v >= 0) for v in ll.values()):
            yield "load_latency", "load_latency", "`load_latency` is not a map of register type -> number >= 0"
        for key in ("load_throughput_multiplier", "store_throughput_multiplier"):
            if key in d:
                m = d[key]
                if not isinstance(m, dict) or not all(is_num(v) and v >= 0 for v in m.values()):
                    yield key, key, "`%s` is not a map of register type -> number" % key
        for key in ("store_to_load_forward_latency", "p_index_latency"):
            if key in d and d[key] is not None and not is_num(d[key]):
                yield key, key, "`%s` is neither ~ nor a number" % key
        for tab in ("load_throughput", "store_throughput"):
            rows = d.get(tab)
            if not isinstance(rows, list):
                yield tab, tab, "`%s` is not a list" % tab
                continue
            for i, r in enumerate(rows):
                rk = "%s[%d]" % (tab, i)
                if not isinstance(r, dict):
                    yield rk, rk, "row is not a map"
                    continue
                for k in MEM_KEYS + ("port_pressure",):
                    if k not in r:
                        yield rk, rk, "row lacks %r (the loader subscripts it)" % k
                for prob in lint_uop_list(r.get("port_pressure"), ports, "port_pressure"):
                    yield rk, rk + " " + str({k: r.get(k) for k in ("dst", "src") + MEM_KEYS if k in r}), prob
        for key in ("load_throughput_default", "store_throughput_default"):
            if key not in d:
                yield key, key, "`%s` missing (get_load/store_throughput falls back to it)" % key
                continue
            for prob in lint_uop_list(d[key], ports, key):
                yield key, "%s: %r" % (key, d[key]), prob
    forms = d.get("instruction_forms")
    if not isinstance(forms, list):
        yield "instruction_forms", "instruction_forms", "`instruction_forms` is not a list"
        return
    for idx, e in enumerate(forms):
        if not isinstance(e, dict):
            yield "form#%d" % idx, "form#%d" % idx, "entry is not a map"
            continue
        names = entry_names(e)
        ek = "%s %s" % ("/".join(names[:3]), sig_of_entry(e))
        n = e.get("name")
        if not (isinstance(n, str) or (isinstance(n, list) and n and all(isinstance(x, str) for x in n))):
            yield ek, ek, "name %r is neither a string nor a non-empty list of strings" % (n,)
        ops = e.get("operands")
        if not isinstance(ops, list):
            yield ek, ek, "`operands` is not a list (entries without operands use [])"
            ops = []
        for o in ops:
            for prob in lint_operand(o, isa_db=not arch):
                yield ek, ek, prob
        if "hidden_operands" in e:
            hops = e["hidden_operands"]
            if not isinstance(hops, list):
                yield ek, ek, "`hidden_operands` is not a list"
            else:
                for o in hops:
                    for prob in lint_operand(o, hidden=True, isa_db=not arch):
                        yield ek, ek, "hidden operand: " + prob
        if arch:
            for k in ("throughput", "latency", "port_pressure"):
                if k not in e:
                    yield ek, ek, "entry lacks the key %r (--db-check subscripts it; use ~ for unknown)" % k
        for k in ("throughput", "latency"):
            v = e.get(k)
            if v is not None and not (is_num(v) and v >= 0):
                yield ek, ek, "%s %r is neither ~ nor a number >= 0" % (k, v)
        if arch:
            for prob in lint_port_pressure(e.get("port_pressure"), ports):
                yield ek, "%s port_pressure=%r" % (ek, e.get("port_pressure")), prob


def _d0_consumers(ctx):
    """The schema is derived from the consumers: verify they still destructure that way."""
    ctx.rule("D0", "consumers still destructure entries the way the schema assumes")
    f = ctx.func("MachineModel.average_port_pressure")
    loops = [n for n in ast.walk(f.node) if isinstance(n, ast.For) and isinstance(n.target, ast.Tuple)
             and len(n.target.elts) == 2]
    good = False
    for l in loops:
        cyc, ps = U(l.target.elts[0]), U(l.target.elts[1])
        inner = [n for n in ast.walk(l) if isinstance(n, ast.For) and U(n.iter) == ps]
        if inner and pm.find("M_idx(%s)" % U(inner[0].target), inner[0]) and pm.find(
                "%s / len(%s)" % (cyc, ps), inner[0]):
            good = True
    if not good:
        ctx.broken("D0: average_port_pressure no longer iterates `for cycles, ports in uops: for p in "
                   "ports: ... cycles / len(ports)`; the data schema of C15 must be re-derived")
    ctx.node_ok("D0", f, f.node, "average_port_pressure: for cycles, ports in uops: for p in ports: index(p), cycles/len(ports)")
    sel = pm.find("M_u = M_pp[M_opt]", f.node)
    sel_ok = bool(sel) and any(pol and C.is_call_to(e, "isinstance") for n, _ in sel for e, pol in C.facts_at(n))
    if not sel_ok:
        # the selection as the isinstance arm of a conditional expression (anywhere: assignment or loop iterable)
        for n in ast.walk(f.node):
            if isinstance(n, ast.IfExp) and C.is_call_to(n.test, "isinstance") and pm.match("M_pp[M_opt]", n.body) is not None:
                sel_ok = True
    ctx.check(sel_ok,
              "D0", "alternatives map is indexed by the option number", f.where(),
              "average_port_pressure no longer selects an alternative by subscripting the map with the option",
              f.qname, "option selection")
    oc = ctx.func("MachineModel.operand_to_class")
    need = {"memory": set(MEM_KEYS), "immediate": {"imd"}, "condition": {"ccode"}, "flag": {"name"}}
    for node in ast.walk(oc.node):
        if not isinstance(node, ast.If):
            continue
        b = pm.match("M_o['class'] == M_c", node.test)
        if b is None or not isinstance(b["M_c"], ast.Constant):
            continue
        cls = b["M_c"].value
        o = U(b["M_o"])
        uncond = set()
        for st in node.body:
            for sub in ast.walk(st):
                if isinstance(sub, ast.Subscript) and U(sub.value) == o and isinstance(sub.slice, ast.Constant):
                    key = sub.slice.value
                    facts = C.facts_at(sub, stop=node)
                    guarded = any(pol and U(e) == "%r in %s" % (key, o) for e, pol in facts)
                    if not guarded and isinstance(sub.ctx, ast.Load):
                        uncond.add(key)
        if cls in need:
            ctx.check(uncond <= need[cls] | {"class"}, "D0",
                      "operand_to_class(%s) subscripts only the keys the schema requires" % cls,
                      oc.where(node),
                      "operand_to_class reads %s unconditionally for class %r; the C15 schema requires only %s"
                      % (sorted(uncond), cls, sorted(need[cls])), oc.qname, "class %s keys" % cls)
        elif cls in ("register", "identifier", "prfop"):
            ctx.check(not (uncond - {"class"}), "D0",
                      "operand_to_class(%s) has no unconditional key" % cls, oc.where(node),
                      "operand_to_class reads %s unconditionally for class %r, which the schema treats as "
                      "optional" % (sorted(uncond), cls), oc.qname, "class %s keys" % cls)


def _d2_dbcheck(ctx):
    ctx.rule("D2", "--db-check counts: list <- `is None` of the like-named field; order of "
             "return/unpack/arguments; len() of the right list printed")
    f = ctx.func("db_interface._check_sanity_arch_db")
    pairs = {"missing_throughput": "throughput", "missing_latency": "latency",
             "missing_port_pressure": "port_pressure"}
    loops = [n for n in ast.walk(f.node) if isinstance(n, ast.For)
             and pm.match("M_m['instruction_forms']", n.iter) is not None]
    if not loops:
        ctx.broken("D2: loop over <model>['instruction_forms'] not found in _check_sanity_arch_db")
    loop = loops[0]
    entry = U(loop.target)
    ctx.check(U(pm.match("M_m['instruction_forms']", loop.iter)["M_m"]) == f.params()[0], "D2",
              "entries counted are those of the arch model", f.where(loop),
              "the db-check loop does not iterate the arch model's instruction forms", f.qname, U(loop.iter))
    # table-driven form: for key, lst in ((field, list), ...): if entry[key] is None: lst.append(entry)
    table_loops = [n for n in ast.walk(loop) if isinstance(n, ast.For) and n is not loop and isinstance(n.iter, (ast.Tuple, ast.List))
                   and isinstance(n.target, ast.Tuple) and len(n.target.elts) == 2]
    handled = set()
    for tl in table_loops:
        rows = {}
        for e in tl.iter.elts:
            if isinstance(e, (ast.Tuple, ast.List)) and len(e.elts) == 2:
                a0, a1 = e.elts
                if isinstance(a0, ast.Constant) and isinstance(a1, ast.Name):
                    rows[a1.id] = a0.value
                elif isinstance(a1, ast.Constant) and isinstance(a0, ast.Name):
                    rows[a0.id] = a1.value
        kv = [U(x) for x in tl.target.elts]
        for lst, field in pairs.items():
            if lst not in rows:
                continue
            handled.add(lst)
            keyvar = kv[0] if isinstance(tl.iter.elts[0].elts[0], ast.Constant) else kv[1]
            lstvar = kv[1] if keyvar == kv[0] else kv[0]
            apps = pm.find("%s.append(%s)" % (lstvar, entry), tl)
            good = rows[lst] == field and len(apps) == 1
            if good:
                facts = C.facts_at(apps[0][0], stop=tl)
                good = len(facts) == 1 and facts[0][1] and U(facts[0][0]) == "%s[%s] is None" % (entry, keyvar)
            exits = [x for x in ast.walk(tl) if isinstance(x, (ast.Break, ast.Continue, ast.Return))]
            if good and not exits:
                ctx.ok("D2", "table row (%r -> %s): appended iff %s[%r] is None" % (field, lst, entry, field), f.where(tl))
            elif good and exits:
                ctx.node_bad("D2", f, tl, "the loop over (field, list) pairs leaves early (%s) after the first missing field: a "
                             "form lacking two values is counted only once, so the later counts (%s ...) are smaller than the "
                             "numbers actually present in the model file" % (
                                 type(exits[0]).__name__.lower(), lst), instance="early exit in the (field, list) loop [%s]" % lst)
            else:
                ctx.node_bad("D2", f, tl, "%s must collect exactly the entries whose %r is None (table row says %r)" % (
                    lst, field, rows.get(lst)), instance="table row for %s" % lst)
            inits = [a for a in C.assigns_to(f.node, lst)]
            ctx.check(len(inits) == 1 and U(inits[0].value) == "[]" and not C.enclosing_loops(inits[0]), "D2",
                      "%s starts empty and is only appended to" % lst, f.where(inits[0]) if inits else f.where(),
                      "%s is (re)assigned other than one initial []" % lst, f.qname, "init of " + lst)
    for lst, field in pairs.items():
        if lst in handled:
            continue
        apps = pm.find("%s.append(M_x)" % lst, loop)
        if len(apps) != 1:
            ctx.bad("D2", "append to %s" % lst, f.where(loop), "expected exactly one append to %s in the "
                    "entry loop, found %d" % (lst, len(apps)), f.qname, "append to %s" % lst)
            continue
        n, b = apps[0]
        facts = C.facts_at(n, stop=loop)
        want = "%s['%s'] is None" % (entry, field)
        good = U(b["M_x"]) == entry and len(facts) == 1 and U(facts[0][0]) == want and facts[0][1]
        # the three tests must be independent statements (no elif chain / early exit between them)
        st = C.cfg_of(f).node_of(n)
        par = getattr(st, "_parent", None)
        chained = isinstance(par, ast.If) and par not in loop.body
        if good and not chained:
            ctx.node_ok("D2", f, n, "if %s: %s" % (want, U(n)))
        else:
            ctx.node_bad("D2", f, n, "%s must collect exactly the entries whose %r is None, independently of the other "
                         "fields (guards here: %s%s)" % (lst, field, [("" if p else "not ") + U(e) for e, p in facts],
                                                          "; part of an elif chain" if chained else ""))
        # initialised empty, not reassigned
        inits = [a for a in C.assigns_to(f.node, lst)]
        ctx.check(len(inits) == 1 and U(inits[0].value) == "[]" and not C.enclosing_loops(inits[0]), "D2",
                  "%s starts empty and is only appended to" % lst, f.where(inits[0]) if inits else f.where(),
                  "%s is (re)assigned other than one initial []" % lst, f.qname, "init of " + lst)
    early = [x for x in ast.walk(loop) if isinstance(x, (ast.Break, ast.Return)) and C.enclosing_loop(x) is loop]
    ctx.check(not early, "D2", "the entry loop visits every form", f.where(loop), "the entry loop can stop early (%s)" % [
        type(x).__name__ for x in early], f.qname, "entry loop complete")
    rets = [n for n in ast.walk(f.node) if isinstance(n, ast.Return) and n.value is not None]
    if len(rets) != 1 or not isinstance(rets[0].value, ast.Tuple):
        ctx.broken("D2: _check_sanity_arch_db does not return one literal tuple")
    ret_names = [U(e) for e in rets[0].value.elts]
    sc = ctx.func("db_interface.sanity_check")
    unpack = [n for n in ast.walk(sc.node) if isinstance(n, ast.Assign)
              and C.is_call_to(n.value, "_check_sanity_arch_db") and isinstance(n.targets[0], ast.Tuple)]
    if len(unpack) != 1:
        ctx.broken("D2: sanity_check does not unpack _check_sanity_arch_db's result once")
    got = [U(e) for e in unpack[0].targets[0].elts]
    # positions decide: the caller's name for each of the three lists is the one at the list's position in the returned tuple
    caller_name = {}
    for lst in pairs:
        if lst in ret_names and len(got) == len(ret_names):
            caller_name[lst] = got[ret_names.index(lst)]
    ctx.check(len(got) == len(ret_names) and len(caller_name) == 3 and len(set(caller_name.values())) == 3, "D2",
              "the three lists are returned and unpacked position by position", sc.where(unpack[0]),
              "returned (%s) but unpacked as (%s)" % (", ".join(ret_names), ", ".join(got)), sc.qname,
              "unpack order")
    # a caller that keeps the callee's names must keep them in place (a swap of two like-named lists is the classic slip)
    for lst, nm in caller_name.items():
        if nm in pairs and nm != lst:
            ctx.bad("D2", "unpack of " + lst, sc.where(unpack[0]), "the list %s of _check_sanity_arch_db is received under the name %s"
                    % (lst, nm), sc.qname, "unpack swap " + lst)
    rep = ctx.func("db_interface._get_sanity_report")
    calls = C.calls_to(sc.node, "_get_sanity_report")
    if len(calls) != 1:
        ctx.broken("D2: sanity_check does not call _get_sanity_report once")
    params = rep.params()
    argmap = {}
    for i, a in enumerate(calls[0].args):
        argmap[params[i]] = U(a)
    for k in calls[0].keywords:
        argmap[k.arg] = U(k.value)
    total_ok = False
    tot = argmap.get(params[0])
    for a in C.assigns_to(sc.node, tot or ""):
        b = pm.match("len(M_d)", a.value)
        if b is not None:
            src = U(b["M_d"])
            for a2 in C.assigns_to(sc.node, src):
                if pm.match("M_m['instruction_forms']", a2.value) is not None:
                    total_ok = True
            if pm.match("M_m['instruction_forms']", b["M_d"]) is not None:
                total_ok = True
    ctx.check(total_ok, "D2", "total = len(arch model's instruction_forms)", sc.where(calls[0]),
              "the total handed to the report is not len(<arch model>['instruction_forms'])", sc.qname,
              "total")
    # which parameter is printed in which sentence
    want = {"no throughput value": "missing_throughput", "no latency value": "missing_latency",
            "no port pressure assignment": "missing_port_pressure"}
    fmt_calls = [n for n in ast.walk(rep.node) if isinstance(n, ast.Call) and isinstance(n.func, ast.Attribute)
                 and n.func.attr == "format" and isinstance(n.func.value, ast.Constant)
                 and isinstance(n.func.value.value, str)]
    seen = set()
    for call in fmt_calls:
        text = call.func.value.value
        for phrase, lst in want.items():
            if phrase in text:
                seen.add(phrase)
                prm = [p for p, a in argmap.items() if a == caller_name.get(lst, lst)]
                if not prm:
                    ctx.bad("D2", "report argument for " + lst, sc.where(calls[0]),
                            "%s is not passed to _get_sanity_report" % lst, sc.qname, "argument " + lst)
                    continue
                p = prm[0]
                # the list that is counted is the list that was collected: not re-bound, filtered or edited on the way
                for fn, nm in ((rep, p), (sc, caller_name.get(lst, lst))):
                    touched = []
                    for n in ast.walk(fn.node):
                        tg = []
                        if isinstance(n, ast.Assign):
                            tg = [x for t in n.targets for x in ([t] if not isinstance(t, (ast.Tuple, ast.List)) else t.elts)]
                        elif isinstance(n, (ast.AugAssign, ast.AnnAssign)):
                            tg = [n.target]
                        elif isinstance(n, ast.Delete):
                            tg = n.targets
                        if any((isinstance(t, ast.Name) and t.id == nm) or (isinstance(t, ast.Subscript) and U(t.value) == nm) for t in tg):
                            if fn is sc and C.is_call_to(getattr(n, "value", None), "_check_sanity_arch_db"):
                                continue
                            touched.append(n)
                        if isinstance(n, ast.Call) and isinstance(n.func, ast.Attribute) and U(n.func.value) == nm and n.func.attr in (
                                "remove", "pop", "clear", "append", "extend", "insert", "sort", "reverse"):
                            touched.append(n)
                    harmless = [n for n in touched if isinstance(n, ast.Call) and n.func.attr in ("sort", "reverse")]
                    touched = [n for n in touched if n not in harmless]

                    def can_drop(e, depth=2):
                        """True: the expression can yield fewer/other elements than its argument; False: a copy / re-ordering;
                        None: not understood"""
                        if isinstance(e, ast.Name):
                            return False
                        if isinstance(e, ast.Subscript) and isinstance(e.slice, ast.Slice):
                            return U(e.slice) != ":"
                        if isinstance(e, (ast.ListComp, ast.GeneratorExp)):
                            if any(g.ifs for g in e.generators):
                                return True
                            if len(e.generators) == 1 and U(e.elt) == U(e.generators[0].target):
                                return False
                            return can_drop(e.elt, depth)        # one result per source list (tuple assignment)
                        if isinstance(e, ast.Call):
                            nmc = (pm.call_name(e) or "").split(".")[-1]
                            if nmc in ("list", "tuple", "sorted", "reversed", "copy", "deepcopy") and e.args:
                                return can_drop(e.args[0], depth)
                            if nmc in ("set", "frozenset", "filter", "fromkeys", "unique"):
                                return True
                            h = ctx.repo.funcs.get("%s.%s" % (fn.module.stem, nmc))
                            if h is not None and depth:
                                # conditional appends: an element is kept only under a condition. `key not in seen` with a key that is
                                # the element's position (enumerate index) keeps every element; a key computed from the element
                                # (its printed name, ...) can merge distinct elements; other conditions are not understood
                                cond_app, unknown_cond = False, False
                                hp = h.params()
                                for c in ast.walk(h.node):
                                    if not (isinstance(c, ast.Call) and isinstance(c.func, ast.Attribute) and c.func.attr == "append"):
                                        continue
                                    for e_, pol_ in C.norm_fact_nodes(c, stop=h.node):
                                        if "len(" in U(e_) and any(p_ in U(e_) for p_ in hp):
                                            continue        # a guard on the size of the argument
                                        if (not pol_) and isinstance(e_, ast.Compare) and len(e_.ops) == 1 and isinstance(e_.ops[0], ast.In):
                                            key = e_.left
                                            lp_ = C.enclosing_loop(c)
                                            positional = isinstance(key, ast.Name) and isinstance(lp_, ast.For) and C.is_call_to(lp_.iter, "enumerate") \
                                                and isinstance(lp_.target, ast.Tuple) and U(lp_.target.elts[0]) == key.id \
                                                and len(lp_.iter.args) >= 1 and U(lp_.iter.args[0]) in hp
                                            if not positional:
                                                cond_app = True
                                        else:
                                            unknown_cond = True
                                if unknown_cond and not cond_app:
                                    return None
                                comp_if = any(isinstance(c, ast.comprehension) and c.ifs for c in ast.walk(h.node))
                                dedup = any(isinstance(c, ast.Call) and (pm.call_name(c) or "").split(".")[-1] in ("set", "fromkeys", "filter")
                                            and c.args for c in ast.walk(h.node))
                                if cond_app or comp_if or dedup:
                                    return True
                                return None
                        return None
                    verdicts = []
                    for n in touched:
                        if isinstance(n, ast.Assign) and not any(isinstance(t, ast.Subscript) for t in n.targets):
                            verdicts.append(can_drop(n.value))
                        else:
                            verdicts.append(True)        # element stores, deletes, remove/pop/append/...: the content changes
                    if touched and not any(v is True for v in verdicts):
                        if any(v is None for v in verdicts):
                            ctx.unknown("D2", "%s reaches the count unchanged" % lst, fn.where(touched[0]),
                                        "`%s` re-binds the list; whether elements can get lost is not recognised" % U(touched[0])[:100])
                        else:
                            ctx.ok("D2", "%s is only copied / re-ordered in %s" % (nm, fn.name), fn.where())
                        touched = []
                        continue
                    if touched:
                        ctx.bad("D2", "%s reaches the count unchanged" % lst, fn.where(touched[0]),
                                "between its collection in _check_sanity_arch_db and the '%s' line the list is changed by `%s`: the "
                                "number printed is no longer the number of forms of the model file that lack the value (forms that "
                                "differ only in what the change ignores - e.g. the addressing mode of a memory operand in the "
                                "readable name - are counted once)" % (phrase, U(touched[0])[:100]), fn.qname,
                                "%s changed before counting" % lst)
                    else:
                        ctx.ok("D2", "%s is not re-bound or edited in %s" % (nm, fn.name), fn.where())
                lens = [U(a) for a in call.args]
                good = len(lens) == 3 and lens[1] == "len(%s)" % p and pm.match(
                    "round(100 * len(%s) / %s)" % (p, params[0]), call.args[0]) is not None and lens[2] == params[0]
                if good:
                    ctx.node_ok("D2", rep, call, "'%s' line prints len(%s) (= %s)" % (phrase, p, lst))
                else:
                    ctx.node_bad("D2", rep, call, "the '%s' line must print round(100*len(%s)/%s), len(%s), %s "
                                 "where %s receives %s; it prints %s" % (phrase, p, params[0], p, params[0], p, lst, lens))
    ctx.floor("D2", "summary sentences of the sanity report", len(seen), 3)


def _resolver_helpers(ctx):
    """Functions that return their argument's port_uops resolved to one alternative:
    body tests isinstance(<port_uops-derived>, dict) and selects one option in that branch."""
    out = {}
    for f in ctx.repo.all_funcs():
        tests = [n for n, b in pm.find("isinstance(M_x, dict)", f.node)]
        if not tests or not pm.find("M_i.port_uops", f.node):
            continue
        rets = [n for n in ast.walk(f.node) if isinstance(n, ast.Return) and n.value is not None]
        if not rets:
            continue
        flow = C.flow_of(f)
        derived = any(any("port_uops" in t for t in flow.origin_text(b["M_x"]))
                      for n, b in pm.find("isinstance(M_x, dict)", f.node))
        selects = bool(pm.find_any(["M_v = M_v[M_k]", "M_v = list(M_v.values())[M_k]",
                                    "M_v = next(iter(M_v.values()))"], f.node))
        if derived and selects:
            out[f.name] = f
    return out


def _r3_uops_shape(ctx):
    from ..flow import attr_stores

    ctx.rule("R3", "readers indexing port_uops as a list of pairs are preceded by resolution of an "
             "alternatives map on every path (incl. --fixed)")
    stores = attr_stores(ctx.repo, "port_uops")
    ctx.floor("R3", "writers of port_uops", len(stores), 5)
    maybe_map = []
    # data fact, re-derived on every run: do shipped entries give their micro-ops as a map of alternatives?
    with_map = []
    for path, d in ctx.data.models().items():
        for e in (d.get("instruction_forms") or []) if isinstance(d, dict) else []:
            if isinstance(e, dict) and isinstance(e.get("port_pressure"), dict):
                with_map.append("%s %s" % (ctx.data.rel(path), e.get("name")))
    ctx.extra["entries_with_alternatives_map"] = len(with_map)
    FLATTEN = ("list", "tuple", "sorted", "set", "reversed", "chain", "frozenset")

    def resolved_before(f, name, node):
        """`if isinstance(name, dict): name = name[k] | list(name.values())[k]` dominates node"""
        cfg = C.cfg_of(f)
        for iff in [x for x in ast.walk(f.node) if isinstance(x, ast.If)]:
            b = pm.match("isinstance(M_x, dict)", iff.test)
            if b is None or U(b["M_x"]) != name:
                continue
            sel = [a for a in iff.body if isinstance(a, ast.Assign) and U(a.targets[0]) == name and (
                pm.match("%s[M_k]" % name, a.value) is not None or pm.match("list(%s.values())[M_k]" % name, a.value) is not None
                or pm.match("next(iter(%s.values()))" % name, a.value) is not None)]
            if sel and cfg.dominates(iff, node):
                return True
        return False

    def flattened_maps(f, stmt, value):
        """arguments of list()/tuple()/chain()/... in `value` that may be an entry's alternatives map"""
        out = []
        for c in ast.walk(value):
            args = []
            if isinstance(c, ast.Call) and (pm.call_name(c) or "").split(".")[-1] in FLATTEN:
                args = c.args
            elif isinstance(c, (ast.List, ast.Tuple, ast.Set)):
                args = [x.value for x in c.elts if isinstance(x, ast.Starred)]      # [*container, ...]
            if args:
                for a in args:
                    if isinstance(a, ast.Call):
                        continue        # judged on its own
                    if isinstance(a, ast.Attribute) and a.attr == "port_pressure":
                        out.append(a)
                    elif isinstance(a, ast.Name):
                        defs = [d for d in C.assigns_to(f.node, a.id) if isinstance(d, ast.Assign)]
                        if any(isinstance(d.value, ast.Attribute) and d.value.attr == "port_pressure" for d in defs) \
                                and not resolved_before(f, a.id, stmt):
                            out.append(a)
        return out
    for f, stmt, value, tgt in stores:
        v = U(value)
        fl = flattened_maps(f, stmt, value)
        if fl:
            kind = "flattening copy of an entry container"
            ctx.judge(not with_map, True, "R3", "writer %s: %s" % (f.qname, U(stmt)[:100]), f.where(stmt),
                      "`%s` iterates `%s`, an entry's micro-op container, to build port_uops; %d shipped entries (e.g. %s) give "
                      "that container as a map {option: [[cycles, ports], ...]} of alternatives, and iterating a map yields its "
                      "KEYS: port_uops becomes [0, 1, ...], the isinstance(port_uops, dict) branches of the balancer and the "
                      "report no longer see the alternatives and the integers are indexed as [cycles, ports] pairs -> TypeError"
                      % (U(value)[:90], U(fl[0]), len(with_map), with_map[0] if with_map else None), f.qname,
                      "flattening writer " + U(fl[0]))
            if with_map:
                continue
        if (v == "[]" or C.is_call_to(value, "list", "deepcopy", "copy")
                or isinstance(value, (ast.List, ast.ListComp))
                or pm.match("list(M_y.values())[M_k]", value) is not None):
            kind = "list"
        elif isinstance(value, ast.Attribute) and value.attr == "port_pressure":
            kind = "entry container (list or map of alternatives), by reference"
            maybe_map.append((f, stmt))
        elif isinstance(value, ast.Attribute) and value.attr in ("port_uops", "_port_uops"):
            kind = "copy of another form's port_uops"
        elif isinstance(value, ast.Name) and f.name == "port_uops":
            kind = "property setter"
        else:
            kind = "unclassified"
            if f.name != "__init__":
                ctx.note("R3: unclassified writer of port_uops: %s at %s" % (v[:80], f.where(stmt)))
        ctx.ok("R3", "writer %s: %s" % (f.qname, U(stmt)[:100]), f.where(stmt), kind)
    if not maybe_map:
        return
    helpers = _resolver_helpers(ctx)
    # readers: for-loops / comprehensions over <x>.port_uops whose element is subscripted
    n_readers = 0
    for f in ctx.repo.all_funcs():
        if f.name in helpers:
            continue
        for n in ast.walk(f.node):
            gens = []
            if isinstance(n, (ast.ListComp, ast.SetComp, ast.GeneratorExp, ast.DictComp)):
                gens = [(g.iter, g.target, n) for g in n.generators]
            elif isinstance(n, ast.For):
                gens = [(n.iter, n.target, n)]
            for it, tgt, scope in gens:
                direct = isinstance(it, ast.Attribute) and it.attr == "port_uops"
                via_helper = isinstance(it, ast.Call) and pm.call_name(it).split(".")[-1] in helpers
                if not (direct or via_helper):
                    continue
                t = U(tgt)
                indexed = bool(pm.find("%s[M_k]" % t, scope)) or isinstance(tgt, ast.Tuple)
                if not indexed:
                    continue
                n_readers += 1
                ctx.touch(f)
                if via_helper:
                    ctx.node_ok("R3", f, n, "reader %s iterates %s (resolves a map to one option)" % (f.qname, U(it)))
                    continue
                # same-function resolution dominating the reader
                cfg = C.cfg_of(f)
                ok = False
                fl = C.flow_of(f)
                for iff in [x for x in ast.walk(f.node) if isinstance(x, ast.If)]:
                    b = pm.match("isinstance(M_x, dict)", fl.subst(iff.test))
                    if b is None or not U(b["M_x"]).endswith(".port_uops"):
                        continue
                    resolved = [s for s in ast.walk(iff) if isinstance(s, ast.Assign)
                                and any(isinstance(tt, ast.Attribute) and tt.attr == "port_uops" for tt in s.targets)
                                and s in iff.body
                                and pm.match("list(M_y.values())[0]", fl.subst(s.value)) is not None]
                    if resolved and cfg.dominates(iff, n) and C.enclosing_loop(iff) is C.enclosing_loop(n):
                        ok = True
                if not ok:
                    # the reader runs only where the container is known not to be a map: under isinstance(x, (list, tuple))
                    # or under not isinstance(x, dict) (branch or guard clause)
                    stn = cfg.node_of(n) if not isinstance(n, ast.stmt) else n
                    for e, pol in C.norm_fact_nodes(stn):
                        if not (C.is_call_to(e, "isinstance") and len(e.args) == 2):
                            continue
                        subj = U(fl.subst(e.args[0]))
                        if not (subj == U(fl.subst(it)) or subj.endswith(".port_uops")):
                            continue
                        kinds = {U(k) for k in (e.args[1].elts if isinstance(e.args[1], ast.Tuple) else [e.args[1]])}
                        if (pol and kinds <= {"list", "tuple"}) or (not pol and "dict" in kinds):
                            ok = True
                if ok:
                    ctx.node_ok("R3", f, n, "reader %s: a map of alternatives is resolved or excluded before the loop" % f.qname)
                else:
                    ctx.bad("R3", "%s iterates port_uops as pairs" % f.qname, f.where(n),
                            "%s stores the entry's port_pressure container (possibly a map of alternatives) "
                            "into port_uops by reference; this reader iterates it and indexes the elements "
                            "as [cycles, ports] pairs without a preceding resolution of the map (the balancer "
                            "is skipped under --fixed) -> TypeError for entries with alternatives"
                            % maybe_map[0][0].qname, f.qname, "for %s in %s" % (t, U(it)), f.module.excerpt(n))
    ctx.floor("R3", "readers indexing port_uops elements", n_readers, 3)


def run(ctx):
    C.require_locals(ctx, ctx.func('db_interface._check_sanity_arch_db'), ['missing_throughput', 'missing_latency', 'missing_port_pressure'])
    C.require_locals(ctx, ctx.func('ArchSemantics._handle_instruction_found'), ['instruction_form', 'instruction_data'])
    C.require_locals(ctx, ctx.func('ArchSemantics.assign_optimal_throughput'), ['instruction_form', 'kernel', 'idx'])
    _d0_consumers(ctx)
    # D0b: the schema allows `throughput: ~` / `latency: ~` (measurement missing): the code that costs an entry - directly or
    # as the register form of a memory instruction - tests such a field for None before arithmetic (shared with C08-R2)
    from . import c08
    ctx.rule("D0b", "None-able entry fields (throughput, latency: ~ is allowed by the schema) are tested before arithmetic (C08-R2)")
    C.embed(ctx, "C08", c08._r2, "D0b", "missing measurement (C08-R2)",
            "a shipped form with `throughput: ~` / `latency: ~` - which the schema allows - cannot be costed", ctx.func("ArchSemantics.assign_tp_lt").where())
    # D0c: what --db-check and the costing code see is the content of the model FILE: a model object must not take over the
    # data of an earlier object for the same path (which an import or an analysis may have edited) - C17-R5
    from . import c17
    from .. import report as _report
    from ..srcmodel import AnalysisError
    ctx.rule("D0c", "every model object works on data loaded from the file's present content, not on another object's (C17-R5)")
    sub = _report.Ctx("C17", ctx.repo, ctx.tier, ctx.data)
    err = None
    try:
        c17.run(sub)
    except AnalysisError as e:
        err = e
    n_f = 0
    for fd in sub.findings:
        if fd.rule == "R5":
            n_f += 1
            ctx.bad("D0c", "model data per object (C17-R5): " + fd.construct, fd.where, "the entries that are checked / costed are those of an "
                    "object edited earlier in the process (set_instruction appends parsed forms to it), not those of the shipped file: "
                    + fd.detail, fd.scope, fd.construct)
    for ob in sub.obligations:
        if ob["rule"] == "R5" and ob["status"] not in ("violated", "not-understood"):
            new_ob = dict(ob)
            new_ob["rule"] = "D0c"
            new_ob["instance"] = "C17-R5: " + ob["instance"]
            ctx.obligations.append(new_ob)
    for u in getattr(sub, "unknowns", []):
        if u.startswith("R5 "):
            ctx.unknown("D0c", "model data per object (C17-R5)", ctx.func("MachineModel.__init__").where(), u)
    if err is not None and not n_f:
        ctx.unknown("D0c", "model data per object (C17-R5)", ctx.func("MachineModel.__init__").where(), str(err)[:200])
    ctx.functions |= sub.functions
    ctx.files |= sub.files
    ctx.rule("D1", "every entry / table row / default of every non-empty data file satisfies the schema")
    models = ctx.data.models()
    isas = ctx.data.isas()
    ctx.floor("D1", "non-empty model files", len(models), 10)
    ctx.floor("D1", "ISA database files", len(isas), 2)
    skipped = ctx.data.skipped()
    if skipped:
        ctx.note("empty (0-byte) model files treated as absent: %s" % ", ".join(skipped))
    per_file = {}
    total_entries = 0
    for group, arch in ((models, True), (isas, False)):
        for path, d in sorted(group.items()):
            rel = ctx.data.rel(path)
            ctx.files.add(rel)
            if isinstance(d, Exception):
                ctx.bad("D1", rel, rel, "YAML does not load: %s" % d, rel, "yaml load")
                continue
            nforms = len(d.get("instruction_forms") or []) if isinstance(d, dict) else 0
            total_entries += nforms
            probs = list(lint_model(rel, d, arch))
            per_file[rel] = {"entries": nforms, "problems": len(probs)}
            seen = set()
            for key, construct, detail in probs:
                k = (key, detail)
                if k in seen:
                    continue
                seen.add(k)
                ctx.bad("D1", "%s :: %s" % (rel, key), rel, detail, rel, construct)
            # one discharged obligation per clean entry group (file x check family)
            clean = nforms - len({k for k, _, _ in probs if not k.startswith(("load_", "store_", "ports"))})
            ctx.ok("D1", "%s: %d of %d instruction forms clean; tables, defaults, ports checked" % (
                rel, clean, nforms), rel)
    ctx.extra["data_files"] = per_file
    ctx.extra["entries_linted"] = total_entries
    # evaluations should reflect entries, not files
    ctx.extra["evaluations_note"] = "D1 evaluated %d instruction forms individually" % total_entries
    _d2_dbcheck(ctx)
    _r3_uops_shape(ctx)
    # statically counted ~ fields per model (what --db-check must print), for the evidence
    counts = {}
    for path, d in sorted(models.items()):
        if not isinstance(d, dict):
            continue
        c = {"throughput": 0, "latency": 0, "port_pressure": 0, "forms_after_alias_expansion": 0}
        for e in d.get("instruction_forms") or []:
            if not isinstance(e, dict):
                continue
            mult = len(e["name"]) if isinstance(e.get("name"), list) else 1
            c["forms_after_alias_expansion"] += mult
            for k in ("throughput", "latency", "port_pressure"):
                if e.get(k) is None:
                    c[k] += mult
        counts[ctx.data.rel(path)] = c
    ctx.extra["null_field_counts"] = counts
