"""C06 - store-to-load dependencies through provably equal addresses on both ISAs."""
import ast
import re

from .. import pm
from ..pm import U
from ..yamldata import entry_names, sig_of_entry
from . import common as C

TECHNIQUE = "static analysis: writer/reader key-format agreement (normal-form patterns), mixed-type condition detection, affine collection of the address difference, CFG ordering of scan/update/exit, lint of the ISA databases' embedded `operation` snippets (parsed, never executed)"
EXPLANATION = (
    "R1: register names used as keys of the register-change state are built by the writers (ISASemantics.get_reg_changes) as (prefix or '') + name and every reader in KernelDG.is_memload (look-up key, default entry, identity comparison) has that same normal form; a conditional expression whose else-arm swallowed a comparison (str|None arm vs bool arm) is reported. R2: dependency tags yielded by find_depending are all tested by create_DG; the forwarding latency is added under exactly the store-load tag from the model key the data files define. R3: in the memory branch the load test precedes the same-operand store test whose true path leaves the scan; write-back to the base register leaves it too. R4: full register-change update before the tests, post-index-only update after them on every path that continues the scan; the tracked state is re-initialised from the producer inside the same enclosing loops as the scan (once per destination operand), not hoisted out of them. R5: the address difference is load.offset - store.offset + base change + index change x scale, answered true only under == 0, mismatches/unknown changes skip the candidate. R6: _update_reg_changes adds plain changes, takes the source's tracked value on a rename, and keeps unknown unknown. D1: every ISA-DB `operation` parses, touches only opK['name'|'value'] of existing operands, adds only immediates to one register base, and a rename copies name and value consistently."
)
NOT_DECIDED = "The store/load relation on generated kernels (needs execution against an address oracle)."
ASSUMPTIONS = [
    "RegisterOperand.prefix is None or a lower-case string and .name a string (constructor, C10/C09)",
    "exec() of an `operation` string has the plain Python semantics of the statements the lint parses",
]

NF_PATTERNS = [
    '(M_r.prefix if M_r.prefix is not None else "") + M_r.name',
    '(M_r.prefix or "") + M_r.name',
    '(M_r.prefix if M_r.prefix else "") + M_r.name',
    '("" if M_r.prefix is None else M_r.prefix) + M_r.name',
]


def nf_of(expr):
    """If `expr` is the normal form of a register's full name, return the register's text."""
    for p in NF_PATTERNS:
        b = pm.match(p, expr)
        if b is not None:
            return U(b["M_r"])
    return None


def _name_reads_in_nf(ctx, f, role):
    """Every read of a register's `.name` in `f` must sit inside the normal form of that register."""
    count = 0
    for n in ast.walk(f.node):
        if not (isinstance(n, ast.Attribute) and n.attr == "name" and isinstance(n.ctx, ast.Load)):
            continue
        recv = U(n.value)
        if recv in ("self",) or "directive" in recv:
            continue
        top = n
        p = getattr(top, "_parent", None)
        while isinstance(p, ast.BinOp) and isinstance(p.op, ast.Add):
            top = p
            p = getattr(top, "_parent", None)
        count += 1
        if nf_of(top) == recv:
            ctx.node_ok("R1", f, top, "%s: full name of %s in normal form" % (role, recv))
        else:
            ctx.node_bad("R1", f, top, "%s uses the register name of %s as `%s`, not as (prefix or '') + name: "
                         "keys written and read for one register no longer agree (AArch64 x1 vs w1, or '1')"
                         % (role, recv, U(top)[:80]))
    return count


def _mixes_prefix_and_name(expr):
    at = pm.attrs_in(expr)
    return "prefix" in at and "name" in at


def _r1(ctx):
    ctx.rule("R1", "register-name keys: writers and readers use (prefix or '') + name")
    w = ctx.func("ISASemantics.get_reg_changes")
    writers = _name_reads_in_nf(ctx, w, "writer")
    ctx.floor("R1", "key-building expressions in get_reg_changes", writers, 4)
    f = ctx.func("KernelDG.is_memload")
    mem = f.params()[1]
    # mixed-type conditions anywhere in the function
    mixed = 0
    for n in ast.walk(f.node):
        if isinstance(n, ast.IfExp):
            arms = (n.body, n.orelse)
            str_arm = any(isinstance(a, ast.Attribute) and a.attr in ("prefix", "name") for a in arms)
            bool_arm = any(isinstance(a, (ast.Compare, ast.BoolOp)) for a in arms)
            if str_arm and bool_arm:
                mixed += 1
                reg = U(n.body.value) if isinstance(n.body, ast.Attribute) else "?"
                ctx.node_bad("R1", f, n,
                             "conditional expression with a str|None arm (%s) and a comparison arm (%s): the "
                             "precedence of `if ... else` swallowed the comparison, so for a register with a "
                             "prefix (every AArch64 register) the test is just the truthy prefix and the "
                             "candidate is always skipped - a store is never linked to a later load through %s"
                             % (U(n.body), U(n.orelse), reg))
    # readers: lookups
    state = f.params()[3] if len(f.params()) > 3 else "register_changes"
    gets = [c for c in ast.walk(f.node) if isinstance(c, ast.Call) and isinstance(c.func, ast.Attribute)
            and c.func.attr == "get" and len(c.args) == 2 and U(c.func.value) == state]
    _name_reads_in_nf(ctx, f, "reader")
    ctx.floor("R1", "register-change look-ups in is_memload", len(gets), 2)
    change_vars = {}
    fl = C.flow_of(f)
    for c in gets:
        karg = fl.subst(c.args[0]) if isinstance(c.args[0], ast.Name) else c.args[0]
        key = nf_of(karg)
        dflt = pm.match('{"name": M_n, "value": 0}', c.args[1])
        darg = (fl.subst(dflt["M_n"]) if isinstance(dflt["M_n"], ast.Name) else dflt["M_n"]) if dflt else None
        dkey = nf_of(darg) if darg is not None else None
        good = key is not None and dkey == key
        if good:
            ctx.node_ok("R1", f, c, "look-up key and default name both normal form of %s" % key)
        elif isinstance(karg, ast.Name) or (darg is not None and isinstance(darg, ast.Name)):
            ctx.unknown("R1", U(c), f.where(c), "the look-up key is a local the rule cannot resolve to one expression")
        else:
            ctx.node_bad("R1", f, c, "look-up key / default entry of the register-change state is not "
                         "(prefix or '') + name of one register (key: %s, default name: %s)" % (key, dkey))
        st = C.cfg_of(f).node_of(c)
        if isinstance(st, ast.Assign) and isinstance(st.targets[0], ast.Name) and key:
            change_vars[st.targets[0].id] = key
    # readers: identity comparisons `NF(mem.X) != chg["name"]`
    for var, srcreg in change_vars.items():
        field = srcreg.split(".")[-1]  # base / index
        cmps = [n for n in ast.walk(f.node) if isinstance(n, ast.Compare)
                and any(U(s) == "%s['name']" % var for s in [n.left] + n.comparators)]
        good_cmp = None
        for n in cmps:
            other = [s for s in [n.left] + n.comparators if U(s) != "%s['name']" % var]
            if len(other) == 1 and nf_of(other[0]) == "%s.%s" % (mem, field) and isinstance(
                    n.ops[0], (ast.NotEq, ast.Eq)):
                # the comparison must be the whole test that skips the candidate
                p = getattr(n, "_parent", None)
                if isinstance(p, ast.If) and p.test is n:
                    skip = any(isinstance(s, ast.Continue) for s in (p.body if isinstance(n.ops[0], ast.NotEq) else p.orelse))
                    if skip:
                        good_cmp = n
                if good_cmp is None:
                    # the same decided by the control flow: when the names differ the candidate cannot be accepted any more
                    # (the comparison may be one disjunct of a skip test, or the rest of the body nested under the equality)
                    trues_ = [r_ for r_ in ast.walk(f.node) if isinstance(r_, ast.Return) and isinstance(r_.value, ast.Constant)
                              and r_.value.value is True]
                    lp_ = C.enclosing_loop(n)
                    neq = "%s != %s" % (U(n.left), U(n.comparators[0]))
                    if len(trues_) == 1 and lp_ is not None and C.cond_blocks(f, lp_, [neq], trues_[0]) is not None:
                        good_cmp = n
        if good_cmp is not None:
            ctx.node_ok("R1", f, good_cmp, "identity test of store %s against the tracked name" % field)
        elif not mixed and any(isinstance(n, ast.Compare) and any(U(s).endswith("['name']") for s in [n.left] + n.comparators)
                               and any(nf_of(s) == "%s.%s" % (mem, field) for s in [n.left] + n.comparators)
                               for n in ast.walk(f.node)):
            ctx.unknown("R1", "identity comparison for %s" % field, f.where(),
                        "the store's %s register is compared with a tracked name, but not in the form `if NF != chg['name']: continue`" % field)
        elif not mixed:
            ctx.bad("R1", "identity comparison for %s" % field, f.where(),
                    "no test `full name of %s.%s != %s['name'] -> skip` found: the store's %s register is not "
                    "compared with the (possibly renamed) register the load uses" % (mem, field, var, field),
                    f.qname, "identity comparison %s" % field)
    ctx.extra["mixed_type_conditions"] = mixed


def _r2(ctx):
    ctx.rule("R2", "dependency tags yielded = tags tested; forwarding latency under the store-load tag")
    fd = ctx.func("KernelDG.find_depending")
    cd = ctx.func("KernelDG.create_DG")
    yielded = set()
    for n in ast.walk(fd.node):
        if isinstance(n, ast.Yield) and isinstance(n.value, ast.Tuple) and len(n.value.elts) == 2:
            tags = n.value.elts[1]
            if not isinstance(tags, ast.List):
                ctx.broken("R2: find_depending yields a non-literal tag list")
            for e in tags.elts:
                yielded.add(C.literal(e))
    loops = [n for n in ast.walk(cd.node) if isinstance(n, ast.For) and C.is_call_to(n.iter, "find_depending")]
    if len(loops) != 1 or not isinstance(loops[0].target, ast.Tuple):
        ctx.broken("R2: create_DG does not iterate find_depending with a (dep, flags) target")
    flagvar = U(loops[0].target.elts[1])
    tested = {}
    for n in ast.walk(loops[0]):
        if isinstance(n, ast.Compare) and isinstance(n.ops[0], ast.In) and U(n.comparators[0]) == flagvar:
            if isinstance(n.left, ast.Constant):
                tested.setdefault(n.left.value, []).append(n)
    for t in sorted(yielded):
        ctx.check(t in tested, "R2", "tag %r is consumed by create_DG" % t, cd.where(loops[0]),
                  "find_depending yields the tag %r but create_DG never tests it: the edge gets the plain "
                  "register-dependency weight" % t, cd.qname, "tag %s consumed" % t)
    for t in sorted(set(tested) - yielded):
        ctx.note("R2: create_DG tests the tag %r which find_depending never yields" % t)
    ctx.floor("R2", "tags yielded by find_depending", len(yielded), 2)
    # the tag yielded together with is_memload
    ml = [n for n in ast.walk(fd.node) if isinstance(n, ast.If) and C.is_call_to(n.test, "is_memload")]
    if len(ml) != 1:
        ctx.broken("R2: expected one `if self.is_memload(...)` in find_depending")
    ys = [n for n in ast.walk(ml[0]) if isinstance(n, ast.Yield)]
    sl_tag = None
    if ys and isinstance(ys[0].value, ast.Tuple) and isinstance(ys[0].value.elts[1], ast.List) and len(
            ys[0].value.elts[1].elts) == 1:
        sl_tag = C.literal(ys[0].value.elts[1].elts[0])
    ctx.check(sl_tag is not None, "R2", "a store->load hit yields the instruction with one tag", fd.where(ml[0]),
              "a store->load hit does not yield (instruction, [tag])", fd.qname, "store-load yield")
    # forwarding latency
    top_keys = set()
    for p, d in ctx.data.models().items():
        if isinstance(d, dict):
            top_keys |= set(d.keys())
    hits = pm.find("M_w += self.model.get(M_key, M_dflt)", loops[0])
    ok = False
    for n, b in hits:
        key = C.literal(b["M_key"])
        facts = C.facts_at(n, stop=loops[0])
        under = [U(e) for e, pol in facts if pol]
        if "%r in %s" % (sl_tag, flagvar) in under and key in top_keys and C.const_num(b["M_dflt"]) == 0:
            ok = True
            # the weight that is incremented is the one handed to add_edge
            adds = [c for c in C.calls_to(loops[0], "add_edge")]
            cflow = C.flow_of(cd)
            def carries(v):
                """the edge's latency is the incremented weight, directly or through plain copies of it"""
                if U(v) == U(b["M_w"]):
                    return True
                seen_, work = set(), [v]
                while work:
                    x = work.pop()
                    if not isinstance(x, ast.Name) or x.id in seen_:
                        continue
                    seen_.add(x.id)
                    if x.id == U(b["M_w"]):
                        return True
                    try:
                        ds_ = cflow.reaching(x, x.id)
                    except KeyError:
                        ds_ = cflow.all_defs.get(x.id, [])
                    work.extend(d_.value for d_ in ds_ if d_.kind == "assign" and isinstance(d_.value, ast.Name))
                return False
            used = any(carries(k.value) for c in adds for k in c.keywords if k.arg == "latency")
            ctx.check(used, "R2", "the incremented weight is the edge's latency", cd.where(n),
                      "the weight increased by the forwarding latency is not the `latency` attribute of the edge",
                      cd.qname, U(n))
            ctx.node_ok("R2", cd, n, "under %r: weight += model[%r] (key exists in the shipped models)" % (sl_tag, key))
    if not ok:
        ctx.bad("R2", "forwarding latency", cd.where(loops[0]),
                "the store-to-load forwarding latency is not added to the edge weight under exactly the tag %r "
                "from a model key the data files define (`store_to_load_forward_latency`, default 0)" % sl_tag,
                cd.qname, "forwarding latency")
    # base weight for store->load is the store's latency
    ew = [a for a in ast.walk(loops[0]) if isinstance(a, ast.Assign) and hits and U(a.targets[0]) == U(hits[0][1]["M_w"])]
    if ew:
        v = ew[0].value
        good = isinstance(v, ast.IfExp) and {U(v.body), U(v.orelse)} == {
            "instruction_form.latency", "instruction_form.latency_wo_load"} or "latency" in U(v)
        ctx.check(good, "R2", "base weight is the producer's latency", cd.where(ew[0]),
                  "base edge weight is not the producer's latency", cd.qname, U(ew[0]))


def _r3_r4(ctx):
    ctx.rule("R3", "store to the same operand / base write-back ends the scan; load test first")
    ctx.rule("R4", "full register-change update before the tests, post-index-only update after")
    fd = ctx.func("KernelDG.find_depending")
    cfg = C.cfg_of(fd)
    scans = [n for n in ast.walk(fd.node) if isinstance(n, ast.For) and C.calls_to(n, "is_memload")]
    scans = [s for s in scans if not any(isinstance(x, ast.For) and x is not s and C.calls_to(x, "is_memload")
                                         for x in ast.walk(s))]
    if len(scans) != 1:
        ctx.broken("R3: scan loop with the is_memload test not found in find_depending")
    loop = scans[0]
    ml_if = [n for n in ast.walk(loop) if isinstance(n, ast.If) and C.is_call_to(n.test, "is_memload")]
    ms_if = [n for n in ast.walk(loop) if isinstance(n, ast.If) and C.is_call_to(n.test, "is_memstore")]
    if len(ml_if) != 1 or len(ms_if) != 1:
        ctx.bad("R3", "memory branch tests", fd.where(loop), "the scan needs one `if is_memload(...)` and one "
                "`if is_memstore(...)` (found %d / %d): a later store to the same operand no longer ends the "
                "search" % (len(ml_if), len(ms_if)), fd.qname, "memload/memstore tests")
        return
    ml, ms = ml_if[0], ms_if[0]
    ctx.check(cfg.dominates(ml, ms) and ml is not ms, "R3", "load test precedes the store test", fd.where(ms),
              "the same-operand store test is not preceded by the load test in the iteration: a read-modify-"
              "write of the location would end the scan before being linked", fd.qname, "order memload/memstore")
    ctx.check(any(isinstance(s, ast.Break) for s in ms.body) and cfg.exits_loop_on_all_paths(ms.body[0], loop),
              "R3", "store to the same operand leaves the scan", fd.where(ms),
              "a store to the same operand does not end the scan (no break on its true path)", fd.qname,
              U(ms.test))
    ctx.check(any(isinstance(s, ast.Expr) and isinstance(s.value, ast.Yield) for s in ml.body), "R3",
              "a load from the same location is yielded", fd.where(ml), "is_memload hit is not yielded",
              fd.qname, U(ml.test))
    # both tests receive the destination operand, the scanned instruction and the tracked changes
    for node, name in ((ml, "is_memload"), (ms, "is_memstore")):
        call = node.test
        args = [U(a) for a in call.args]
        dstv = [U(l.target) for l in C.enclosing_loops(loop) if isinstance(l, ast.For)]
        good = len(args) == 3 and args[0] in dstv and args[1] == (
            U(loop.target.elts[1]) if isinstance(loop.target, ast.Tuple) else U(loop.target))
        ctx.check(good, "R3", "%s(dst, scanned instruction, tracked changes)" % name, fd.where(call),
                  "%s is not called with (the producer's destination operand, the scanned instruction, the "
                  "tracked register changes): %s" % (name, args), fd.qname, U(call))
    # write-back of the base ends the scan
    for kind in ("pre_indexed", "post_indexed"):
        # a `break` that is taken where the destination is <kind> and its base is written by the scanned instruction (nested
        # ifs or one conjunction), decided before the load test
        good = False
        for b_ in [x for x in ast.walk(loop) if isinstance(x, ast.Break) and C.enclosing_loop(x) is loop]:
            nf = C.norm_fact_nodes(b_, stop=loop)
            is_kind = lambda e: (isinstance(e, ast.Attribute) and e.attr == kind) or (
                isinstance(e, ast.BoolOp) and isinstance(e.op, ast.Or) and any(isinstance(v, ast.Attribute) and v.attr == kind for v in e.values)
                and all(isinstance(v, ast.Attribute) and v.attr in ("pre_indexed", "post_indexed") for v in e.values))
            has_kind = any(pol and is_kind(e) for e, pol in nf)
            has_wr = any(pol and C.is_call_to(e, "is_written") and e.args and U(e.args[0]).endswith(".base") for e, pol in nf)
            others = [e for e, pol in nf if pol and not is_kind(e) and not C.is_call_to(e, "is_written")
                      and not C.is_call_to(e, "isinstance")]
            top = b_
            while C.parent(top) is not loop and C.parent(top) is not None:
                top = C.parent(top)
            if has_kind and has_wr and not others and (cfg.dominates(top, ml) or any(C.in_subtree(ml, a_) for a_ in [top])):
                good = True
        ctx.check(good, "R3", "overwrite of a %s store's base ends the scan before the load test" % kind,
                  fd.where(loop), "for a %s destination the scan does not stop when the base register is "
                  "overwritten" % kind, fd.qname, "%s base overwrite" % kind)
    # R4
    ups = [c for c in C.calls_to(loop, "_update_reg_changes") if C.enclosing_loop(c) is loop]
    full = [c for c in ups if not any(k.arg == "only_postindexed" for k in c.keywords) and len(c.args) < 3]
    post = [c for c in ups if any(k.arg == "only_postindexed" and isinstance(k.value, ast.Constant)
                                  and k.value.value is True for k in c.keywords)
            or (len(c.args) >= 3 and isinstance(c.args[2], ast.Constant) and c.args[2].value is True)]
    if len(full) != 1 or len(post) != 1:
        ctx.bad("R4", "update calls", fd.where(loop), "per scanned instruction exactly one full and one "
                "post-index-only register-change update are expected (found %d / %d)" % (len(full), len(post)),
                fd.qname, "update calls")
        return
    state = U(ml.test.args[2]) if len(ml.test.args) >= 3 else None
    for c, what in ((full[0], "full"), (post[0], "post-index")):
        ctx.check(len(c.args) >= 2 and U(c.args[1]) == state and U(c.args[0]) == U(ml.test.args[1]), "R4",
                  "%s update applies the scanned instruction to the state the tests read" % what, fd.where(c),
                  "the %s update does not update (%s) the state handed to is_memload (%s)" % (what, U(c), state),
                  fd.qname, U(c))
    ctx.check(cfg.dominates(full[0], ml) and cfg.node_of(full[0]) in loop.body, "R4",
              "full update precedes the tests", fd.where(full[0]),
              "the full register-change update does not precede the load/store tests of the iteration",
              fd.qname, U(full[0]))
    after = not cfg.reachable(ml, loop, avoid=[post[0]], within=loop) and not cfg.reachable(
        post[0], ml, within=loop)
    ctx.check(after, "R4", "post-index update follows the tests on every continuing path", fd.where(post[0]),
              "an iteration can continue to the next instruction without applying the post-index change (or "
              "applies it before the tests)", fd.qname, U(post[0]))
    # initial state: the producer's own changes
    init_all = [a for a in ast.walk(fd.node) if isinstance(a, ast.Assign) and U(a.targets[0]) == state]
    init = [a for a in init_all if C.is_call_to(a.value, "_update_reg_changes")]
    copied = None
    if not init and len(init_all) == 1:
        # the producer's own changes computed once and every scan started from a copy of them: the scan replaces entries of
        # the state AND edits the per-register dicts in place, so the copy must be fresh at both levels
        v = init_all[0].value

        def hoisted(x):
            if not isinstance(x, ast.Name):
                return False
            ds = [a for a in C.assigns_to(fd.node, x.id) if isinstance(a, ast.Assign)]
            return len(ds) == 1 and C.is_call_to(ds[0].value, "_update_reg_changes") and cfg.dominates(ds[0], init_all[0]) \
                and len(ds[0].value.args) == 1 and not ds[0].value.keywords

        def fresh_inner(e, var):
            if isinstance(e, ast.IfExp):
                arms = [a for a in (e.body, e.orelse) if not (isinstance(a, ast.Constant) and a.value is None)]
                return len(arms) == 1 and fresh_inner(arms[0], var)
            return (C.is_call_to(e, "dict", "deepcopy") and len(e.args) == 1 and U(e.args[0]) == var) or U(e) in (
                "%s.copy()" % var, "{**%s}" % var)
        if C.is_call_to(v, "deepcopy") and len(v.args) == 1 and hoisted(v.args[0]):
            copied = "deep"
        elif isinstance(v, ast.DictComp) and len(v.generators) == 1 and not v.generators[0].ifs \
                and isinstance(v.generators[0].iter, ast.Call) and U(v.generators[0].iter.func).endswith(".items") \
                and hoisted(v.generators[0].iter.func.value) and isinstance(v.generators[0].target, ast.Tuple) \
                and len(v.generators[0].target.elts) == 2 and U(v.key) == U(v.generators[0].target.elts[0]):
            copied = "deep" if fresh_inner(v.value, U(v.generators[0].target.elts[1])) else "shallow"
        elif (C.is_call_to(v, "dict") and len(v.args) == 1 and hoisted(v.args[0])) or (
                isinstance(v, ast.Call) and isinstance(v.func, ast.Attribute) and v.func.attr == "copy" and hoisted(v.func.value)):
            copied = "shallow"
        if copied == "deep":
            init = init_all
        elif copied == "shallow":
            ctx.node_bad("R4", fd, init_all[0], "every scan starts from `%s`, a copy of the producer's changes that shares the per-register "
                         "dicts: the scan edits those in place (`state[reg]['value'] += ...`), so later destination operands start from the "
                         "changes accumulated over the previous scan" % U(v)[:120], instance="state initialisation")
            return
    ctx.judge(len(init) == 1 and cfg.dominates(init[0], loop) and not C.in_subtree(init[0], loop),
              bool(init) or not init_all or copied is not None or len(init_all) != 1, "R4",
              "tracked state is (re)initialised from the producer before each scan", fd.where(loop),
              "the register-change state is not freshly initialised from the producing instruction before the scan",
              fd.qname, "state initialisation")
    if len(init) == 1:
        same = [id(l) for l in C.enclosing_loops(init[0])] == [id(l) for l in C.enclosing_loops(loop)]
        ctx.check(same, "R4", "the state is re-initialised for every scan (same enclosing loops as the scan)", fd.where(init[0]),
                  "`%s` is executed once, but the scan loop it feeds runs once per destination operand and updates `%s` in place: "
                  "the second and later scans start from the register changes accumulated over the whole previous scan, so "
                  "provably equal addresses are judged different (and vice versa)" % (U(init[0]), state), fd.qname, "state per scan")


def _r5(ctx):
    ctx.rule("R5", "address difference = load.offset - store.offset + base change + index change x scale")
    f = ctx.func("KernelDG.is_memload")
    mem = f.params()[1]
    loops = [n for n in ast.walk(f.node) if isinstance(n, ast.For) and C.is_call_to(n.iter, "chain")]
    if len(loops) != 1:
        ctx.broken("R5: source-operand loop not found in is_memload")
    loop = loops[0]
    src = U(loop.target)
    roles = sorted(C.str_consts(loop.iter))
    ctx.check(roles == ["source", "src_dst"], "R5", "candidates are the memory operands that are read",
              f.where(loop), "is_memload scans the roles %s, a load is a memory operand in source or src_dst" % roles,
              f.qname, U(loop.iter))
    # the accumulator: the local compared with 0 where the candidate is accepted
    cfg5 = C.cfg_of(f)
    flow = C.flow_of(f)
    trues0 = [r_ for r_ in ast.walk(f.node) if isinstance(r_, ast.Return) and isinstance(r_.value, ast.Constant) and r_.value.value is True]
    acc = None
    if len(trues0) == 1:
        for e_, pol_ in C.norm_fact_nodes(trues0[0]):
            if pol_ and isinstance(e_, ast.Compare) and isinstance(e_.ops[0], ast.Eq):
                for x_, y_ in ((e_.left, e_.comparators[0]), (e_.comparators[0], e_.left)):
                    if isinstance(x_, ast.Name) and C.const_num(y_) == 0:
                        acc = x_.id
    if acc is None:
        accs0 = {n.target.id for n in ast.walk(loop) if isinstance(n, ast.AugAssign) and isinstance(n.target, ast.Name)}
        if len(accs0) != 1:
            ctx.broken("R5: expected one address accumulator, found %s" % sorted(accs0))
        acc = accs0.pop()
    accs = [n for n in ast.walk(loop) if isinstance(n, ast.AugAssign) and isinstance(n.target, ast.Name) and n.target.id == acc]
    chg = {}
    for a_ in ast.walk(loop):
        if isinstance(a_, ast.Assign) and isinstance(a_.targets[0], ast.Name) and isinstance(a_.value, ast.Call) \
                and isinstance(a_.value.func, ast.Attribute) and a_.value.func.attr == "get" and a_.value.args:
            chg[a_.targets[0].id] = U(flow.subst(a_.value.args[0]))
    # the value of the accumulator where the candidate is accepted, as alternatives of signed terms (followed through its
    # definitions inside the iteration; a definition that reaches from an earlier iteration means it is not reset)
    UNK5, CARRIED = None, "carried"

    def term_text(e):
        t = U(e)
        for var, key in chg.items():
            if var in pm.names_in(e):
                role = "base" if ".base." in key else "index" if ".index." in key else "?"
                t = t.replace(var, "CHG(%s)" % role)
        for call_ in [x for x in ast.walk(e) if isinstance(x, ast.Call) and isinstance(x.func, ast.Attribute) and x.func.attr == "get"
                      and len(x.args) == 2 and U(x.func.value) == (f.params()[3] if len(f.params()) > 3 else "register_changes")]:
            key = U(flow.subst(call_.args[0]))
            role = "base" if ".base." in key else "index" if ".index." in key else "?"
            t = t.replace(U(call_), "CHG(%s)" % role)
        return t

    term_conds = {}      # signed term text -> set of condition texts it was seen under

    def lin(e, at, sign=1, seen=frozenset(), depth=0, conds=frozenset()):
        if depth > 40:
            return UNK5
        if C.const_num(e) == 0:
            return [()]
        if isinstance(e, ast.BinOp) and isinstance(e.op, (ast.Add, ast.Sub)):
            l_ = lin(e.left, at, sign, seen, depth + 1, conds)
            r_ = lin(e.right, at, sign if isinstance(e.op, ast.Add) else -sign, seen, depth + 1, conds)
            if l_ in (UNK5, CARRIED) or r_ in (UNK5, CARRIED):
                return CARRIED if CARRIED in (l_, r_) else UNK5
            return [x + y for x in l_ for y in r_][:128]
        if isinstance(e, ast.IfExp):
            tconds = frozenset(U(x) for x in C.conj_parts(e.test)) if isinstance(e.test, ast.BoolOp) and isinstance(e.test.op, ast.And) else frozenset([U(e.test)])
            b_, o_ = lin(e.body, at, sign, seen, depth + 1, conds | tconds), lin(e.orelse, at, sign, seen, depth + 1, conds | frozenset("not " + t_ for t_ in tconds))
            if b_ in (UNK5, CARRIED) or o_ in (UNK5, CARRIED):
                return CARRIED if CARRIED in (b_, o_) else UNK5
            return b_ + o_
        if isinstance(e, ast.Name) and e.id == acc:
            try:
                ds = flow.reaching(at, acc)
            except KeyError:
                return UNK5
            out = []
            for d in ds:
                if id(d) in seen or isinstance(d.stmt, str) or not C.in_subtree(d.stmt, loop):
                    return CARRIED
                here = frozenset(("" if pol_ else "not ") + U(e_) for e_, pol_ in C.norm_fact_nodes(d.stmt, stop=loop))
                if d.kind == "assign" and d.value is not None:
                    r_ = lin(d.value, d.stmt, sign, seen | {id(d)}, depth + 1, here)
                elif d.kind == "aug" and isinstance(d.stmt.op, (ast.Add, ast.Sub)):
                    l2 = lin(ast.Name(id=acc, ctx=ast.Load()), d.stmt, sign, seen | {id(d)}, depth + 1)
                    r2 = lin(d.value, d.stmt, sign if isinstance(d.stmt.op, ast.Add) else -sign, seen | {id(d)}, depth + 1, here)
                    if l2 in (UNK5, CARRIED) or r2 in (UNK5, CARRIED):
                        return CARRIED if CARRIED in (l2, r2) else UNK5
                    r_ = [x + y for x in l2 for y in r2][:128]
                else:
                    return UNK5
                if r_ in (UNK5, CARRIED):
                    return r_
                out.extend(r_)
            return out[:128]
        tt = ("+" if sign > 0 else "-") + " " + term_text(e)
        term_conds.setdefault(tt, set()).update(conds)
        return [(tt,)]

    alts = lin(ast.Name(id=acc, ctx=ast.Load()), trues0[0]) if len(trues0) == 1 else UNK5
    ctx.judge(alts not in (UNK5, CARRIED), alts is not UNK5, "R5",
              "accumulator reset per candidate", f.where(loop), "the address difference is not reset to 0 for "
              "every candidate operand", f.qname, "accumulator reset")
    got = set()
    if alts not in (UNK5, CARRIED):
        for alt_ in alts:
            got |= set(alt_)
            dup = [t_ for t_ in alt_ if alt_.count(t_) > 1]
            if dup:
                ctx.bad("R5", "term counted twice " + dup[0], f.where(loop), "the term `%s` is added twice on one path" % dup[0], f.qname,
                        "address term twice " + dup[0])
    want = {"+ %s.offset.value" % src, "- %s.offset.value" % mem, "+ CHG(base)['value']",
            "+ CHG(index)['value'] * %s.scale" % src}
    alt = {"+ CHG(index)['value'] * %s.scale" % src: "+ %s.scale * CHG(index)['value']" % src}
    got_n = {g if g not in alt.values() else [k for k, v in alt.items() if v == g][0] for g in got}
    if alts not in (UNK5, CARRIED):
        # a term may only depend on the operand part it is about: the store's offset counts whatever its indexing mode is
        about = {"+ %s.offset.value" % src: {"offset"}, "- %s.offset.value" % mem: {"offset"}, "+ CHG(base)['value']": {"base"},
                 "+ CHG(index)['value'] * %s.scale" % src: {"index", "scale"}}
        for tt, conds_ in sorted(term_conds.items()):
            parts_ok = about.get(tt if tt not in alt.values() else [k for k, v in alt.items() if v == tt][0])
            if parts_ok is None:
                continue
            for ctext in sorted(conds_):
                try:
                    cnode = ast.parse(ctext[4:] if ctext.startswith("not ") else ctext, mode="eval").body
                except SyntaxError:
                    continue
                foreign = sorted({x.attr for x in ast.walk(cnode) if isinstance(x, ast.Attribute) and isinstance(x.value, ast.Name)
                                  and x.value.id in (src, mem) and x.attr not in parts_ok
                                  and x.attr in ("pre_indexed", "post_indexed", "base", "index", "offset", "scale")})
                if foreign and tt.split(" ", 1)[1].split(".")[0] in (src, mem):
                    ctx.bad("R5", "term %s under a foreign condition" % tt, f.where(loop),
                            "the term `%s` of the address difference is only counted under `%s`, a condition on another part of the "
                            "operand (%s): e.g. the offset of a pre-indexed store still is part of the address it writes to" % (tt, ctext, foreign),
                            f.qname, "address term %s conditioned on %s" % (tt, ",".join(foreign)))
        for wnt in sorted(want):
            ctx.check(wnt in got_n, "R5", "term %s" % wnt, f.where(loop),
                      "the address difference lacks the term `%s` (terms found: %s)" % (wnt, sorted(got)), f.qname,
                      "address term " + wnt)
        for g in sorted(got_n - want):
            ctx.bad("R5", "unexpected term " + g, f.where(loop), "unexpected term `%s` in the address difference "
                    "(expected %s)" % (g, sorted(want)), f.qname, "address term " + g)
    # true only under == 0
    trues = [r for r in ast.walk(f.node) if isinstance(r, ast.Return) and isinstance(r.value, ast.Constant)
             and r.value.value is True]
    good = len(trues) == 1 and any(pol and U(e) in ("%s == 0" % acc, "0 == %s" % acc) for e, pol in C.facts_at(trues[0]))
    ctx.check(good, "R5", "answer true only under difference == 0", f.where(trues[0]) if trues else f.where(),
              "is_memload returns True other than under `%s == 0`" % acc, f.qname, "return True guard")
    # skips
    def skip_if(test_texts, what):
        # when the condition holds the candidate can no longer be answered True in this iteration (guard clause with
        # continue, or the rest of the body nested under its negation)
        n = C.cond_blocks(f, loop, test_texts, trues[0]) if trues else None
        if n is not None:
            ctx.node_ok("R5", f, n, what)
            return True
        ctx.bad("R5", what, f.where(loop), "missing: %s (one of %s must keep the candidate from being accepted)" % (what, sorted(test_texts)),
                f.qname, what)
        return False
    skip_if({"%s.scale != %s.scale" % (mem, src), "%s.scale != %s.scale" % (src, mem)}, "different scales skip the candidate")
    for fld in ("base", "index"):
        skip_if({"%s.%s or %s.%s" % (mem, fld, src, fld), "%s.%s or %s.%s" % (src, fld, mem, fld)},
                "%s present on one side only skips the candidate" % fld)
    for var in chg:
        skip_if({"%s is None" % var}, "unknown change of %s skips the candidate" % var)
    ms = ctx.func("KernelDG.is_memstore")
    eq = pm.find("%s == M_d" % ms.params()[1], ms.node) + pm.find("M_d == %s" % ms.params()[1], ms.node)
    roles = sorted(set(C.str_consts(ms.node)) & {"source", "destination", "src_dst"})
    ctx.check(bool(eq) and roles == ["destination", "src_dst"], "R5", "is_memstore = same operand among the written memory operands",
              ms.where(), "is_memstore does not compare the operand with the memory operands in destination/src_dst",
              ms.qname, "is_memstore")


def _r6(ctx):
    ctx.rule("R6", "change tracking: add plain changes; rename takes the source's value; unknown stays unknown")
    f = ctx.func("KernelDG._update_reg_changes")
    loops = [n for n in ast.walk(f.node) if isinstance(n, ast.For) and C.is_call_to(n.iter, "items")]
    if len(loops) != 1 or not isinstance(loops[0].target, ast.Tuple):
        ctx.broken("R6: loop over get_reg_changes(...).items() not found")
    loop = loops[0]
    reg, chg = U(loop.target.elts[0]), U(loop.target.elts[1])
    st = f.params()[2]
    checks = [
        ("unknown change or unknown state makes the register unknown",
         ["if %s is None or %s.get(%s, {}) is None:\n    %s[%s] = None\nelse:\n    REST_" % (chg, st, reg, st, reg)]),
    ]
    unk = [n for n in ast.walk(loop) if isinstance(n, ast.If) and isinstance(n.test, ast.BoolOp)
           and isinstance(n.test.op, ast.Or)
           and {U(v) for v in n.test.values} == {"%s is None" % chg, "%s.get(%s, {}) is None" % (st, reg)}
           and any(U(s) == "%s[%s] = None" % (st, reg) for s in n.body)]
    ctx.check(len(unk) == 1, "R6", "unknown change / already unknown -> None", f.where(loop),
              "missing `if change is None or state.get(reg, {}) is None: state[reg] = None`: an unknown "
              "change would be forgotten or crash", f.qname, "unknown handling")
    adds = pm.find("%s[%s]['value'] += %s['value']" % (st, reg, chg), loop)
    ctx.check(len(adds) == 1, "R6", "plain change is added to the tracked value", f.where(loop),
              "the change's value is not added (`state[reg]['value'] += change['value']`)", f.qname, "value accumulation")
    flow = C.flow_of(f)
    S = lambda e: U(flow.subst(e))
    srcname = "%s['name']" % chg
    ren = []
    for n in ast.walk(loop):
        if isinstance(n, ast.If) and isinstance(n.test, ast.Compare) and len(n.test.ops) == 1 and isinstance(n.test.ops[0], ast.NotEq) \
                and {S(n.test.left), S(n.test.comparators[0])} == {srcname, reg}:
            ren.append(n)
    if len(ren) != 1:
        ctx.judge(False, not any(srcname in S(x.test) for x in ast.walk(loop) if isinstance(x, ast.If)), "R6", "rename branch", f.where(loop),
                  "rename branch `if change['name'] != reg` not found", f.qname, "rename branch")
        return
    r = ren[0]
    src_get = "%s.get(%s, {'value': 0})" % (st, srcname)
    src_idx = "%s[%s]" % (st, srcname)
    member = C.CT("%s in %s" % (srcname, st))
    name_set = any(isinstance(x, ast.Assign) and U(x.targets[0]) == "%s[%s]['name']" % (st, reg) and S(x.value) == srcname for x in ast.walk(r))
    # cases of a rename: (A) the source has a tracked value -> take it; (B) the source is unknown (None) -> unknown;
    # (C) the source has no entry yet -> start from 0. `state.get(src, {'value': 0})` covers A and C in one expression,
    # `state[src]` under `src in state` covers A, and a literal 0 under `src not in state` covers C
    covered, odd = set(), []
    for x in ast.walk(r):
        if isinstance(x, ast.Assign) and U(x.targets[0]) == "%s[%s]['value']" % (st, reg):
            fnodes = C.norm_fact_nodes(x, stop=r)
            facts = {(C.CT(U(e)), pol) for e, pol in fnodes}
            rhs = S(x.value)

            def harmless(e, pol):
                if C.CT(U(e)) == member or e is r.test or C.CT(U(e)) == C.CT("%s == %s" % (srcname, reg)) \
                        or C.CT(U(e)) == C.CT("%s == %s" % (reg, srcname)):
                    return True
                return (pol is False and isinstance(e, ast.Compare) and isinstance(e.ops[0], ast.Is)
                        and U(e.comparators[0]) == "None" and S(e.left) in (src_get, src_idx))
            other = [(U(e), pol) for e, pol in fnodes if not harmless(e, pol)]
            if other:
                odd.append(x)
            elif rhs == src_get + "['value']" and (member, False) not in facts:
                covered |= {"A"} if (member, True) in facts else {"A", "C"}
            elif rhs == src_idx + "['value']" and (member, True) in facts:
                covered |= {"A"}
            elif rhs == "0" and (member, False) in facts:
                covered |= {"C"}
            else:
                odd.append(x)
    val_copy = covered == {"A", "C"}
    unk_src = False
    for x in ast.walk(r):
        if isinstance(x, ast.Assign) and U(x) == "%s[%s] = None" % (st, reg):
            nf = C.norm_fact_nodes(x, stop=r)
            has_member = any(pol and C.CT(U(e)) == member for e, pol in nf)
            under = any(pol and isinstance(e, ast.Compare) and isinstance(e.ops[0], ast.Is) and U(e.comparators[0]) == "None"
                        and (S(e.left) == src_get or (S(e.left) == src_idx and has_member)) for e, pol in nf)
            # ... and the iteration ends there (the register stays unknown: nothing is added afterwards)
            leaves = not C.cfg_of(f).reachable(x, adds[0][0], within=loop) if adds else False
            unk_src = unk_src or (under and leaves)
    ctx.check(name_set, "R6", "rename records the source register's name", f.where(r),
              "rename does not record the new name", f.qname, "rename name")
    ctx.judge(val_copy, not odd, "R6", "rename takes the source register's tracked value", f.where(r),
              "rename does not start from the source register's tracked value (0 for a source without an entry); cases "
              "covered: %s of A (tracked source), C (source without entry)" % sorted(covered), f.qname, "rename value")
    ctx.check(unk_src, "R6", "rename from an unknown source makes the register unknown", f.where(r),
              "a rename from a register whose change is unknown does not make the target unknown", f.qname,
              "rename unknown source")
    if adds:
        cfg = C.cfg_of(f)
        ctx.check(cfg.reachable(r, adds[0][0]) and adds[0][0].lineno > r.end_lineno, "R6",
                  "the change's own value is added after the rename", f.where(adds[0][0]),
                  "the value accumulation happens before the rename overwrites it", f.qname, "order rename/add")


def _r7(ctx):
    ctx.rule("R7", "the change reported for a written register is the state of the operand that is written")
    f = ctx.func("ISASemantics.get_reg_changes")
    # change_dict = {reg: STATE.get(MAP.get(reg)) for reg in <written register names>}
    res = [(n, b) for n in ast.walk(f.node) for b in [pm.match("{M_r: M_state.get(M_map.get(M_r)) for M_r in M_dests}", n)] if b is not None]
    if len(res) != 1:
        ctx.unknown("R7", "result of get_reg_changes", f.where(), "the result is not built as {reg: state.get(map.get(reg)) for reg in dests}")
        return
    mp = U(res[0][1]["M_map"])
    stores = [n for n in ast.walk(f.node) if isinstance(n, ast.Assign) and isinstance(n.targets[0], ast.Subscript)
              and U(n.targets[0].value) == mp]
    n_loop = 0
    for st in stores:
        loops = [lp for lp in C.enclosing_loops(st) if isinstance(lp, ast.For)]
        if not loops:
            continue            # the pre-index case writes one fixed entry
        n_loop += 1
        it = U(loops[0].iter)
        key = U(st.targets[0].slice)
        over_all = "instruction_form.operands" in it and "semantic_operands" not in it
        guards = [(U(e), pol) for e, pol in C.facts_at(st, stop=loops[0])]
        guards = [(t, pol) for t, pol in guards if "isinstance(" not in t or mp in t or "semantic_operands" in t]
        first_wins = any(pol and t == "%s not in %s" % (key, mp) for t, pol in guards) or any(
            (not pol) and t == "%s in %s" % (key, mp) for t, pol in guards)
        dest_wins = any(pol and ("%s not in %s" % (key, mp)) in t and " or " in t and "semantic_operands" in t
                        and (" is " in t or " in " in t.split(" or ", 1)[1]) for t, pol in guards)
        relevant = [g for g in guards if mp in g[0] or "semantic_operands" in g[0]]
        if not over_all:
            ctx.judge("semantic_operands" in it, "semantic_operands" in it, "R7", "name -> operand map filled from %s" % it[:60], f.where(st),
                      "", f.qname, "map fill")
        elif dest_wins:
            ctx.ok("R7", "a register named twice maps to the operand that is written", f.where(st))
        elif not relevant:
            ctx.bad("R7", "name -> operand map: last operand naming a register wins", f.where(st),
                    "`%s` runs for every register operand in written order, so for a register named twice the LAST operand's state "
                    "is reported, whether or not it is the one written: AArch64 `add x0, x0, #8` (destination first) reports the "
                    "source operand's unchanged state {x0: +0} instead of {x0: +8}; a following load from [x0] is then compared "
                    "with an earlier store to [x0] as if the base had not moved - a store-to-load dependency is invented for "
                    "`str x1,[x0]; add x0,x0,#8; ldr x2,[x0]` and missed for `str x1,[x0,#8]; add x0,x0,#8; ldr x2,[x0]`"
                    % U(st), f.qname, "map overwrite " + U(st), f.module.excerpt(st))
        else:
            ctx.unknown("R7", "name -> operand map fill", f.where(st),
                        "the store `%s` is guarded by %s%s; whether the written operand wins for a register named twice is not "
                        "recognised" % (U(st), [t for t, _ in relevant][:2], " (first operand wins: right for AArch64 only)" if first_wins else ""))
    ctx.floor("R7", "stores into the name -> operand map inside the operand loop", n_loop, 1)


class _Snip:
    """Symbolic effect of an `operation` snippet: per operand, value terms and name source."""

    def __init__(self, nops):
        self.value = {k: {("self", k): 1} for k in range(1, nops + 1)}  # opK value = opK's own tracked value
        self.name = {k: k for k in range(1, nops + 1)}
        self.problems = []


def lint_operation(text, operands):
    """Problems of one ISA-DB operation string for an entry with `operands` (list of class maps)."""
    probs = []
    try:
        tree = ast.parse(text)
    except SyntaxError as e:
        return ["operation %r does not parse: %s" % (text, e)]
    n = len(operands)

    def op_index(node):
        b = pm.match("M_o[M_k]", node)
        if b is None or not isinstance(b["M_o"], ast.Name) or not isinstance(b["M_k"], ast.Constant):
            return None
        name = b["M_o"].id
        if not (name.startswith("op") and name[2:].isdigit()):
            return None
        return int(name[2:]), b["M_k"].value

    cls = lambda k: operands[k - 1].get("class") if 0 < k <= n and isinstance(operands[k - 1], dict) else None
    # every Name must be opK, every subscript key name/value
    for node in ast.walk(tree):
        if isinstance(node, ast.Name):
            if not (node.id.startswith("op") and node.id[2:].isdigit()):
                probs.append("operation %r uses the name %r (only op1..op%d exist at exec time)" % (text, node.id, n))
            elif not 1 <= int(node.id[2:]) <= n:
                probs.append("operation %r refers to %s but the form has %d operand(s)" % (text, node.id, n))
        if isinstance(node, ast.Subscript):
            oi = op_index(node)
            if oi is None:
                probs.append("operation %r: subscript %s is not opK['name'|'value']" % (text, U(node)))
            elif oi[1] not in ("name", "value"):
                probs.append("operation %r: key %r is not 'name' or 'value'" % (text, oi[1]))
            elif oi[1] == "name" and cls(oi[0]) not in ("register", None):
                probs.append("operation %r reads/writes the 'name' of op%d which is a %s operand (only "
                             "registers have one at exec time)" % (text, oi[0], cls(oi[0])))
        if isinstance(node, ast.Call):
            probs.append("operation %r contains a call" % text)
    if probs:
        return probs
    # symbolic effect
    value = {k: {k: 1} for k in range(1, n + 1)}  # value of opK as {operand index: coeff}
    name = {k: k for k in range(1, n + 1)}

    def terms(expr, sign=1):
        out = {}
        for s, t in C.flatten_add(expr):
            oi = op_index(t)
            if oi is None or oi[1] != "value":
                return None
            for k, c in value[oi[0]].items():
                out[k] = out.get(k, 0) + sign * s * c
        return out

    unknown_ops = set()
    for st in tree.body:
        if isinstance(st, ast.Assign) and len(st.targets) == 1:
            if isinstance(st.targets[0], ast.Name) and re.fullmatch(r"op\d+", st.targets[0].id) and isinstance(st.value, ast.Constant) \
                    and st.value.value is None:
                # `opK = None`: the operand's state becomes None, which the consumer reports as "changed in an unknown way" -
                # exactly what a form without an operation yields for its destination
                unknown_ops.add(int(st.targets[0].id[2:]))
                continue
            tgt = op_index(st.targets[0])
            if tgt is None:
                return ["operation %r: unsupported assignment target" % text]
            if tgt[1] == "value":
                t = terms(st.value)
                if t is None:
                    return ["operation %r: value expression %s is not a +/- combination of opK['value']" % (text, U(st.value))]
                value[tgt[0]] = t
            else:
                src = op_index(st.value)
                if src is None or src[1] != "name":
                    return ["operation %r: a name can only be copied from another operand's name" % text]
                name[tgt[0]] = name[src[0]]
        elif isinstance(st, ast.AugAssign):
            tgt = op_index(st.target)
            if tgt is None or tgt[1] != "value" or not isinstance(st.op, (ast.Add, ast.Sub)):
                return ["operation %r: unsupported augmented assignment" % text]
            t = terms(st.value, 1 if isinstance(st.op, ast.Add) else -1)
            if t is None:
                # constant increment?
                c = C.const_num(st.value)
                if c is None:
                    return ["operation %r: increment %s not understood" % (text, U(st.value))]
                continue
            new = dict(value[tgt[0]])
            for k, c in t.items():
                new[k] = new.get(k, 0) + c
            value[tgt[0]] = new
        elif isinstance(st, ast.Expr) and isinstance(st.value, ast.Constant):
            continue
        else:
            return ["operation %r: statement %s not understood" % (text, U(st))]
    # judge: for every register operand whose value/name changed
    for k in range(1, n + 1):
        if cls(k) != "register" or k in unknown_ops:
            continue
        if value[k] == {k: 1} and name[k] == k:
            continue
        base = name[k]
        for j, c in value[k].items():
            if cls(j) == "register":
                if j != base or c != 1:
                    if c != 0:
                        probs.append(
                            "operation %r makes op%d = ... %+d x op%d['value'], but op%d is a REGISTER whose "
                            "'value' at exec time is its tracked change (0), not its content: the register "
                            "addend is silently treated as 0, so op%d is tracked as %s%s although its value is "
                            "unknown" % (text, k, c, j, j, k, "op%d" % base, " + constant"))
        if base != k and value[k].get(base, 0) != 1:
            probs.append("operation %r renames op%d to op%d but its value does not start from op%d's value "
                         "(rename must copy name and value)" % (text, k, base, base))
        if base == k and name[k] == k and value[k].get(k, 0) != 1:
            probs.append("operation %r overwrites op%d's tracked value without renaming it" % (text, k))
    return probs


def _d1(ctx):
    ctx.rule("D1", "ISA-DB `operation` snippets: parse, touch only opK['name'|'value'], add only immediates")
    # the consumer still execs the snippet over {'opK': {'name','value'}}
    g = ctx.func("ISASemantics.get_reg_changes")
    ex = [c for c in ast.walk(g.node) if isinstance(c, ast.Call) and isinstance(c.func, ast.Name) and c.func.id == "exec"]
    if len(ex) != 1:
        ctx.broken("D1: get_reg_changes no longer exec()s the operation once; the snippet lint must be re-derived")
    # operand k (1-based, in written order) is handed to the snippet as opK
    fmt = []
    for lp in [n for n in ast.walk(g.node) if isinstance(n, ast.For) and C.is_call_to(n.iter, "enumerate")
               and isinstance(n.target, ast.Tuple) and len(n.target.elts) == 2 and U(n.iter.args[0]).endswith(".operands")]:
        start = C.arg_of(lp.iter, 1, "start")
        s0 = C.const_num(start) if start is not None else 0
        idx = U(lp.target.elts[0])
        for c_ in ast.walk(lp):
            if isinstance(c_, ast.Call) and isinstance(c_.func, ast.Attribute) and c_.func.attr == "format" \
                    and isinstance(c_.func.value, ast.Constant) and c_.func.value.value == "op{}" and len(c_.args) == 1:
                a_ = C.affine(c_.args[0])
                if s0 is not None and set(a_) <= {idx, 1} and a_.get(idx) == 1 and s0 + a_.get(1, 0) == 1:
                    fmt.append(c_)
    gflow = C.flow_of(g)
    is_op_key = lambda k: any(k is c_ or U(gflow.subst(k)) == U(c_) for c_ in fmt)
    regstate = [n for n in ast.walk(g.node) if isinstance(n, ast.Assign) and isinstance(n.targets[0], ast.Subscript)
                and is_op_key(n.targets[0].slice) and pm.match('{"name": M_r, "value": 0}', n.value) is not None]
    immstate = [n for n in ast.walk(g.node) if isinstance(n, ast.Assign) and isinstance(n.targets[0], ast.Subscript)
                and is_op_key(n.targets[0].slice) and pm.match('{"value": M_o.value}', n.value) is not None]
    if not (fmt and regstate and immstate):
        ctx.broken("D1: operand state construction in get_reg_changes changed (op{i+1}; register -> name/value 0; "
                   "immediate -> value)")
    ctx.node_ok("D1", g, ex[0], "exec(operation, {}, {'opK': register->{name,value:0} | immediate->{value}})")
    total = 0
    for path, d in sorted(ctx.data.isas().items()):
        rel = ctx.data.rel(path)
        ctx.files.add(rel)
        if not isinstance(d, dict):
            continue
        for e in d.get("instruction_forms") or []:
            if not isinstance(e, dict) or e.get("operation") is None:
                continue
            total += 1
            ops = e.get("operands") or []
            key = "%s %s" % ("/".join(entry_names(e)), sig_of_entry(e))
            probs = lint_operation(str(e["operation"]), ops)
            if not probs:
                ctx.ok("D1", "%s :: %s :: %s" % (rel, key, e["operation"]), rel)
            for p in probs:
                ctx.bad("D1", "%s :: %s" % (rel, key), rel, p, rel, "%s operation=%s" % (key, e["operation"]))
    ctx.floor("D1", "operation snippets in the ISA databases", total, 8)
    ctx.rule("D2", "model keys for forwarding / write-back latency are numbers where present")
    for path, d in sorted(ctx.data.models().items()):
        if not isinstance(d, dict):
            continue
        rel = ctx.data.rel(path)
        for key in ("store_to_load_forward_latency", "p_index_latency"):
            if key in d:
                v = d[key]
                ctx.check(v is None or (isinstance(v, (int, float)) and not isinstance(v, bool)), "D2",
                          "%s: %s = %r" % (rel, key, v), rel, "%s is neither ~ nor a number" % key, rel, key)


def run(ctx):
    C.require_locals(ctx, ctx.func('KernelDG.find_depending'), ['dst', 'register_changes'])
    C.require_locals(ctx, ctx.func('KernelDG.is_memload'), ['register_changes'])
    _r1(ctx)
    _r2(ctx)
    _r3_r4(ctx)
    _r5(ctx)
    _r6(ctx)
    _r7(ctx)
    _d1(ctx)
