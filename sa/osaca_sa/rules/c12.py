"""C12 - register dependence equals architectural register overlap (tables exact)."""
import ast
import json
import re

from .. import pm
from ..pm import U
from ..report import VERIF
from . import common as C

EXHAUSTIVE = True
TECHNIQUE = "static analysis: literal alias tables / prefix classes / regex extracted from the AST and compared (set and partition equality) with the architectural partition in /verif/spec; guard analysis of every `return True`; case-folding dataflow"
EXPLANATION = (
    "R1 (x86, exact): the literal alias table in ParserX86ATT.is_reg_dependend_of is a partition and "
    "equals the architectural GPR families of spec/x86_regs.json (A, B, C, D, SP, BP, SI, DI with all "
    "widths); the numbered-register regex (regex AST via the extracted literal) accepts R8-R15 with "
    "optional D/W/B and captures the number; the vector class list is mm/xmm/ymm/zmm and stripping "
    "the class letter identifies exactly xmm/ymm/zmm of equal number. R2 (AArch64, exact): every "
    "register prefix the grammar can produce is in exactly one dependence class and the classes equal "
    "spec/aarch64_regs.json. R3: every operand of ==/in in the two predicates has passed a "
    "case-normalising call. R4: every `return True` is guarded by a same-block condition of one "
    "family (name equality; vector & vector & suffix equality; basic & basic & both in one group; "
    "both numbered & same number / same number & both prefixes in one class) and each family has "
    "such a return. With R1-R4 the predicates are 'same block of a partition after normalisation', "
    "hence reflexive, symmetric and transitive."
)
NOT_DECIDED = (
    "The relation evaluated on every ordered pair at run time (the rules decide the tables and the "
    "guard structure, not an execution)."
)
ASSUMPTIONS = [
    "register names reaching the predicates are those the grammars produce (C09/C10)",
    "spec/x86_regs.json and spec/aarch64_regs.json state the architectural partition the property names",
]


def _spec(name):
    return json.loads((VERIF / "spec" / name).read_text())


def _norm_origin(flow, expr):
    """Does `expr` carry a case-normalising call (directly or through its reaching definitions)?"""
    for e in flow.expand(expr):
        if not isinstance(e, ast.AST):
            return False
        if not _has_fold(e):
            return False
    return True


def _has_fold(e):
    for n in ast.walk(e):
        if isinstance(n, ast.Call) and isinstance(n.func, ast.Attribute) and n.func.attr in (
                "upper", "lower", "casefold"):
            return True
    return False


def _resolve_const(ctx, f, flow, e, depth=0):
    """The constant value `e` denotes, or None: a display; a local / module / class constant bound once to one; `<dict>.values()`;
    a call (without arguments) of a module-level function that folds to a constant (a table built at import time)."""
    from .. import consteval
    if depth > 5 or e is None:
        return None
    if isinstance(e, ast.Call) and isinstance(e.func, ast.Attribute) and e.func.attr in ("values", "keys", "items") and not e.args:
        v = _resolve_const(ctx, f, flow, e.func.value, depth + 1)
        return list(getattr(v, e.func.attr)()) if isinstance(v, dict) else None
    try:
        return ast.literal_eval(e)
    except Exception:
        pass
    if isinstance(e, (ast.DictComp, ast.ListComp, ast.SetComp)):
        # a table derived from other constants of the class / module when the class body runs
        env = {"__globals__": dict(f.module.globals)}
        if f.cls is not None:
            for k in reversed(ctx.repo.mro(f.cls.name)):
                try:
                    env["__globals__"].update(ctx.repo.cls(k).class_attrs)
                except Exception:
                    pass
        try:
            return consteval.ev(e, env)
        except (consteval.Unsupported, consteval.Raised):
            return None
    if isinstance(e, (ast.Tuple, ast.List)):
        vals = [_resolve_const(ctx, f, flow, x, depth + 1) for x in e.elts]
        return None if any(v is None for v in vals) else (tuple(vals) if isinstance(e, ast.Tuple) else vals)
    node = None
    if isinstance(e, ast.Name):
        ds = [d for d in flow.all_defs.get(e.id, []) if d.kind == "assign"]
        if len(ds) == 1 and len(flow.all_defs.get(e.id, [])) == 1:
            node = ds[0].value
        elif e.id not in flow.all_defs:
            node = f.module.globals.get(e.id)
    elif isinstance(e, ast.Attribute) and isinstance(e.value, ast.Name) and f.cls is not None and e.value.id in ("self", "cls", f.cls.name):
        for k in ctx.repo.mro(f.cls.name):
            if e.attr in ctx.repo.cls(k).class_attrs:
                node = ctx.repo.cls(k).class_attrs[e.attr]
                break
    elif isinstance(e, ast.Call) and isinstance(e.func, ast.Name) and not e.args and not e.keywords:
        fn = ctx.repo.funcs.get("%s.%s" % (f.module.stem, e.func.id))
        if fn is not None and not fn.params():
            funcs = {q.split(".", 1)[1]: g.node for q, g in ctx.repo.funcs.items() if q.startswith(f.module.stem + ".")}
            try:
                kind, val = consteval.call(fn.node, functions=funcs, globals=dict(f.module.globals))
            except consteval.Unsupported:
                return None
            ctx.touch(fn)
            return val if kind == "return" else None
    if node is None:
        return None
    return _resolve_const(ctx, f, flow, node, depth + 1)


def _as_groups(v):
    """a partition given as {key: [names]}, [[names], ...] or {name: family} -> list of frozensets of upper-cased names"""
    if isinstance(v, dict) and v and all(isinstance(x, (list, tuple, set, frozenset)) for x in v.values()):
        v = list(v.values())
    if isinstance(v, dict) and v and all(isinstance(k, str) and isinstance(x, str) for k, x in v.items()):
        inv = {}
        for k, x in v.items():
            inv.setdefault(x, set()).add(k)
        return [frozenset(g) for g in inv.values()], [k for k in v]
    if isinstance(v, (list, tuple)) and v and all(isinstance(g, (list, tuple, set, frozenset)) and all(isinstance(x, str) for x in g) for g in v):
        return [frozenset(g) for g in v], [x for g in v for x in g]
    return None


def _basic_gpr_guard(ctx, f, flow, r, A, B):
    """When `return True` at r is guarded by 'A and B lie in the same alias group', the alias table behind that guard:
    (groups, all names as written, node) - else None. Idioms: `A in g and B in g` with g running over the table (or being
    one literal group of it, e.g. after a loop over the table was written out), and `M.get(A) == M.get(B)` (not None) for
    a name -> family map M."""
    nf = C.norm_fact_nodes(r)
    ins = {}
    for e, pol in nf:
        if pol and isinstance(e, ast.Compare) and len(e.ops) == 1 and isinstance(e.ops[0], ast.In) and U(e.left) in (A, B):
            ins.setdefault(U(e.comparators[0]), {})[U(e.left)] = e.comparators[0]
    for g, who in ins.items():
        if set(who) != {A, B}:
            continue
        gnode = who[A]
        lit = None
        try:
            lit = ast.literal_eval(gnode)
        except Exception:
            pass
        if lit is not None:
            return ("literal", frozenset(lit), gnode)
        loop = C.enclosing_loop(r)
        while loop is not None and not (isinstance(loop, ast.For) and U(loop.target) == g):
            loop = C.enclosing_loop(loop)
        if loop is not None:
            v = _resolve_const(ctx, f, flow, loop.iter)
            gr = _as_groups(v) if v is not None else None
            if gr is not None:
                return ("table", gr, loop.iter)
    # name -> family map
    def fam_of(e):
        e = flow.subst(e) if isinstance(e, ast.Name) else e
        if isinstance(e, ast.Call) and isinstance(e.func, ast.Attribute) and e.func.attr == "get" and len(e.args) == 1:
            return U(e.func.value), U(e.args[0]), e.func.value
        if isinstance(e, ast.Subscript):
            return U(e.value), U(e.slice), e.value
        return None
    for e, pol in nf:
        if pol and isinstance(e, ast.Compare) and len(e.ops) == 1 and isinstance(e.ops[0], ast.Eq):
            l, rr = fam_of(e.left), fam_of(e.comparators[0])
            if l and rr and l[0] == rr[0] and {l[1], rr[1]} == {A, B}:
                # one of the two looked-up families must be known to exist (None == None would make strangers aliases)
                guarded = any((not pol2) and C.is_none_test(e2) is not None and fam_of(e2.left) is not None
                              and fam_of(e2.left)[0] == l[0] for e2, pol2 in nf if isinstance(e2, ast.Compare)) or \
                    (isinstance(e.left, ast.Subscript) and isinstance(e.comparators[0], ast.Subscript))
                v = _resolve_const(ctx, f, flow, l[2])
                gr = _as_groups(v) if v is not None else None
                if gr is not None:
                    return ("map" if guarded else "map-unguarded", gr, l[2])
    return None


def _x86(ctx):
    spec = _spec("x86_regs.json")
    f = ctx.func("ParserX86ATT.is_reg_dependend_of")
    flow = C.flow_of(f)
    pa, pb = f.params()[1], f.params()[2]
    # ---- R1 alias table
    ctx.rule("R1", "x86 alias table = architectural GPR partition; numbered regex; vector classes")
    na_ = [d for d in flow.all_defs if any(U(x.value or ast.Constant(None)).startswith(pa + ".name.") for x in flow.all_defs[d])]
    nb_ = [d for d in flow.all_defs if any(U(x.value or ast.Constant(None)).startswith(pb + ".name.") for x in flow.all_defs[d])]
    def inline_name(prm):
        """the case-folded name used in place (no local holds it): `<prm>.name.upper()`"""
        for x in ast.walk(f.node):
            if isinstance(x, ast.Call) and _has_fold(x) and _strip_fold(x) == prm + ".name":
                return U(x)
        return prm + ".name"
    A_, B_ = (na_[0] if na_ else inline_name(pa)), (nb_[0] if nb_ else inline_name(pb))
    tables = [(n, b) for n, b in pm.find("M_t = M_d", f.node) if isinstance(b["M_d"], ast.Dict)]
    tname, table_names = None, []
    if len(tables) == 1:
        tnode, tb = tables[0]
        tname = U(tb["M_t"])
        table = C.literal(tb["M_d"], "alias table")
        groups = [frozenset(x.upper() for x in v) for v in table.values()]
        table_names = [r for v in table.values() for r in v]
    else:
        # the table lives elsewhere (class / module constant, generated at import time) or the loop over it is written out:
        # take it from the guards of the `return True` statements
        found = [(_basic_gpr_guard(ctx, f, flow, r, A_, B_), r) for r in ast.walk(f.node) if isinstance(r, ast.Return)
                 and isinstance(r.value, ast.Constant) and r.value.value is True]
        found = [(g, r) for g, r in found if g is not None]
        whole = [g for g, r in found if g[0] != "literal"]
        lits = [g for g, r in found if g[0] == "literal"]
        if whole:
            groups, table_names = [frozenset(x.upper() for x in gg) for gg in whole[0][1][0]], list(whole[0][1][1])
            tnode = whole[0][2]
        elif lits:
            groups, table_names = [frozenset(x.upper() for x in g[1]) for g in lits], [x for g in lits for x in g[1]]
            tnode = lits[0][2]
        else:
            ctx.broken("R1: expected one literal alias table in %s, found %d" % (f.qname, len(tables)))
    want = [frozenset(v) for v in spec["gpr_families"].values()]
    flat = [r for g in groups for r in g]
    ctx.check(len(flat) == len(set(flat)), "R1", "alias groups are disjoint", f.where(tnode),
              "a register name occurs in two alias groups: %s" % sorted({r for r in flat if flat.count(r) > 1}),
              f.qname, "alias table disjointness")
    for fam, regs in spec["gpr_families"].items():
        regs = frozenset(regs)
        if regs in groups:
            ctx.ok("R1", "family %s = %s" % (fam, sorted(regs)), f.where(tnode))
        else:
            near = [g for g in groups if g & regs]
            if not near:
                detail = ("no alias group for the %s family %s: its members are treated as independent "
                          "registers (e.g. %s/%s)" % (fam, sorted(regs), sorted(regs)[0], sorted(regs)[-1]))
            else:
                detail = "alias group %s differs from the architectural %s family %s (missing %s, extra %s)" % (
                    sorted(near[0]), fam, sorted(regs), sorted(regs - near[0]), sorted(near[0] - regs))
            ctx.bad("R1", "family %s" % fam, f.where(tnode), detail, f.qname, "alias group of family %s" % fam,
                    f.module.excerpt(tnode))
    for g in groups:
        if g not in want and not any(g & w for w in want):
            ctx.bad("R1", "extra group %s" % sorted(g), f.where(tnode),
                    "alias group %s is not an architectural family" % sorted(g), f.qname,
                    "extra alias group %s" % sorted(g))
    # table names are upper case and compared with upper-cased names
    upper_ok = all(r == r.upper() for r in table_names)
    ctx.check(upper_ok, "R1", "alias table is upper case", f.where(tnode),
              "alias table holds names that are not upper case while the compared names are upper-cased",
              f.qname, "alias table case")
    # ---- regex for numbered registers
    regs = [n for n in ast.walk(f.node) if C.is_call_to(n, "re.match", "re.fullmatch")]
    ctx.floor("R1", "numbered-register regex matches", len(regs), 2)
    pats = {U(n.args[0]) for n in regs}
    ctx.check(len(pats) == 1, "R1", "both operands use the same numbered-register regex", f.where(regs[0]),
              "the two operands are matched with different patterns: %s" % sorted(pats), f.qname, "regex agreement")
    for call in regs:
        pat = C.literal(call.args[0], "regex")
        flags = 0
        fl = C.arg_of(call, 2, "flags")
        if fl is not None and "IGNORECASE" in U(fl):
            flags = re.IGNORECASE
        subj = call.args[1]
        folded = _norm_origin(flow, subj) or flags
        ctx.check(bool(folded), "R3", "regex subject is case-normalised: " + U(call), f.where(call),
                  "the numbered-register regex is applied to a name that was not case-normalised and "
                  "without re.IGNORECASE", f.qname, U(call))
        rx = re.compile(pat, flags)
        bad = []
        nspec = spec["numbered_gpr"]
        for num in nspec["numbers"]:
            for suf in nspec["suffixes"]:
                name = "%s%d%s" % (nspec["stem"], num, suf)
                m = rx.match(name)
                if not m or m.groups()[:1] != (str(num),):
                    bad.append(name)
        for fam in spec["gpr_families"].values():
            for name in fam:
                if rx.match(name):
                    bad.append(name + " (must not match)")
        if bad:
            ctx.node_bad("R1", f, call, "regex %r does not accept R<n>[DWB]? capturing n for: %s" % (pat, bad[:8]))
        else:
            ctx.node_ok("R1", f, call, "regex %r accepts R8..R15 with ''/D/W/B, captures the number, rejects "
                        "the lettered families" % pat)
    # ---- vector classes
    vf = ctx.func("ParserX86ATT.is_vector_register")
    lists = [n for n in ast.walk(vf.node) if isinstance(n, (ast.List, ast.Tuple, ast.Set))
             and n.elts and all(isinstance(e, ast.Constant) and isinstance(e.value, str) for e in n.elts)]
    if len(lists) != 1:
        # the classes given by a regular expression: a constant pattern applied to the register name - evaluated on the
        # finite vocabulary of class names (bare, as in model entries, and numbered)
        import re as _re
        pat, flags, site = None, 0, None
        for c in ast.walk(vf.node):
            if not (isinstance(c, ast.Call) and isinstance(c.func, ast.Attribute) and c.func.attr in ("match", "fullmatch", "search")):
                continue
            recv = c.func.value
            comp = None
            if U(recv) == "re" and len(c.args) >= 2:
                comp, flag_nodes = c.args[0], c.args[2:] + [k.value for k in c.keywords if k.arg == "flags"]
            else:
                node = None
                if isinstance(recv, ast.Attribute) and isinstance(recv.value, ast.Name) and recv.value.id in ("self", "cls", vf.cls.name if vf.cls else ""):
                    node = ctx.repo.cls(vf.cls.name).class_attrs.get(recv.attr)
                elif isinstance(recv, ast.Name):
                    node = vf.module.globals.get(recv.id)
                if node is not None and isinstance(node, ast.Call) and U(node.func) == "re.compile" and node.args:
                    comp, flag_nodes = node.args[0], node.args[1:] + [k.value for k in node.keywords if k.arg == "flags"]
            if comp is not None and isinstance(comp, ast.Constant) and isinstance(comp.value, str):
                pat, site = comp.value, c
                for fn_ in flag_nodes:
                    if "IGNORECASE" in U(fn_) or U(fn_) in ("re.I",):
                        flags |= _re.IGNORECASE
                how = c.func.attr
        if pat is None:
            ctx.broken("R1: vector class list not found in is_vector_register")
        rx = _re.compile(pat, flags)
        fn_ = {"match": rx.match, "fullmatch": rx.fullmatch, "search": rx.search}[how]
        cands = sorted(set(spec["vector_classes"]) | {"k", "st", "r", "bnd", "cr", "tmm"})
        vcls = [c for c in cands if all(fn_(c + n) is not None for n in ("", "0", "7"))]
        partial = [c for c in cands if c not in vcls and any(fn_(c + n) is not None for n in ("", "0", "7", "15", "31"))]
        strangers = [n for fam in spec["gpr_families"].values() for n in fam if fn_(n.lower()) is not None]
        ctx.check(sorted(vcls) == sorted(spec["vector_classes"]) and not partial and not strangers, "R1", "vector classes = mm/xmm/ymm/zmm (regular expression)",
                  vf.where(site), "the pattern %r accepts the register classes %s (partly: %s; general-purpose names: %s), the vector classes are %s: "
                  "a register of a class it leaves out is no longer recognised as a vector register (and is then handled by the "
                  "general-purpose branches)" % (pat, vcls, partial, strangers[:3], spec["vector_classes"]), vf.qname, "vector class list")
        ctx.check(bool(flags & _re.IGNORECASE) or "lower()" in U(site) or "upper()" in U(site), "R3", "vector class test is case-insensitive", vf.where(site),
                  "the pattern is applied to the name as written, without IGNORECASE", vf.qname, "vector class membership")
        return f, flow, pa, pb, tname, [c for c in spec["vector_classes"] if c in vcls] or list(spec["vector_classes"]), spec
    vcls = [e.value for e in lists[0].elts]
    ctx.check(sorted(vcls) == sorted(spec["vector_classes"]), "R1", "vector classes = mm/xmm/ymm/zmm",
              vf.where(lists[0]), "vector class list %s differs from %s" % (vcls, spec["vector_classes"]),
              vf.qname, "vector class list")
    mem = [n for n in ast.walk(vf.node) if isinstance(n, ast.Compare) and isinstance(n.ops[0], ast.In)
           and n.comparators[0] is lists[0]]
    ok = bool(mem) and pm.match("M_r.name.rstrip(string.digits).lower()", mem[0].left) is not None
    ctx.check(ok, "R3", "vector class test strips digits and lower-cases", vf.where(),
              "is_vector_register does not compare the digit-stripped, lower-cased name with the class list",
              vf.qname, "vector class membership")
    return f, flow, pa, pb, tname, vcls, spec


def _vector_relation(ctx, f, flow, r, A, B, pa, pb, vcls, spec):
    """The conditions on the two (case-folded) names under which this `return True` is reached, evaluated on the finite
    vocabulary of vector register names (class prefix x number): they must relate two different names exactly when the
    numbers agree and both classes overlap architecturally. Returns None when no condition on the names is present."""
    from .. import consteval
    upper = any(U(x.value or ast.Constant(None)).endswith(".upper()") for x in flow.all_defs.get(A, []))
    conds, skipped = [], []
    for e, pol in C.norm_fact_nodes(r):
        names = {x.id for x in ast.walk(e) if isinstance(x, ast.Name)}
        if not names & {A, B, pa, pb}:
            continue
        if names <= {A, B} and not any(isinstance(x, ast.Call) and not (isinstance(x.func, ast.Attribute) and isinstance(x.func.value, (ast.Name, ast.Subscript, ast.Call, ast.Constant)))
                                        and not (isinstance(x.func, ast.Name) and x.func.id in ("len", "str", "int", "bool")) for x in ast.walk(e)):
            conds.append((e, pol))
        elif C.is_call_to(e, "is_vector_register", "is_basic_gpr", "is_gpr") or "re.match" in U(e) or "re.fullmatch" in U(e) or ".group(" in U(e):
            continue        # class tests of the operands; the numbered-gpr regex (never matches a vector name)
        else:
            skipped.append(U(e))
    if not [c for c in conds if c[1]]:
        return None
    nums = ("0", "1", "15", "31")
    names = [(c, n, (c + n).upper() if upper else (c + n).lower()) for c in vcls for n in nums]
    over = set(spec["vector_overlapping"])
    wrong = []
    try:
        for c1, n1, s1 in names:
            for c2, n2, s2 in names:
                if s1 == s2:
                    continue        # equal names are the "same name" family
                holds = all(bool(consteval.ev(e, {A: s1, B: s2})) == pol for e, pol in conds)
                want = n1 == n2 and (c1 == c2 or (c1 in over and c2 in over))
                if holds != want:
                    wrong.append((s1, s2, holds))
    except (consteval.Unsupported, consteval.Raised) as x:
        ctx.unknown("R4", "vector condition", f.where(r), "the condition on the two names cannot be evaluated (%s)" % x)
        return "unknown"
    if wrong and skipped:
        ctx.unknown("R4", "vector condition", f.where(r), "the name condition alone relates e.g. %s / %s (%s), but further "
                    "conditions (%s) are not evaluated" % (wrong[0][0], wrong[0][1], wrong[0][2], skipped[:2]))
        return "unknown"
    s1, s2, h = wrong[0] if wrong else ("", "", None)
    ctx.check(not wrong, "R1", "the vector condition relates exactly the architecturally overlapping registers (evaluated on %d name pairs)" % (
        len(names) * (len(names) - 1)), f.where(r),
        "under the conditions %s the registers %s and %s are reported %s, but architecturally they %s (only %s overlap, and only with "
        "equal numbers); %d of the evaluated name pairs are wrong" % (
            [("" if p else "not ") + U(e) for e, p in conds][:3], s1, s2, "dependent" if h else "independent",
            "do not overlap" if h else "overlap", sorted(over), len(wrong)), f.qname, "vector suffix classes")
    return "ok"


def _x86_returns(ctx, f, flow, pa, pb, tname, vcls, spec):
    ctx.rule("R4", "every `return True` is guarded by a same-family condition; each family has one")
    fam_seen = set()
    rets = [n for n in ast.walk(f.node) if isinstance(n, ast.Return)]
    # canonical names of the two normalised register names
    na = [d for d in flow.all_defs if any(U(x.value or ast.Constant(None)).startswith(pa + ".name.") for x in flow.all_defs[d])]
    nb = [d for d in flow.all_defs if any(U(x.value or ast.Constant(None)).startswith(pb + ".name.") for x in flow.all_defs[d])]
    def inline_name(prm):
        for x in ast.walk(f.node):
            if isinstance(x, ast.Call) and _has_fold(x) and _strip_fold(x) == prm + ".name":
                return U(x)
        return prm + ".name"
    A = na[0] if na else inline_name(pa)
    B = nb[0] if nb else inline_name(pb)
    for r in rets:
        val = r.value
        if not (isinstance(val, ast.Constant) and val.value is True):
            if isinstance(val, ast.Constant) and val.value is False:
                continue
            ctx.unknown("R4", U(r)[:100], f.where(r), "return value is not a literal True/False; the decision structure is not "
                        "one the rule understands")
            continue
        facts = [(U(e), pol) for e, pol in C.norm_fact_nodes(r)]
        pos = {t for t, pol in facts if pol}
        fam = None
        inplace_same = any(pol and isinstance(e, ast.Compare) and len(e.ops) == 1 and isinstance(e.ops[0], ast.Eq)
                           and _has_fold(e.left) and _has_fold(e.comparators[0])
                           and {_strip_fold(e.left), _strip_fold(e.comparators[0])} == {pa + ".name", pb + ".name"}
                           for e, pol in C.norm_fact_nodes(r))
        if {"%s == %s" % (A, B)} & pos or {"%s == %s" % (B, A)} & pos or inplace_same:
            fam = "same name"
        elif ({"self.is_vector_register(%s)" % pa, "self.is_vector_register(%s)" % pb} <= pos
              and ("%s[1:] == %s[1:]" % (A, B) in pos or "%s[1:] == %s[1:]" % (B, A) in pos)):
            fam = "vector"
            # stripping one character must identify exactly the overlapping classes
            stems = {c: c[1:] for c in vcls}
            same = {frozenset(x for x in vcls if stems[x] == s) for s in set(stems.values())}
            want = {frozenset(spec["vector_overlapping"])} | {
                frozenset([c]) for c in vcls if c not in spec["vector_overlapping"]}
            ctx.check(same == want, "R1", "suffix comparison identifies xmm/ymm/zmm only", f.where(r),
                      "dropping the first character makes %s alias; architecturally only %s overlap" % (
                          [sorted(x) for x in same if len(x) > 1], spec["vector_overlapping"]),
                      f.qname, "vector suffix classes")
        elif ({"self.is_vector_register(%s)" % pa, "self.is_vector_register(%s)" % pb} <= pos and A.isidentifier() and B.isidentifier()
              and _vector_relation(ctx, f, flow, r, A, B, pa, pb, vcls, spec) is not None):
            fam = "vector"
        elif tname is None and {"self.is_basic_gpr(%s)" % pa, "self.is_basic_gpr(%s)" % pb} <= pos \
                and _basic_gpr_guard(ctx, f, flow, r, A, B) is not None:
            kind_ = _basic_gpr_guard(ctx, f, flow, r, A, B)[0]
            if kind_ == "map-unguarded":
                ctx.node_bad("R4", f, r, "the families of the two names are compared without requiring that they exist: two names "
                             "outside the table both map to None and compare equal")
            fam = "basic gpr"
        elif ({"self.is_basic_gpr(%s)" % pa, "self.is_basic_gpr(%s)" % pb} <= pos
              and any(t.startswith(A + " in ") for t in pos) and any(t.startswith(B + " in ") for t in pos)):
            ga = [t.split(" in ", 1)[1] for t in pos if t.startswith(A + " in ")]
            gb = [t.split(" in ", 1)[1] for t in pos if t.startswith(B + " in ")]
            loop = C.enclosing_loop(r)
            it_ok = isinstance(loop, ast.For) and U(loop.target) in ga and U(loop.target) in gb and U(
                loop.iter) in ("%s.values()" % tname,)
            if it_ok:
                fam = "basic gpr"
        else:
            # numbered, general form: index(A) == index(B) where index(x) is the captured number of the numbered-register regex
            # applied to x (None when it does not match), together with evidence that the index is not None
            def index_of(e, depth=0):
                """(subject text, optional?) when e is the captured number of the regex on a subject"""
                if isinstance(e, ast.Name) and depth < 3:
                    ds = [d for d in flow.all_defs.get(e.id, []) if d.value is not None]
                    return index_of(ds[0].value, depth + 1) if len(ds) == 1 else None
                if isinstance(e, ast.IfExp) and isinstance(e.orelse, ast.Constant) and e.orelse.value is None \
                        and C.is_call_to(e.test, "re.match", "re.fullmatch") and U(e.body) == U(e.test) + ".group(1)":
                    return U(e.test.args[1]), True
                if pm.match("M_m.group(1)", e) is not None and C.is_call_to(pm.match("M_m.group(1)", e)["M_m"], "re.match", "re.fullmatch"):
                    mc = pm.match("M_m.group(1)", e)["M_m"]     # the match used in place: its own text is the existence test
                    return U(mc.args[1]), U(mc)
                if pm.match("M_m.group(1)", e) is not None and isinstance(pm.match("M_m.group(1)", e)["M_m"], ast.Name):
                    mv = pm.match("M_m.group(1)", e)["M_m"].id
                    ds = [d for d in flow.all_defs.get(mv, []) if d.value is not None and C.is_call_to(d.value, "re.match", "re.fullmatch")]
                    if len(ds) == 1:
                        return U(ds[0].value.args[1]), mv
                return None
            for e, pol in C.facts_at(r):
                if not (pol and isinstance(e, ast.Compare) and len(e.ops) == 1 and isinstance(e.ops[0], ast.Eq)):
                    continue
                ia, ib = index_of(e.left), index_of(e.comparators[0])
                if ia is None or ib is None or {ia[0], ib[0]} != {A, B}:
                    continue
                notnone = False
                for e2, pol2 in C.facts_at(r):
                    t2 = C.is_none_test(e2)
                    if t2 is not None and t2[1] != pol2 and index_of(ast.parse(t2[0], mode="eval").body if not isinstance(e2.left, ast.Name) else e2.left) is not None:
                        notnone = True
                    if t2 is not None and t2[1] != pol2 and isinstance(e2.left, (ast.IfExp, ast.Name)) and index_of(e2.left) is not None:
                        notnone = True
                nfacts = {(U(e3), p3) for e3, p3 in C.norm_fact_nodes(r)}
                both_truthy = all(isinstance(x[1], str) and (x[1] in pos or (x[1] + " is None", False) in nfacts) for x in (ia, ib))
                if notnone or both_truthy:
                    fam = "numbered gpr"
                else:
                    ctx.node_bad("R4", f, r, "the numbered-register indices of the two names are compared with `%s` without requiring that "
                                 "they exist: for two names that are NOT numbered registers both indices are None and compare equal, so "
                                 "every such pair (e.g. the mask register k1 and rax) is reported dependent" % U(e)[:120],
                                 instance="numbered index equality without existence")
                    fam = "numbered gpr (unguarded)"
            m = [t for t in pos if ".group(1) == " in t] if fam is None else []
            if m:
                l, rr = m[0].split(" == ")
                va, vb = l.split(".")[0], rr.split(".")[0]
                if va != vb and {va, vb} <= pos:
                    da = flow.all_defs.get(va, [])
                    db = flow.all_defs.get(vb, [])
                    subj = {U(d.value.args[1]) for d in da + db if d.value is not None and C.is_call_to(
                        d.value, "re.match", "re.fullmatch")}
                    if subj == {A, B}:
                        fam = "numbered gpr"
        if fam == "numbered gpr (unguarded)":
            fam_seen.add("numbered gpr")
            continue
        if fam:
            fam_seen.add(fam)
            ctx.node_ok("R4", f, r, "return True under the %s condition" % fam)
        else:
            ctx.node_bad("R4", f, r, "this `return True` is reachable without one of the same-family conditions "
                         "(known facts here: %s)" % sorted(pos))
    for fam in ("same name", "vector", "basic gpr", "numbered gpr"):
        ctx.check(fam in fam_seen, "R4", "family has a positive rule: " + fam, f.where(),
                  "no `return True` is guarded by the %s condition: registers of that family are never "
                  "reported dependent on their aliases" % fam, f.qname, "positive rule for " + fam)
    # R3: names compared are normalised
    ctx.rule("R3", "case folding of every compared name")
    for n in ast.walk(f.node):
        if isinstance(n, ast.Compare) and isinstance(n.ops[0], (ast.Eq, ast.NotEq, ast.In, ast.NotIn)):
            for side in [n.left] + list(n.comparators):
                t = U(side)
                if ".group(" in t or t == tname or isinstance(side, ast.Constant):
                    continue
                if isinstance(side, (ast.Tuple, ast.List, ast.Set)) and all(isinstance(x, ast.Constant) for x in side.elts):
                    continue    # a literal group of names (the alias table written in place)
                if isinstance(side, ast.Name) and side.id not in (A, B) and not any(
                        ".name" in x for x in flow.origin_text(side)):
                    continue  # e.g. the loop variable over alias groups
                base = side.value if isinstance(side, ast.Subscript) else side
                # a look-up keyed by the name (family table): the key is what must be normalised
                lk = flow.subst(side) if isinstance(side, ast.Name) else side
                if isinstance(lk, ast.Call) and isinstance(lk.func, ast.Attribute) and lk.func.attr == "get" and lk.args:
                    base = lk.args[0]
                elif isinstance(lk, ast.Subscript) and isinstance(lk.slice, ast.Name):
                    base = lk.slice
                ok = _norm_origin(flow, base)
                if not ok and not isinstance(base, ast.Name):
                    # an expression over already normalised names (name.lstrip(..), name[0] in "XYZ", ...)
                    inner = [x for x in ast.walk(base) if isinstance(x, ast.Name) and isinstance(x.ctx, ast.Load)
                             and any(".name" in o for o in flow.origin_text(x))]
                    if inner:
                        ok = all(_norm_origin(flow, x) for x in inner)
                ctx.check(ok, "R3", "operand %s of `%s` is case-normalised" % (t, U(n)), f.where(n),
                          "operand %s of the comparison `%s` derives from a register name that was not passed "
                          "through upper()/lower()" % (t, U(n)), f.qname, U(n))
    bg = ctx.func("ParserX86ATT.is_basic_gpr")
    sw = pm.find("M_r.name.lower().startswith(M_x)", bg.node)
    raw_sw = [c for c in ast.walk(bg.node) if isinstance(c, ast.Call) and isinstance(c.func, ast.Attribute) and c.func.attr == "startswith"]
    ctx.judge(bool(sw), bool(raw_sw), "R3", "is_basic_gpr lower-cases before the prefix test", bg.where(),
              "is_basic_gpr tests name prefixes without case folding", bg.qname, "is_basic_gpr prefix test")


def _grammar_prefixes(ctx):
    """Register prefixes ParserAArch64.construct_parser can produce (lower-cased)."""
    f = ctx.func("ParserAArch64.construct_parser")
    out = set()
    for n, b in pm.find_any(['pp.Word(M_chars, exact=1).setResultsName("prefix")',
                             'pp.oneOf(M_chars, caseless=True).setResultsName("prefix")',
                             'pp.oneOf(M_chars).setResultsName("prefix")',
                             'pp.CaselessLiteral(M_chars).setResultsName("prefix")',
                             'pp.Literal(M_chars).setResultsName("prefix")'], f.node):
        chars = C.literal(b["M_chars"], "prefix characters")
        if "oneOf" in U(n):
            out |= {c.lower() for c in chars.split()}
        elif "Word" in U(n):
            out |= {c.lower() for c in chars}
        else:
            out.add(chars.lower())
    return f, out


def _aarch64(ctx):
    spec = _spec("aarch64_regs.json")
    f = ctx.func("ParserAArch64.is_reg_dependend_of")
    flow = C.flow_of(f)
    pa, pb = f.params()[1], f.params()[2]
    ctx.rule("R2", "AArch64 prefix classes partition the grammar's prefixes and equal the spec")
    gf, produced = _grammar_prefixes(ctx)
    ctx.floor("R2", "register prefixes produced by the grammar", len(produced), 10)
    classes = {}
    for name, defs in flow.all_defs.items():
        for d in defs:
            if d.kind == "assign" and isinstance(d.value, ast.Constant) and isinstance(d.value.value, str):
                classes[name] = d.value.value
    # class strings actually used in membership tests
    used = {}
    unresolved = []
    for n in ast.walk(f.node):
        if isinstance(n, ast.Compare) and isinstance(n.ops[0], ast.In):
            c = n.comparators[0]
            if isinstance(c, ast.Name) and c.id in classes:
                used[c.id] = classes[c.id]
            elif isinstance(c, ast.Constant) and isinstance(c.value, str):
                used[U(c)] = c.value
            elif isinstance(c, (ast.Name, ast.Attribute)):
                # a class / module constant, or the variable of a loop over the classes
                v = _resolve_const(ctx, f, flow, c)
                if isinstance(v, str):
                    used[U(c)] = v
                elif isinstance(c, ast.Name):
                    def classes_of_iter(it, depth=0):
                        """the class strings an iterable runs over: a constant list, or a local built by filtering one"""
                        vs_ = _resolve_const(ctx, f, flow, it)
                        if isinstance(vs_, (list, tuple)) and all(isinstance(x, str) for x in vs_):
                            return list(vs_)
                        if isinstance(it, ast.Name) and depth < 2:
                            ds_ = [d for d in flow.all_defs.get(it.id, []) if d.kind == "assign" and d.value is not None]
                            if len(ds_) == 1 and isinstance(ds_[0].value, (ast.ListComp, ast.GeneratorExp)) and len(ds_[0].value.generators) == 1 \
                                    and U(ds_[0].value.elt) == U(ds_[0].value.generators[0].target):
                                return classes_of_iter(ds_[0].value.generators[0].iter, depth + 1)
                        return None
                    binders = [lp.iter for lp in C.enclosing_loops(n) if isinstance(lp, ast.For) and U(lp.target) == c.id]
                    p_ = C.parent(n)
                    while p_ is not None and p_ is not f.node:
                        if isinstance(p_, (ast.ListComp, ast.GeneratorExp, ast.SetComp)):
                            binders += [g_.iter for g_ in p_.generators if U(g_.target) == c.id]
                        p_ = C.parent(p_)
                    hit = False
                    for it in binders:
                        vs = classes_of_iter(it)
                        if vs is not None:
                            hit = True
                            for i_, x in enumerate(vs):
                                used["%s#%d" % (c.id, i_)] = x
                    if not hit:
                        unresolved.append(U(n))
                else:
                    unresolved.append(U(n))
    got = [frozenset(v) for v in used.values()]
    if unresolved and not all(frozenset(c) in got for c in spec["classes"]):
        ctx.unknown("R2", "AArch64 prefix classes", f.where(), "membership tests whose class the rule cannot resolve: %s" % unresolved[:3])
        return
    want = [frozenset(c) for c in spec["classes"]]
    for w in want:
        if w in got:
            ctx.ok("R2", "class %s" % "".join(sorted(w)), f.where())
        else:
            near = [g for g in got if g & w]
            ctx.bad("R2", "class %s" % "".join(sorted(w)), f.where(),
                    ("no dependence class contains the prefix(es) %s: such a register is not even dependent on "
                     "itself" % sorted(w)) if not near else
                    "dependence class %s differs from the architectural class %s" % (sorted(near[0]), sorted(w)),
                    f.qname, "prefix class %s" % "".join(sorted(w)), f.module.excerpt(f.node))
    for g in got:
        if g not in want and not any(g & w for w in want):
            ctx.bad("R2", "extra class %s" % sorted(g), f.where(), "class %s is not architectural" % sorted(g),
                    f.qname, "extra prefix class %s" % "".join(sorted(g)))
    allc = [c for g in got for c in g]
    ctx.check(len(allc) == len(set(allc)), "R2", "prefix classes are disjoint", f.where(),
              "a prefix is in two dependence classes", f.qname, "class disjointness")
    for p in sorted(produced):
        ctx.check(sum(1 for g in got if p in g) == 1, "R2", "grammar prefix %r is in exactly one class" % p,
                  f.where(), "the grammar produces registers with prefix %r but no (or more than one) dependence "
                  "class contains it" % p, f.qname, "prefix %s coverage" % p)
    # ---- R4 / R3
    ctx.rule("R4", "every `return True` is guarded by a same-family condition; each family has one")
    seen = set()
    r4_unknown = False
    for r in [n for n in ast.walk(f.node) if isinstance(n, ast.Return)]:
        v = r.value
        if isinstance(v, ast.Constant) and v.value is False:
            continue
        if not (isinstance(v, ast.Constant) and v.value is True):
            ctx.unknown("R4", U(r)[:100], f.where(r), "return value is not a literal True/False")
            r4_unknown = True
            continue
        facts = C.norm_fact_nodes(r)
        pos = [e for e, pol in facts if pol]
        name_eq = [e for e in pos if isinstance(e, ast.Compare) and isinstance(e.ops[0], ast.Eq)
                   and {_strip_fold(e.left), _strip_fold(e.comparators[0])} == {pa + ".name", pb + ".name"}]
        ins = [e for e in pos if isinstance(e, ast.Compare) and isinstance(e.ops[0], ast.In)]
        def subj(x):
            x = flow.subst(x) if isinstance(x, ast.Name) else x
            return _accessor_attr(ctx, x) or _strip_fold(x)
        ca = [U(e.comparators[0]) for e in ins if subj(e.left) == pa + ".prefix"]
        cb = [U(e.comparators[0]) for e in ins if subj(e.left) == pb + ".prefix"]
        common = set(ca) & set(cb)
        if name_eq and common:
            for c in common:
                seen.add(frozenset(used.get(c, "")))
                for k_, v_ in used.items():       # c is the variable of a loop over the classes: one positive rule per class
                    if k_.startswith(c + "#"):
                        seen.add(frozenset(v_))
            ctx.node_ok("R4", f, r, "return True under equal number and both prefixes in %s" % sorted(common))
            for e in name_eq:
                folded = _has_fold(e.left) and _has_fold(e.comparators[0])
                ctx.check(folded, "R3", "register names compared case-insensitively", f.where(e),
                          "the names are compared with `%s` without case folding: `sp` and `SP` (both accepted by "
                          "the grammar) are treated as different registers" % U(e), f.qname, U(e))
            prefix_stored_folded = _stored_folded(ctx, "RegisterOperand", "prefix")
            for e in ins:
                if subj(e.left) in (pa + ".prefix", pb + ".prefix"):
                    ctx.check(_has_fold(e.left) or prefix_stored_folded, "R3", "prefix compared case-insensitively: " + U(e), f.where(e),
                              "prefix compared without case folding (and RegisterOperand does not store it folded)", f.qname, U(e))
        elif name_eq and (ca or cb) and not (ca and cb):
            # the class membership of one register is tested here, that of the other one was established elsewhere (the
            # classes filtered by the first register's prefix beforehand): not followed
            ctx.unknown("R4", U(r)[:60], f.where(r), "only one register's prefix is tested against the class at this `return True` "
                        "(facts: %s); where the other one's class comes from is not followed" % [U(e) for e in pos][:4])
            r4_unknown = True
        else:
            ctx.node_bad("R4", f, r, "this `return True` is not guarded by `equal number and both prefixes in one "
                         "class` (facts: %s)" % [U(e) for e in pos])
    for w in want:
        if r4_unknown and w not in seen:
            continue
        ctx.check(w in seen, "R4", "class %s has a positive rule" % "".join(sorted(w)), f.where(),
                  "no `return True` is guarded by membership of both prefixes in the class %s" % sorted(w),
                  f.qname, "positive rule for class %s" % "".join(sorted(w)))


_ACCESSORS = {}


def _accessor_attr(ctx, call):
    """`self.helper(x)` / `Cls.helper(x)` where every return of helper gives `<its parameter>.<attr>` (through single-assignment
    locals; other exits raise): the text `x.attr`. None otherwise."""
    if not (isinstance(call, ast.Call) and isinstance(call.func, ast.Attribute) and len(call.args) == 1 and not call.keywords):
        return None
    name = call.func.attr
    cands = [g for g in ctx.repo.all_funcs() if g.name == name]
    if len(cands) != 1:
        return None
    g = cands[0]
    key = (id(ctx.repo), g.qname)
    if key not in _ACCESSORS:
        attr = None
        prm = [p_ for p_ in g.params() if p_ not in ("self", "cls")]
        rets = [r_ for r_ in ast.walk(g.node) if isinstance(r_, ast.Return)]
        if len(prm) == 1 and rets:
            fl_ = C.flow_of(g)
            vals = set()
            for r_ in rets:
                v_ = fl_.subst(r_.value) if r_.value is not None else None
                vals.add(U(v_) if v_ is not None else None)
            if len(vals) == 1:
                (t_,) = vals
                if t_ is not None and t_.startswith(prm[0] + ".") and t_[len(prm[0]) + 1:].isidentifier():
                    attr = t_[len(prm[0]) + 1:]
        _ACCESSORS[key] = attr
    attr = _ACCESSORS[key]
    return "%s.%s" % (U(call.args[0]), attr) if attr else None


def _stored_folded(ctx, cls_name, attr):
    """Is the attribute `attr` of class `cls_name` stored case-folded by every writer (constructor and setter), and read back
    unchanged by its property? Then comparisons of it need no folding of their own."""
    try:
        c = ctx.repo.cls(cls_name)
    except Exception:
        return False
    defs = [d for d in c.node.body if isinstance(d, (ast.FunctionDef, ast.AsyncFunctionDef))]   # (getter and setter share a name)
    stores = [n for d in defs for n in ast.walk(d) if isinstance(n, ast.Assign)
              and any(isinstance(t, ast.Attribute) and t.attr == "_" + attr and U(t.value) == "self" for t in n.targets)]
    if not stores:
        return False
    for n in stores:
        v = n.value
        arms = [v.body, v.orelse] if isinstance(v, ast.IfExp) else [v]
        for a in arms:
            if isinstance(a, ast.Constant) and a.value is None:
                continue
            if not _has_fold(a):
                return False
    getters = [d for d in defs if d.name == attr and any(
        isinstance(r_, ast.Return) and r_.value is not None and U(r_.value) == "self._" + attr for r_ in ast.walk(d))]
    return bool(getters)


def _strip_fold(e):
    """Text of `e` with a trailing .lower()/.upper() call removed."""
    if isinstance(e, ast.Call) and isinstance(e.func, ast.Attribute) and e.func.attr in (
            "lower", "upper", "casefold") and not e.args:
        return U(e.func.value)
    return U(e)


def run(ctx):
    from ..srcmodel import AnalysisError
    # the two ISAs are judged independently: an idiom of the x86 predicate the rules do not know must not hide a finding
    # (or a false alarm) in the AArch64 one
    err = None
    try:
        args = _x86(ctx)
        _x86_returns(ctx, *args)
    except AnalysisError as e:
        err = e
    _aarch64(ctx)
    if err is not None:
        raise err
