"""C20 - benchmark import snaps measurements and emits every imported form."""
import ast
import re

from .. import pm
from ..pm import U
from . import common as C

TECHNIQUE = (
    "static analysis: constant folding of the two pure decoder functions over the finite table of the README's documented operand codes; literal snapping constants and window symmetry; key agreement of the TP/LT merge; index-bound (interval) check of block indexing with guard recognition; emission path (every entry inserted, dump covers the list inserted into); aliasing-depth ownership analysis of the import functions (memoised returns are shared storage)"
)
EXPLANATION = (
    "R1: both _create_db_operand_* decoders are constant-folded (osaca_sa/consteval.py, an interpreter over the AST for the pure subset they use; nothing of the repository is executed) over the finite table of documented operand codes - every memory-flag subset in both orders included - and a few undocumented letters; the operand each code yields must equal the README's 'Benchmark import' bullet lists (x86: r, x/y/z, i, m[b o i s]; AArch64: w x b h s d q, v[bhsd] default d, i, m[b o i s r p]). R2: throughput candidates are 1/n for n in range(1, 11); the acceptance window is the symmetric pair 0.95/1.05 in both modes; an accepted latency is rounded to the nearest integer, an accepted throughput is the matching reciprocal; out of window returns None. R3: TP and LT lines of one ibench form map to the same key and update the same entry object. R4: every index i + k into the asmbench lines stays below the bound the loop guarantees or is guarded; the malformed-block path breaks (earlier entries kept). R5: every parsed entry is passed to set_instruction_entry and the dump covers the list entries were appended to. R6: in the functions of db_interface reachable from import_benchmark_output no object with aliasing depth 0 to a memoised return value, module global, class attribute or default argument is mutated in place (E4/E5 ownership analysis): a decoder result shared between forms cannot be edited per form. R7: what set_instruction updates when the imported form already exists is an object the dump emits (every object filed in the look-up index is the object in the dumped list), and the comparison that DB-format operands end in is not constant. R7(c): while that comparison is constant, set_instruction must not file a new form under the folded key get_instruction looks up - otherwise the second imported form of a mnemonic new to the model (same operand count) is written over the first."
)
NOT_DECIDED = "Numeric behaviour exactly at the window boundaries and the YAML round trip of the emitted model."
ASSUMPTIONS = ["README.rst section 'Benchmark import' is the documented naming convention"]


def _branches(f):
    """[(condition text, returned dict/Call node)] of an if/elif chain decoder."""
    out = []
    for n in ast.walk(f.node):
        if isinstance(n, ast.If):
            rets = [s for s in n.body if isinstance(s, ast.Return)]
            if rets:
                out.append((U(n.test), rets[0].value))
    return out


def _dict_of(node):
    if isinstance(node, ast.Dict):
        return {C.literal(k): v for k, v in zip(node.keys, node.values)}
    return None


def _r1(ctx):
    ctx.rule("R1", "operand-code decoders = documented naming convention (README)")
    readme = ctx.repo.read_text("README.rst")
    sec = readme[readme.find("Benchmark import"):]
    m = re.search(r"For each \*\*x86\*\* operand(.*?)For each \*\*AArch64\*\* operand(.*?)Valid instruction form examples", sec, re.S)
    if not m:
        ctx.broken("R1: README 'Benchmark import' bullet lists not found")
    doc_x86 = set(re.findall(r'"``(\w)``"', m.group(1)))
    doc_a64 = set(re.findall(r'"``(\w)``"', m.group(2)))
    ctx.check(doc_x86 >= {"r", "x", "y", "z", "i", "m", "b", "o", "s"} and doc_a64 >= {"w", "x", "b", "h", "s", "d", "q", "v", "i", "m", "o", "r", "p"},
              "R1", "README lists the operand codes", "README.rst", "README codes: x86 %s, AArch64 %s" % (sorted(doc_x86), sorted(doc_a64)),
              "README.rst", "documented codes")
    # ---- both decoders are folded over the finite table of documented codes (consteval: the repository code is not run)
    from itertools import combinations
    from .. import consteval

    def mem_codes(letters):
        out = []
        for k in range(len(letters) + 1):
            for sub in combinations(letters, k):
                out.append("m" + "".join(sub))
                if k > 1:
                    out.append("m" + "".join(reversed(sub)))
        return out

    def want_x86(c):
        if c == "r":
            return {"class": "register", "name": "gpr"}
        if c in ("x", "y", "z"):
            return {"class": "register", "name": c + "mm"}
        if c == "i":
            return {"class": "immediate", "imd": "int"}
        if c[0] == "m":
            return {"class": "memory", "base": "gpr" if "b" in c[1:] else None, "offset": "imd" if "o" in c[1:] else None,
                    "index": "gpr" if "i" in c[1:] else None, "scale": 8 if "s" in c[1:] else 1}

    def want_a64(c):
        if c in tuple("wxbhsdq"):
            return {"class": "register", "prefix": c}
        if c[0] == "v":
            return {"class": "register", "prefix": "v", "shape": c[1:2] or "d"}
        if c == "i":
            return {"class": "immediate", "imd": "int"}
        if c[0] == "m":
            return {"class": "memory", "base": "x" if "b" in c[1:] else None, "offset": "imd" if "o" in c[1:] else None,
                    "index": "gpr" if "i" in c[1:] else None, "scale": 8 if "s" in c[1:] else 1,
                    "pre_indexed": "r" in c[1:], "post_indexed": "p" in c[1:]}

    tables = (
        ("x86", "db_interface._create_db_operand_x86", ["r", "x", "y", "z", "i"] + mem_codes("bois"), want_x86, ["k", "a", "q", "w", "v", "d"]),
        ("AArch64", "db_interface._create_db_operand_aarch64", list("wxbhsdq") + ["v", "vb", "vh", "vs", "vd", "i"] + mem_codes("boisrp"),
         want_a64, ["k", "r", "y", "z", "a", "g"]),
    )
    n_codes = 0
    mod_funcs = {fn.name: fn.node for qn, fn in ctx.repo.funcs.items() if qn.startswith("db_interface.")}
    dbi = [m for m in ctx.repo.modules.values() if m.rel == "osaca/db_interface.py"]
    mod_globals = dict(dbi[0].globals) if dbi else {}
    n_folded = 0
    for isa, q, codes, want, unknown in tables:
        g = ctx.func(q)
        try:
            folded = [(c, consteval.call(g.node, c, functions=mod_funcs, globals=mod_globals)) for c in codes]
            rejected = [(c, consteval.call(g.node, c, functions=mod_funcs, globals=mod_globals)) for c in unknown]
        except consteval.Unsupported as x:
            ctx.unknown("R1", "%s decoder" % isa, g.where(), "%s uses a construct the constant folder does not model (%s)" % (q, x))
            continue
        n_folded += 1
        for c, got in folded:
            n_codes += 1
            exp = want(c)
            ok = got[0] == "return" and isinstance(got[1], dict) and got[1] == exp and all(
                type(got[1][k]) is type(exp[k]) for k in exp)
            ctx.check(ok, "R1", "%s code '%s' -> %s" % (isa, c, exp), g.where(),
                      "the %s decoder turns the documented operand code '%s' into %s; the naming convention (README, 'Benchmark "
                      "import') says %s" % (isa, c, got[1] if got[0] == "return" else "an exception (%s)" % got[1], exp), g.qname,
                      "%s code %s" % (isa, c))
        for c, got in rejected:
            ctx.check(got[0] == "raise", "R1", "%s: undocumented code '%s' is rejected" % (isa, c), g.where(),
                      "the %s decoder accepts the undocumented operand code '%s' as %s instead of rejecting it" % (isa, c, got[1]),
                      g.qname, "%s reject %s" % (isa, c))
    if n_folded == 2:
        ctx.floor("R1", "documented operand codes folded through the decoders", n_codes, 100)
    ctx.note("R1: codes outside the documented vocabulary that the decoders also accept (e.g. '' or 'wx' through the substring test "
             "`operand in 'wxbhsdq'`, any x86 code starting with 'r') are not part of the property")
    # dispatch
    d = ctx.func("db_interface._create_db_operand")
    dd = dict(_branches(d))
    ok = any("'aarch64'" in c and "aarch64" in U(v) for c, v in dd.items()) and any("'x86'" in c and "_x86" in U(v) for c, v in dd.items())
    ctx.check(ok, "R1", "decoder is chosen by the model's ISA", d.where(), "ISA dispatch of the decoders changed: %s" % {
        c: U(v) for c, v in dd.items()}, d.qname, "decoder dispatch")
    # name split: mnemonic '-' operands '_'
    for q in ("db_interface._get_asmbench_output", "db_interface._get_ibench_output"):
        h = ctx.func(q)
        # expression level (held in locals or used in place): NAME.split('-')[0], NAME.split('-')[1].split(SEP), decode of each part
        mn = [n for n in ast.walk(h.node) if pm.match("M_s.split('-')[0]", n) is not None]
        ops = [(n, pm.match("M_s.split('-')[1].split(M_sep)", n)) for n in ast.walk(h.node)]
        ops = [(n, b) for n, b in ops if b is not None]
        seps = {U(b["M_sep"]) for _, b in ops}
        decs = C.calls_to(h.node, "_create_db_operand")
        # every decode call sits in a comprehension / loop whose iterable is (a local holding) the operand split
        def over_split(c):
            p = C.parent(c)
            while p is not None and not isinstance(p, (ast.ListComp, ast.GeneratorExp, ast.For, ast.FunctionDef)):
                p = C.parent(p)
            it = p.generators[0].iter if isinstance(p, (ast.ListComp, ast.GeneratorExp)) else getattr(p, "iter", None)
            if it is None:
                return False
            if any(it is n for n, _ in ops):
                return True
            if isinstance(it, ast.Name):
                return any(isinstance(a, ast.Assign) and any(a.value is n for n, _ in ops) for a in C.assigns_to(h.node, it.id))
            return False
        ok = bool(mn) and seps == {"'_'"} and bool(decs) and all(over_split(c) for c in decs)
        ctx.judge(ok, bool(ops) or not decs, "R1", "%s splits MNEMONIC-OP1_OP2 and decodes every operand" % h.name, h.where(),
                  "%s does not split the form name at '-' into mnemonic and operand part, the operand part at '_' (found %s), "
                  "and decode each code" % (h.name, sorted(seps)), q, "name split")


def _r2(ctx):
    ctx.rule("R2", "snapping: 1/n for n = 1..10, symmetric 5 % window, nearest integer latency, None outside")
    f = ctx.func("db_interface._validate_measurement")
    m, mode = f.params()[0], f.params()[1]
    # a mode may be delegated: `if mode == 'tp': return helper(measurement)` -> analyse the helper for that mode
    def delegate(lit):
        for n in ast.walk(f.node):
            if isinstance(n, ast.Return) and isinstance(n.value, ast.Call) and len(n.value.args) == 1 and U(n.value.args[0]) == m:
                if any(p and U(e) == "%s == %s" % (mode, lit) for e, p in C.facts_at(n)):
                    nm = pm.call_name(n.value).split(".")[-1]
                    h = ctx.repo.funcs.get("db_interface." + nm)
                    if h is not None and len(h.params()) == 1:
                        return h, h.params()[0], True
        return f, m, False
    tf, tm, t_del = delegate("'tp'")
    lf, lm, l_del = delegate("'lt'")

    def num(e):
        """value of a constant expression (named constants were replaced by their literals on load)"""
        v = C.const_num(e)
        if v is not None:
            return v
        if isinstance(e, ast.BinOp) and isinstance(e.op, (ast.Add, ast.Sub)):
            a_, b_ = num(e.left), num(e.right)
            if a_ is not None and b_ is not None:
                return a_ + b_ if isinstance(e.op, ast.Add) else a_ - b_
        return None

    # throughput candidates: a loop over [1 / x for x in range(1, N)] or over range(1, N) with r = 1 / x in the body
    cand = None         # (loop, reciprocal variable, lower, upper)
    for l in [x for x in ast.walk(tf.node) if isinstance(x, ast.For) and isinstance(x.target, ast.Name)]:
        it = l.iter
        if isinstance(it, ast.Name):
            ds = [a_ for a_ in C.assigns_to(tf.node, it.id) if isinstance(a_, ast.Assign)]
            it = ds[0].value if len(ds) == 1 else it
        bq = pm.match("[1 / M_x for M_x in range(M_lo, M_hi)]", it)
        if bq is not None:
            cand = (l, l.target.id, num(bq["M_lo"]), num(bq["M_hi"]))
        br = pm.match("range(M_lo, M_hi)", it)
        if br is not None:
            rdef = [a_ for a_ in l.body if isinstance(a_, ast.Assign) and pm.match("1 / %s" % l.target.id, a_.value) is not None]
            if len(rdef) == 1:
                cand = (l, U(rdef[0].targets[0]), num(br["M_lo"]), num(br["M_hi"]))
    if cand is None:
        # no enumeration of the ten candidates: the reciprocal computed from the measurement, n = round(1 / m) - it must be
        # clamped to 1..10 on both sides, otherwise a measurement below 1/10.5 is snapped to an invented 1/n with n > 10
        rnd = [c for c in ast.walk(tf.node) if isinstance(c, ast.Call) and isinstance(c.func, ast.Name) and c.func.id == "round"
               and len(c.args) == 1 and not c.keywords and pm.match("1 / M_m", c.args[0]) is not None
               and U(pm.match("1 / M_m", c.args[0])["M_m"]) == tm]
        if rnd:
            txt_ = U(tf.node)
            upper = any(isinstance(c, ast.Call) and isinstance(c.func, ast.Name) and c.func.id == "min" and any(num(a_) == 10 for a_ in c.args)
                        for c in ast.walk(tf.node)) or any(isinstance(c, ast.Compare) and any(num(x_) in (10, 11) for x_ in [c.left] + c.comparators)
                                                           for c in ast.walk(tf.node))
            if not upper:
                ctx.node_bad("R2", tf, rnd[0], "the throughput candidate is 1/n with n = `%s` and no upper bound: a measurement below about 0.095 "
                             "cycles is snapped to a reciprocal 1/n with n > 10 (0.083 -> 1/12) instead of being recorded as missing; the "
                             "documented candidates are 1/n for n = 1..10" % U(rnd[0])[:60], instance="throughput candidates = 1/n, n in range(1, 11)")
                cand = "reported"
    if cand == "reported":
        cand = None
        pass
    else:
      ctx.judge(cand is not None and cand[2] == 1 and cand[3] == 11, cand is not None and cand[2] is not None and cand[3] is not None, "R2",
                "throughput candidates = 1/n, n in range(1, 11)", tf.where(cand[0]) if cand else tf.where(),
                "throughput candidates are 1/n for n in range(%s, %s), not range(1, 11)" % (cand[2], cand[3]) if cand else "no candidate loop",
                tf.qname, "reciprocals")
    tp = [n for n in ast.walk(cand[0]) if isinstance(n, ast.If) and C.bounds_on(n.test, tm) is not None] if cand else []
    if tp:
        r = cand[1]
        ok = C.bounds_on(tp[0].test, tm) == ("and", {("GtE", frozenset({(r, 0.95)})), ("LtE", frozenset({(r, 1.05)}))})
        ret = [s_ for s_ in tp[0].body if isinstance(s_, ast.Return)]
        okr = bool(ret) and pm.match("round(%s, M_d)" % r, ret[0].value) is not None
        ctx.check(okr, "R2", "an accepted throughput is the matching reciprocal", tf.where(tp[0]),
                  "accepted throughput returns %s" % (U(ret[0].value) if ret else None), tf.qname, "tp return")
        facts = [(U(e), p) for e, p in C.facts_at(tp[0])]
        ctx.check(t_del or ("%s == 'tp'" % mode, True) in facts, "R2", "reciprocal snapping applies to throughput mode", tf.where(tp[0]),
                  "reciprocal snapping is not under mode == 'tp'", tf.qname, "tp mode")
        ctx.check(ok, "R2", "throughput window = [0.95 * 1/n, 1.05 * 1/n]", tf.where(tp[0]),
                  "throughput acceptance window is `%s`" % U(tp[0].test), tf.qname, "tp window")
    else:
        ctx.unknown("R2", "tp window", tf.where(), "no `if <bounds on the measurement>` inside a loop over the reciprocal candidates found")
    lt = [n for n in ast.walk(lf.node) if isinstance(n, ast.If) and "math.floor" in U(n.test) and C.bounds_on(n.test, lm) is not None]
    if lt:
        okl = C.bounds_on(lt[0].test, lm) == ("or", {("LtE", frozenset({("math.floor(%s)" % lm, 1.05)})),
                                                     ("GtE", frozenset({("math.ceil(%s)" % lm, 0.95)}))})
        ret = [s_ for s_ in lt[0].body if isinstance(s_, ast.Return)]
        ctx.check(bool(ret) and U(ret[0].value) == "float(round(%s))" % lm, "R2", "an accepted latency is rounded to the nearest integer",
                  lf.where(lt[0]), "accepted latency returns %s" % (U(ret[0].value) if ret else None), lf.qname, "lt return")
        facts = [(U(e), p) for e, p in C.facts_at(lt[0])]
        ctx.check(l_del or ("%s == 'lt'" % mode, True) in facts, "R2", "integer snapping applies to latency mode", lf.where(lt[0]),
                  "integer snapping is not under mode == 'lt'", lf.qname, "lt mode")
        ctx.check(okl, "R2", "latency window = within 5 %% of floor or ceil", lf.where(lt[0]),
                  "latency acceptance test is `%s`" % U(lt[0].test), lf.qname, "lt window")
    else:
        ctx.unknown("R2", "lt window", lf.where(), "no `if <bounds on the measurement by floor/ceil>` found")
    for fn in {tf, lf, f}:
        last = fn.node.body[-1]
        ctx.judge(isinstance(last, ast.Return) and U(last.value) == "None", bool(lt) and bool(tp), "R2",
                  "outside the tolerances the value is None (not invented): %s" % fn.name,
                  fn.where(last), "the fall-through result of %s is %s" % (fn.name, U(last)), fn.qname, "fallthrough None " + fn.name)
    consts = sorted({c for fn in {tf, lf, f} for c in (C.const_num(n) for n in ast.walk(fn.node)) if isinstance(c, float)})
    ctx.check(consts == [0.95, 1.05], "R2", "the only tolerance constants are 0.95 / 1.05", f.where(),
              "tolerance constants are %s" % consts, f.qname, "constants")
    # callers pass the measurement and the right mode
    for q, pairs in (("db_interface._get_asmbench_output", {"throughput": ("'tp'", "i + 2"), "latency": ("'lt'", "i + 1")}),
                     ("db_interface._get_ibench_output", {"throughput": ("'tp'", None), "latency": ("'lt'", None)})):
        h = ctx.func(q)
        calls = C.calls_to(h.node, "_validate_measurement")
        got = {}
        for c in calls:
            st = C.cfg_of(h).node_of(c)
            tgt = None
            if isinstance(st, ast.Assign) and isinstance(st.targets[0], ast.Attribute):
                tgt = st.targets[0].attr
            for k in getattr(getattr(c, "_parent", None), "keywords", []) if False else []:
                pass
            par = getattr(c, "_parent", None)
            if isinstance(par, ast.keyword):
                tgt = par.arg
            # the line the measurement is read from: <input>[<block start> + k] inside `for <block start> in range(..)`
            lp = C.enclosing_loop(c)
            lv = U(lp.target) if isinstance(lp, ast.For) and isinstance(lp.target, ast.Name) else None
            offs = []
            for sub in ast.walk(C.flow_of(h).subst(c.args[0])):
                if isinstance(sub, ast.Subscript) and U(sub.value) == h.params()[0] and lv is not None:
                    a = C.affine(sub.slice)
                    if a is not None and a.get(lv) == 1 and set(a) <= {lv, 1}:
                        offs.append("i + %d" % a.get(1, 0) if a.get(1, 0) else "i")
            got[tgt] = (U(c.args[1]), U(c.args[0]), offs)
        for fld, (mode_lit, idx) in pairs.items():
            ok = fld in got and got[fld][0] == mode_lit and (idx is None or got[fld][2] == [idx])
            ctx.judge(ok, fld in got, "R2", "%s: %s is validated in mode %s%s" % (h.name, fld, mode_lit, " from line %s" % idx if idx else ""),
                      h.where(), "%s validates %s as %s" % (h.name, fld, got.get(fld)), q, "%s mode" % fld)


def _r3(ctx):
    ctx.rule("R3", "TP and LT lines of one ibench form update the same entry")
    f = ctx.func("db_interface._get_ibench_output")
    key = pm.find("M_k = '-'.join(M_i.split('-')[:2])", f.node)
    if not key and not any("'-'.join" in U(n) for n in ast.walk(f.node) if isinstance(n, ast.Call)):
        ctx.unknown("R3", "merge key", f.where(), "no '-'.join(...) key construction found")
        return
    if not key:
        ctx.bad("R3", "merge key", f.where(), "the merge key is not the first two '-'-separated parts of the line's form name "
                "(mnemonic-operands without the -TP/-LT suffix)", f.qname, "merge key")
        return
    k = U(key[0][1]["M_k"])
    store = pm.find("db_entries[%s] = M_e" % k, f.node)
    ev = U(store[0][1]["M_e"]) if store else "entry"
    reuse = []
    for n in ast.walk(f.node):
        if isinstance(n, ast.Assign) and len(n.targets) == 1 and U(n.targets[0]) == ev:
            # `e = db[k]` where `k in db` holds, or `e = db[k] if k in db else <new entry>`
            if U(n.value) == "db_entries[%s]" % k and C.holds_at(n, "%s in db_entries" % k):
                reuse.append(n)
            elif isinstance(n.value, ast.IfExp) and C.CT(U(n.value.test)) == C.CT("%s in db_entries" % k) \
                    and U(n.value.body) == "db_entries[%s]" % k:
                reuse.append(n)
    looked = [n for n in ast.walk(f.node) if isinstance(n, ast.If) and U(n.test) == "%s in db_entries" % k]
    other_idiom = any(isinstance(n, ast.Call) and isinstance(n.func, ast.Attribute) and n.func.attr in ("get", "setdefault")
                      and U(n.func.value) == "db_entries" for n in ast.walk(f.node))
    ctx.judge(bool(reuse) and bool(store), not other_idiom, "R3",
              "an existing entry of the same key is re-used and stored back", f.where(),
              "the second line of a form does not update the entry created by the first (lookup=%s, store=%s)" % (bool(reuse), bool(store)),
              f.qname, "merge reuse")
    if reuse:
        # a new entry is built only where the key is known to be absent
        new = [c for c in ast.walk(f.node) if isinstance(c, ast.Call) and pm.call_name(c) == "InstructionForm"]
        def absent(c):
            if (C.CT("%s in db_entries" % k), False) in C.norm_facts(c):
                return True
            p_ = C.parent(c)
            return isinstance(p_, ast.IfExp) and p_.orelse is c and C.CT(U(p_.test)) == C.CT("%s in db_entries" % k)
        ctx.check(bool(new) and all(absent(c) for c in new), "R3",
                  "a new entry is created only when the key is new", f.where(), "a new entry is created although the key exists",
                  f.qname, "merge new")
    tp = [n for n in ast.walk(f.node) if isinstance(n, ast.If) and U(n.test) == "'TP' in instruction"]
    ok = bool(tp) and any(U(s).startswith("entry.throughput = ") for s in tp[0].body) and any(
        isinstance(s, ast.If) and U(s.test) == "'LT' in instruction" and any(U(x).startswith("entry.latency = ") for x in s.body)
        for s in tp[0].orelse)
    ctx.check(ok, "R3", "TP lines set throughput, LT lines set latency (of that entry)", f.where(),
              "TP/LT dispatch changed", f.qname, "tp/lt dispatch")


def _r4(ctx):
    ctx.rule("R4", "asmbench block indexing stays within the bounds the loop guarantees, or is guarded")
    f = ctx.func("db_interface._get_asmbench_output")
    data = f.params()[0]
    loops = [n for n in ast.walk(f.node) if isinstance(n, ast.For) and C.is_call_to(n.iter, "range")
             and U(C.arg_of(n.iter, 1)) == "len(%s)" % data]
    if len(loops) != 1:
        ctx.broken("R4: block loop `for i in range(0, len(input_data), 4)` not found")
    loop = loops[0]
    i = U(loop.target)
    step = C.const_num(C.arg_of(loop.iter, 2)) if C.arg_of(loop.iter, 2) is not None else 1
    ctx.check(step == 4 and C.const_num(loop.iter.args[0]) == 0, "R4", "blocks start every 4 lines from 0", f.where(loop),
              "block loop is %s" % U(loop.iter), f.qname, "block stride")
    flow = C.flow_of(f)
    subs = [n for n in ast.walk(loop) if isinstance(n, ast.Subscript) and U(n.value) == data]
    ctx.floor("R4", "indexings of the input lines", len(subs), 4)
    LEN = "len(%s)" % data

    def bound_fact(e):
        """(K, op) when the comparison `e` says  i + K <op> len(data)  (locals substituted, both sides affine), else None"""
        if not (isinstance(e, ast.Compare) and len(e.ops) == 1 and isinstance(e.ops[0], (ast.Lt, ast.LtE, ast.Gt, ast.GtE))):
            return None
        la, ra = C.affine(flow.subst(e.left)), C.affine(flow.subst(e.comparators[0]))
        d = {k_: la.get(k_, 0) - ra.get(k_, 0) for k_ in set(la) | set(ra)}
        d = {k_: v for k_, v in d.items() if v != 0 or k_ == 1}
        op = {ast.Lt: "<", ast.LtE: "<=", ast.Gt: ">", ast.GtE: ">="}[type(e.ops[0])]
        if set(d) - {i, LEN, 1}:
            return None
        if d.get(i) == 1 and d.get(LEN) == -1:
            return d.get(1, 0), op
        if d.get(i) == -1 and d.get(LEN) == 1:
            return -d.get(1, 0), {"<": ">", "<=": ">=", ">": "<", ">=": "<="}[op]
        return None

    malformed = [n for n in loop.body if isinstance(n, ast.If) and any(isinstance(x, ast.Break) for x in n.body)]
    for sub in subs:
        aff = C.affine(flow.subst(sub.slice)) if not isinstance(sub.slice, ast.Slice) else None
        if aff is None or set(aff) - {i, 1} or aff.get(i) != 1:
            ctx.node_bad("R4", f, sub, "index %s is not of the form i + k" % U(sub.slice))
            continue
        k = aff.get(1, 0)
        if k == 0:
            ctx.node_ok("R4", f, sub, "%s[i]: i < len is the loop's own bound" % data)
            continue
        # guaranteed: i <= len - 1. need i + k <= len - 1: look for a guard
        facts = [(e, p) for e, p in C.facts_at(sub, stop=loop)]
        guarded = False
        for e_, p in facts:
            # i + k < len(data) known true, or i + K > len(data) known false with K > k
            bf = bound_fact(e_)
            if bf is not None:
                K, op = bf
                if p and op == "<" and K >= k:
                    guarded = True
                if p and op == "<=" and K - 1 >= k:
                    guarded = True
                if (not p) and op == ">" and K - 1 >= k:   # not (i+K > len) => i+K <= len => i+K-1 < len
                    guarded = True
                if (not p) and op == ">=" and K >= k:
                    guarded = True
        in_try = any(isinstance(x, ast.Try) for x in _ancestors(sub, loop))
        if guarded or in_try:
            ctx.node_ok("R4", f, sub, "%s[i + %d] is guarded" % (data, k))
        else:
            ctx.bad("R4", "%s[%s]" % (data, U(sub.slice)), f.where(sub),
                    "for i in range(0, len, 4) only guarantees i <= len - 1; `%s[%s]` is evaluated without a dominating "
                    "guard i + %d < len(%s) (or try): a file whose last block lacks %s raises IndexError instead of "
                    "importing / rejecting that block" % (data, U(sub.slice), k, data,
                                                       "the separating empty line" if k == 3 else "its line %d" % (k + 1)),
                    f.qname, "%s[%s]" % (data, U(sub.slice)), f.module.excerpt(sub))
    ctx.check(len(malformed) == 1 and malformed[0] is loop.body[0] if loop.body else False, "R4",
              "a malformed block stops the import (break), earlier entries are kept", f.where(loop),
              "the malformed-block test is not the first statement of the block loop or does not break", f.qname, "malformed break")
    rets = [r for r in ast.walk(f.node) if isinstance(r, ast.Return)]
    ctx.check(len(rets) == 1 and U(rets[0].value) == "db_entries" and not C.in_subtree(rets[0], loop), "R4",
              "the entries collected so far are returned", f.where(), "return changed", f.qname, "return entries")
    st = pm.find("db_entries[M_k] = entry", loop)
    ctx.check(bool(st), "R4", "every well-formed block yields an entry", f.where(loop), "entries are not stored per block", f.qname, "store entry")


def _ancestors(node, stop):
    p = getattr(node, "_parent", None)
    while p is not None and p is not stop:
        yield p
        p = getattr(p, "_parent", None)


def _r5(ctx):
    ctx.rule("R5", "every parsed entry is inserted; the dump covers the list entries are appended to")
    f = ctx.func("db_interface.import_benchmark_output")
    loops = [n for n in ast.walk(f.node) if isinstance(n, ast.For) and U(n.iter) in ("db_entries", "db_entries.values()", "db_entries.items()")]
    ok = False
    if loops:
        calls = C.calls_to(loops[0], "set_instruction_entry")
        ok = len(calls) == 1 and not any(isinstance(x, (ast.If, ast.Break, ast.Continue)) for x in ast.walk(loops[0]))
        if ok:
            a = U(calls[0].args[0])
            ok = a in ("db_entries[%s]" % U(loops[0].target), U(loops[0].target))
    ctx.check(ok, "R5", "every entry of the parsed dict is passed to set_instruction_entry", f.where(),
              "not every parsed entry is inserted into the model", f.qname, "insert all")
    # a form that has been parsed reaches the dict on every path of its iteration (rejected measurements are recorded as
    # missing, not dropped with the form)
    for q in ("db_interface._get_ibench_output", "db_interface._get_asmbench_output"):
        g = ctx.func(q)
        cfg = C.cfg_of(g)
        created = [n for n in ast.walk(g.node) if isinstance(n, ast.Assign) and isinstance(n.targets[0], ast.Name)
                   and C.is_call_to(n.value, "InstructionForm")]
        for cr in created:
            ev = cr.targets[0].id
            loop = C.enclosing_loop(cr)
            stores = [n for n in ast.walk(g.node) if isinstance(n, ast.Assign) and isinstance(n.targets[0], ast.Subscript)
                      and isinstance(n.value, ast.Name) and n.value.id == ev]
            if loop is None or not stores:
                ctx.unknown("R5", "%s: parsed form reaches the result" % g.name, g.where(cr), "no `<dict>[key] = %s` store / loop found" % ev)
                continue
            lost = cfg.reachable(cr, loop, avoid=stores, within=loop)
            skips = [x for x in ast.walk(loop) if isinstance(x, ast.Continue) and cfg.reachable(cr, x, avoid=stores, within=loop)]
            ctx.check(not lost, "R5", "%s: a form that was parsed is stored on every path of its iteration" % g.name,
                      g.where(skips[0]) if skips else g.where(cr),
                      "after `%s = InstructionForm(...)` an iteration can return to the loop head without `%s`%s: a form whose "
                      "measurement is rejected (outside the 5%% window) is then absent from the emitted model instead of appearing "
                      "with the value recorded as missing" % (ev, U(stores[0]), " (through the `continue` at line %d)" % skips[0].lineno if skips else ""),
                      g.qname, "form stored on every path")
    src = {"ibench": "_get_ibench_output", "asmbench": "_get_asmbench_output"}
    for kind, fn in src.items():
        # the parser for this kind runs exactly where the facts say bench_type is this kind (if / elif / else after the
        # membership guard / conditional expression)
        bt = f.params()[1]
        hit = []
        for c in C.calls_to(f.node, fn):
            nf = C.norm_fact_nodes(c)
            eqs = {x.comparators[0].value: pol for x, pol in nf if isinstance(x, ast.Compare) and isinstance(x.ops[0], ast.Eq)
                   and U(x.left) == bt and isinstance(x.comparators[0], ast.Constant)}
            eqs.update({x.left.value: pol for x, pol in nf if isinstance(x, ast.Compare) and isinstance(x.ops[0], ast.Eq)
                        and U(x.comparators[0]) == bt and isinstance(x.left, ast.Constant)})
            domain = None
            for x, pol in nf:
                if pol and isinstance(x, ast.Compare) and isinstance(x.ops[0], ast.In) and U(x.left) == bt:
                    d = C.flow_of(f).subst(x.comparators[0])
                    if isinstance(d, (ast.List, ast.Tuple, ast.Set)) and all(isinstance(e_, ast.Constant) for e_ in d.elts):
                        domain = {e_.value for e_ in d.elts}
            if eqs.get(kind) is True or (domain is not None and kind in domain and all(eqs.get(o) is False for o in domain - {kind})):
                hit.append(c)
        ctx.check(bool(hit), "R5", "%s files are parsed by %s" % (kind, fn), f.where(), "dispatch for %s changed" % kind, f.qname, "dispatch " + kind)
    dumps = C.calls_to(f.node, "dump")
    ctx.check(len(dumps) >= 1 and all(U(c.func.value) == "mm" for c in dumps), "R5", "the model that received the entries is dumped",
              f.where(), "another object is dumped", f.qname, "dump object")
    si = ctx.func("MachineModel.set_instruction")
    app = pm.find('self._data["instruction_forms"].append(M_e)', si.node)
    facts = [(U(e), p) for e, p in C.facts_at(app[0][0])] if app else []
    ctx.check(bool(app) and any(p and t.endswith("is None") for t, p in facts), "R5", "a new form is appended to instruction_forms",
              si.where(), "set_instruction no longer appends new forms to the list that is dumped", si.qname, "append new form")
    sets = {a.targets[0].attr for a in ast.walk(si.node) if isinstance(a, ast.Assign) and isinstance(a.targets[0], ast.Attribute)
            and isinstance(a.value, ast.Name) and a.value.id == a.targets[0].attr}
    ctx.check({"mnemonic", "operands", "latency", "throughput", "port_pressure"} <= sets, "R5",
              "the inserted form carries mnemonic, operands, latency, throughput, port pressure", si.where(),
              "set_instruction copies only %s" % sorted(sets), si.qname, "fields copied")
    se = ctx.func("MachineModel.set_instruction_entry")
    c = C.calls_to(se.node, "set_instruction")
    # every parameter of set_instruction receives the entry's attribute of the same name (positional or keyword, through locals)
    bound = {}
    if c:
        ev = se.params()[1]
        sflow = C.flow_of(se)
        for prm, a in list(zip(si.params()[1:], c[0].args)) + [(k_.arg, k_.value) for k_ in c[0].keywords if k_.arg]:
            bound[prm] = U(sflow.subst(a)).replace(ev + ".", "entry.", 1) if U(sflow.subst(a)).startswith(ev + ".") else U(sflow.subst(a))
    want = ["mnemonic", "operands", "latency", "port_pressure", "throughput", "uops"]
    ok = bool(c) and all(bound.get(w) == "entry." + w for w in want) and set(want) <= set(si.params()[1:])
    ctx.check(ok, "R5", "entry fields are passed in the parameter order of set_instruction", se.where(),
              "set_instruction_entry passes %s to set_instruction%s" % (bound if c else None, si.params()[1:]),
              se.qname, "argument order")
    d = ctx.func("MachineModel.dump")
    it = [n for n in ast.walk(d.node) if isinstance(n, ast.For) and U(n.iter).replace("'", '"') == 'self._data["instruction_forms"]']
    out = pm.find('M_y.dump({"instruction_forms": M_l}, M_s)', d.node)
    ok = bool(it) and bool(out) and bool(pm.find("%s.append(M__)" % U(out[0][1]["M_l"]), it[0])) and not any(
        isinstance(x, (ast.Continue, ast.Break)) for x in ast.walk(it[0]))
    ctx.check(ok, "R5", "dump emits every element of instruction_forms", d.where(), "dump no longer emits every instruction form", d.qname,
              "dump all")


def _r6(ctx):
    ctx.rule("R6", "decoders and parsers of the import hand out fresh values: no memoised / global / default object is mutated")
    from .c18 import effects_of
    eff = effects_of(ctx)
    root = "db_interface.import_benchmark_output"
    if root not in eff.summ:
        ctx.broken("R6: %s not found" % root)
    reach = eff.reachable_from([root])
    own = [f for f in eff.funcs if f.qname in reach and f.module.rel == "osaca/db_interface.py"]
    ctx.floor("R6", "import functions examined", len(own), 5)
    n = 0
    for f in own:
        ctx.touch(f)
        for node, lab, what in eff.summ[f.qname].sinks:
            kind = lab.origin.split(" ")[0]
            if kind == "MODEL":
                continue        # writing the model that is being built is the purpose of the import
            n += 1
            ctx.bad("R6", "%s in %s" % (what, f.qname), f.where(node),
                    "the import mutates process-shared storage in place: %s; the object is %s. A decoded operand (or "
                    "parsed entry) that is memoised / global is the SAME object for every later form with the same code, so "
                    "what one form's decoding writes into it shows up in the operands of other forms (and differs between "
                    "the first and later imports of one process)" % (what, lab.origin), f.qname, U(node), f.module.excerpt(node))
        if not eff.summ[f.qname].sinks:
            ctx.ok("R6", "%s mutates no shared object" % f.qname, f.where())
    ctx.extra["import_functions"] = sorted(f.qname for f in own)


def _r7(ctx):
    ctx.rule("R7", "an import that hits an existing entry updates what the dump emits, and hits only an entry of the same operand kinds")
    mm = "MachineModel"
    si = ctx.func(mm + ".set_instruction")
    gi = ctx.func(mm + ".get_instruction")
    dump = ctx.func(mm + ".dump")
    # (a) where get_instruction looks, and what dump emits
    looks = sorted({m.group(1) for m in re.finditer(r"self\._data\[['\"](\w+)['\"]\]", U(gi.node))})
    emits = [n for n in ast.walk(dump.node) if isinstance(n, ast.For) and re.match(r"self\._data\[['\"]instruction_forms['\"]\]$", U(n.iter))]
    found = [a for a in C.assigns_to(si.node, "instr_data") if C.is_call_to(a.value, "get_instruction")]
    if looks != ["instruction_forms_dict"] or not emits or not found:
        ctx.unknown("R7", "update path of set_instruction", si.where(), "get_instruction looks in %s; dump loop over instruction_forms found=%s" % (looks, bool(emits)))
        return
    # every object put into the look-up index must be the object that sits in the dumped list
    n_sites = 0
    for f in ctx.repo.all_funcs():
        if f.cls is None or f.cls.name != mm:
            continue
        for c in ast.walk(f.node):
            if not (isinstance(c, ast.Call) and isinstance(c.func, ast.Attribute) and c.func.attr == "append" and len(c.args) == 1
                    and "instruction_forms_dict" in U(c.func.value)):
                continue
            n_sites += 1
            v = c.args[0]
            same = [x for x in ast.walk(f.node) if isinstance(x, ast.Call) and isinstance(x.func, ast.Attribute) and x.func.attr == "append"
                    and re.search(r"\[['\"]instruction_forms['\"]\]$", U(x.func.value)) and len(x.args) == 1 and U(x.args[0]) == U(v)]
            lp = C.enclosing_loop(c)
            elem = lp is not None and isinstance(lp, ast.For) and re.search(r"\[['\"]instruction_forms['\"]\]$", U(lp.iter)) and U(lp.target) == U(v)
            if same or elem:
                ctx.ok("R7", "%s: index and dumped list hold the same object `%s`" % (f.name, U(v)), f.where(c))
            else:
                ctx.bad("R7", "%s: look-up index and dumped list hold different objects" % f.name, f.where(c),
                        "`%s` files `%s` in the look-up index only; the list that dump() emits keeps another object for the same entry. "
                        "set_instruction() updates what get_instruction() finds - the index object - so an import that hits an "
                        "existing entry changes nothing in the emitted model: `VADDPD-x_x_x-TP: 0.250` / `-LT: 9.000` imported into "
                        "zen2 is emitted with the old 0.5 / 3.0" % (U(c)[:90], U(v)), f.qname, "index object " + U(v))
    ctx.floor("R7", "append sites into the look-up index", n_sites, 2)
    # (b) the operand comparison the importer's DB-format operands end in
    cmp_ = ctx.repo.funcs.get(mm + "._compare_db_entries")
    if cmp_ is None:
        ctx.unknown("R7", "DB-format operand comparison", gi.where(), "_compare_db_entries not found")
        return
    cfg = C.cfg_of(cmp_)
    live = [r for r in ast.walk(cmp_.node) if isinstance(r, ast.Return) and not any(
        isinstance(p, ast.Return) and p is not r and cfg.dominates(p, r) and not C.enclosing_loops(p) and C.parent(p) is cmp_.node
        for p in cmp_.node.body)]
    first = next((st for st in cmp_.node.body if not (isinstance(st, ast.Expr) and isinstance(st.value, ast.Constant))), None)
    const = isinstance(first, ast.Return) and isinstance(first.value, ast.Constant)
    callers = [f for f in ctx.repo.all_funcs() if C.calls_to(f.node, "_compare_db_entries")]
    if const and callers:
        ctx.bad("R7", "DB-format operands are compared", cmp_.where(first),
                "_compare_db_entries starts with `%s` (the comparison below it is dead code) and is where %s sends operands that are "
                "not parsed classes - the dictionaries the importer builds: an imported form 'matches' the first existing entry with "
                "the same mnemonic and operand count whatever its operand kinds, and is written over that entry instead of being added"
                % (U(first), ", ".join(f.name for f in callers)), cmp_.qname, "constant comparison " + U(first))
    else:
        ctx.ok("R7", "DB-format operands are compared field by field", cmp_.where())
    # (c) while that comparison is constant, a form filed by set_instruction must not become visible to the look-ups of the
    # following imported forms under the folded key get_instruction uses - else two NEW forms of one mnemonic with equal
    # operand count collapse into one entry (the second is written over the first)
    if const and callers:
        lk = [c for c in ast.walk(gi.node) if isinstance(c, ast.Call) and isinstance(c.func, ast.Attribute) and c.func.attr == "get"
              and "instruction_forms_dict" in U(c.func.value) and c.args]
        lk += [x for x in ast.walk(gi.node) if isinstance(x, ast.Subscript) and "instruction_forms_dict" in U(x.value)
               and not isinstance(x.slice, ast.Constant)]
        fold = None
        for x in lk:
            k = C.flow_of(gi).subst(x.args[0] if isinstance(x, ast.Call) else x.slice)
            if isinstance(k, ast.Call) and isinstance(k.func, ast.Attribute) and k.func.attr in ("upper", "lower", "casefold"):
                fold = k.func.attr
        apps = [c for c in ast.walk(si.node) if isinstance(c, ast.Call) and isinstance(c.func, ast.Attribute) and c.func.attr == "append"
                and isinstance(c.func.value, ast.Subscript) and "instruction_forms_dict" in U(c.func.value.value)]
        for c in apps:
            k = C.flow_of(si).subst(c.func.value.slice)
            kfold = k.func.attr if isinstance(k, ast.Call) and isinstance(k.func, ast.Attribute) and k.func.attr in (
                "upper", "lower", "casefold") else None
            if fold is not None and kfold == fold:
                ctx.bad("R7", "new forms stay apart while the DB-format comparison is constant", si.where(c),
                        "set_instruction files a new form under `%s`, the folded key get_instruction looks up, and the comparison the "
                        "importer's operands end in (_compare_db_entries) is constant True: the second imported form of a mnemonic that "
                        "is new to the model, with the same number of operands (`vfoobarpd-x_x_x` then `vfoobarpd-y_y_mbois`), 'matches' "
                        "the first one and is written over it - the first imported form is missing from the emitted model" % U(k),
                        si.qname, "index key of imported forms " + U(k))
            else:
                ctx.ok("R7", "new forms are filed under `%s` (look-up folds with %s)" % (U(k), fold), si.where(c))


def run(ctx):
    C.require_locals(ctx, ctx.func('db_interface._get_asmbench_output'), ['db_entries', 'entry'])
    C.require_locals(ctx, ctx.func('db_interface._get_ibench_output'), ['db_entries', 'entry', 'instruction', 'line'])
    C.require_locals(ctx, ctx.func('db_interface.import_benchmark_output'), ['db_entries', 'mm', 'bench_type'])
    _r1(ctx)
    _r2(ctx)
    _r3(ctx)
    _r4(ctx)
    _r5(ctx)
    _r6(ctx)
    _r7(ctx)
