"""Rules shared by C09 (x86 AT&T parser) and C10 (AArch64 parser)."""
import ast
import json
import re

from .. import pm
from ..pm import U
from ..ppgrammar import Grammar, find_named, may_be_hex, names_tree, terminals
from ..report import VERIF
from . import common as C


def _spec(name, cls):
    return json.loads((VERIF / "spec" / name).read_text())[cls]


# ------------------------------------------------------------------------------- R1 / R2 (BaseParser)
def r1_numbering(ctx):
    ctx.rule("R1", "line numbers are 1-based positions among ALL physical lines; blank lines are skipped, not renumbered")
    f = ctx.func("BaseParser.parse_file")
    content, start = f.params()[1], f.params()[2]
    sp = pm.find("M_l = %s.split('\\n')" % content, f.node) + pm.find("M_l = %s.splitlines()" % content, f.node)
    if not sp:
        ctx.bad("R1", "line split", f.where(), "the file is not split into physical lines with split('\\n')", f.qname, "line split")
        return
    lines = U(sp[0][1]["M_l"])
    loops = [n for n in ast.walk(f.node) if isinstance(n, ast.For) and C.is_call_to(n.iter, "enumerate") and U(n.iter.args[0]) == lines]
    if len(loops) != 1 or not isinstance(loops[0].target, ast.Tuple):
        ctx.bad("R1", "enumerate over all lines", f.where(), "lines are not visited with enumerate(%s): %s" % (
            lines, [U(n.iter) for n in ast.walk(f.node) if isinstance(n, ast.For)]), f.qname, "enumerate all lines")
        return
    l = loops[0]
    i, line = U(l.target.elts[0]), U(l.target.elts[1])
    st = C.arg_of(l.iter, 1, "start")
    base = C.const_num(st) if st is not None else 0
    calls = C.calls_to(l, "parse_line")
    ok = False
    if len(calls) == 1 and len(calls[0].args) == 2:
        aff = C.affine(calls[0].args[1])
        ok = aff == {i: 1, start: 1, 1: 1 - base} and U(calls[0].args[0]) == line
    ctx.check(ok, "R1", "parse_line(line, i + 1 + start_line)", f.where(calls[0]) if calls else f.where(l),
              "the line number handed to parse_line is `%s` (enumerate start %s): it must be the 1-based position of the "
              "physical line (+ start_line)" % (U(calls[0].args[1]) if calls and len(calls[0].args) > 1 else None, base), f.qname,
              "line number expression")
    skip = [n for n in l.body if isinstance(n, ast.If) and U(n.test) in ("%s.strip() == ''" % line, "not %s.strip()" % line)
            and any(isinstance(s, ast.Continue) for s in n.body)]
    cfg = C.cfg_of(f)
    ctx.check(len(skip) == 1 and bool(calls) and cfg.dominates(skip[0], calls[0]), "R1", "blank lines are skipped inside the numbered loop",
              f.where(l), "blank lines are not skipped by `if line.strip() == '': continue` inside the enumerate loop (filtering "
              "them before numbering shifts every later line number)", f.qname, "blank skip")
    pre = [n for n in ast.walk(f.node) if isinstance(n, (ast.ListComp, ast.Call)) and not C.in_subtree(n, l)
           and ("strip()" in U(n) and lines in U(n) and isinstance(n, ast.ListComp))]
    ctx.check(not pre, "R1", "the line list is not filtered before numbering", f.where(),
              "the line list is filtered/rewritten before enumeration: %s" % [U(p)[:60] for p in pre], f.qname, "no pre-filter")
    app = pm.find("M_r.append(self.parse_line(M__, M__))", l)
    rets = [r for r in ast.walk(f.node) if isinstance(r, ast.Return)]
    ctx.check(bool(app) and len(rets) == 1 and U(rets[0].value) == U(app[0][1]["M_r"]), "R1",
              "exactly one parsed line per non-blank line, in file order", f.where(),
              "parsed lines are not appended one per non-blank line and returned", f.qname, "one result per line")


def r2_verbatim(ctx, cls):
    ctx.rule("R2", "the parsed line carries its verbatim text and the given line number")
    f = ctx.func(cls + ".parse_line")
    line, num = f.params()[1], f.params()[2]
    ctor = [c for c in ast.walk(f.node) if isinstance(c, ast.Call) and pm.call_name(c) == "InstructionForm"]
    ok = False
    if ctor:
        kw = {k.arg: U(k.value) for k in ctor[0].keywords}
        ok = kw.get("line") == line and kw.get("line_number") == num
    reassigned = [a for a in ast.walk(f.node) if isinstance(a, (ast.Assign, ast.AugAssign)) and U(
        a.targets[0] if isinstance(a, ast.Assign) else a.target) in (line, num)]
    ctx.check(ok and not reassigned, "R2", "InstructionForm(line=<untouched parameter>, line_number=<parameter>)", f.where(),
              "the line text / number stored in the result is not the untouched parameter", f.qname, "verbatim line")
    rets = [r for r in ast.walk(f.node) if isinstance(r, ast.Return) and r.value is not None]
    var = U(C.cfg_of(f).node_of(ctor[0]).targets[0]) if ctor and isinstance(C.cfg_of(f).node_of(ctor[0]), ast.Assign) else None
    ctx.check(bool(rets) and all(U(r.value) == var for r in rets), "R2", "that object is what parse_line returns", f.where(),
              "parse_line returns something else than the form carrying line and number", f.qname, "returned form")
    late = [a for a in ast.walk(f.node) if isinstance(a, ast.Assign) and isinstance(a.targets[0], ast.Attribute)
            and a.targets[0].attr in ("line", "line_number")]
    ctx.check(not late, "R2", "line / line_number are not overwritten later", f.where(), "line or line_number is overwritten: %s" % [
        U(a) for a in late], f.qname, "no overwrite")


# ------------------------------------------------------------------------------- R3 classification
def r3_classification(ctx, cls, order, unguarded_ok=()):
    ctx.rule("R3", "classification attempts in the order %s; later attempts only if nothing matched; mnemonic only for instructions" % (
        "/".join(order)))
    f = ctx.func(cls + ".parse_line")
    cfg = C.cfg_of(f)
    tries = [n for n in ast.walk(f.node) if isinstance(n, ast.Try)]
    kinds = []
    for t in tries:
        txt = U(t.body)
        kind = None
        for k, pat in (("comment", "self.comment.parseString"), ("llvm", "self.llvm_markers.parseString"),
                       ("label", "self.label.parseString"), ("directive", "self.directive.parseString"),
                       ("instruction", "self.parse_instruction(")):
            if pat in txt:
                kind = k
        if kind:
            kinds.append((kind, t))
    got = [k for k, _ in kinds if k != "llvm"]
    ctx.check(got == list(order), "R3", "attempt order %s" % got, f.where(),
              "attempts are made in the order %s, the grammar alternatives overlap (x86 '.L1:' also parses as a directive, "
              "AArch64 '.byte 100' also as an instruction), so the order must be %s" % (got, list(order)), f.qname, "attempt order")
    res = None
    for k, t in kinds:
        # later attempts guarded by `result is None`
        facts = [(U(e), p) for e, p in C.facts_at(t)]
        guarded = ("result is None", True) in facts
        if k == order[0] or k == "llvm" or k in unguarded_ok:
            continue
        ctx.check(guarded, "R3", "%s attempt only if no earlier attempt matched" % k, f.where(t),
                  "the %s attempt is not guarded by `result is None`: an earlier classification would be overwritten" % k, f.qname,
                  "%s guard" % k)
    for k, t in kinds:
        hp = [h for h in t.handlers]
        if k == "instruction":
            ok = bool(hp) and all(any(isinstance(s, ast.Raise) for s in h.body) for h in hp)
            ctx.check(ok, "R3", "a line that is none of the four kinds is an error", f.where(t),
                      "an unparsable line is swallowed instead of raising", f.qname, "unparsable raises")
        else:
            ok = bool(hp) and all("ParseException" in U(h.type) and all(isinstance(s, ast.Pass) for s in h.body) for h in hp)
            ctx.check(ok, "R3", "%s attempt: only a ParseException falls through to the next kind" % k, f.where(t),
                      "the %s attempt's handler is %s" % (k, [U(h.type) for h in hp]), f.qname, "%s handler" % k)
        # parseAll: the whole line must match
        pcs = [c for c in ast.walk(t) if isinstance(c, ast.Call) and isinstance(c.func, ast.Attribute) and c.func.attr in ("parseString", "parse_string")]
        for c in pcs:
            pa = [k2 for k2 in c.keywords if k2.arg in ("parseAll", "parse_all")]
            ctx.check(bool(pa) and U(pa[0].value) == "True" and U(c.args[0]) == f.params()[1], "R3",
                      "%s grammar must match the whole line" % k, f.where(c), "parseString without parseAll=True (or on another "
                      "string): a prefix match would classify the line", f.qname, "%s parseAll" % k)
    # attribute assignments per branch
    for attr, kind in (("mnemonic", "instruction"), ("operands", "instruction"), ("label", "label"), ("directive", "directive")):
        sts = [a for a in ast.walk(f.node) if isinstance(a, ast.Assign) and isinstance(a.targets[0], ast.Attribute)
               and a.targets[0].attr == attr]
        okk = bool(sts)
        for a in sts:
            owner = [k for k, t in kinds if C.in_subtree(a, t) or (k == "instruction" and cfg.dominates(t, a) and any(
                C.in_subtree(a, x) for x in ast.walk(f.node) if isinstance(x, ast.If) and C.in_subtree(t, x)))]
            if kind not in owner:
                okk = False
        ctx.check(okk, "R3", "%s is set only by the %s branch" % (attr, kind), f.where(),
                  "%s is assigned outside the %s branch" % (attr, kind), f.qname, "%s only in %s" % (attr, kind))
    pi = ctx.func(cls + ".parse_instruction")
    pc = [c for c in ast.walk(pi.node) if isinstance(c, ast.Call) and isinstance(c.func, ast.Attribute) and c.func.attr in ("parseString", "parse_string")]
    ok = bool(pc) and any(k.arg in ("parseAll", "parse_all") and U(k.value) == "True" for k in pc[0].keywords) and U(
        pc[0].func.value) == "self.instruction_parser"
    ctx.check(ok, "R3", "instruction grammar must match the whole line", pi.where(), "parse_instruction does not use parseAll=True",
              pi.qname, "instruction parseAll")


# ------------------------------------------------------------------------------- R4 keys
class Read:
    def __init__(self, path, node, func, guarded):
        self.path = path
        self.node = node
        self.func = func
        self.guarded = guarded


def key_reads(ctx, cls, gr):
    """All result-name reads in the parser's post-processing, as paths below one operand / line."""
    consts = gr.consts
    reads = []
    roots = {}  # function name -> {param: path}
    c = ctx.repo.cls(cls)

    def const_of(e):
        if isinstance(e, ast.Constant) and isinstance(e.value, str):
            return e.value
        if isinstance(e, ast.Attribute) and isinstance(e.value, ast.Name) and e.value.id == "self" and e.attr in consts:
            return consts[e.attr]
        return None

    def path_of(e, env):
        if isinstance(e, ast.Name):
            return env.get(e.id)
        if isinstance(e, ast.Subscript):
            base = path_of(e.value, env)
            if base is None:
                return None
            k = const_of(e.slice)
            if k is not None:
                return base + (k,)
            if isinstance(e.slice, ast.Constant) and isinstance(e.slice.value, int):
                return base
            if isinstance(e.slice, ast.Name) and e.slice.id in env.get("__keys__", {}):
                return base + ("|".join(env["__keys__"][e.slice.id]),)
            return None
        if isinstance(e, ast.Call) and isinstance(e.func, ast.Attribute) and e.func.attr == "get" and e.args:
            base = path_of(e.func.value, env)
            k = const_of(e.args[0])
            if base is not None and k is not None:
                return base + (k,)
        return None

    def analyse(fn, env, depth=0):
        f = c.methods.get(fn)
        if f is None or depth > 4:
            return
        ctx.touch(f)
        env = dict(env)
        # propagate assignments (two passes for simple chains)
        for _ in range(2):
            for n in ast.walk(f.node):
                if isinstance(n, ast.Assign) and isinstance(n.targets[0], ast.Name):
                    p = path_of(n.value, env)
                    if p is not None:
                        env.setdefault(n.targets[0].id, p)
                    # dict_name = "float" / "double"
                    k = const_of(n.value)
                    if k is not None:
                        env.setdefault("__keys__", {}).setdefault(n.targets[0].id, [])
                        if k not in env["__keys__"][n.targets[0].id] and k != "":
                            env["__keys__"][n.targets[0].id].append(k)
                elif isinstance(n, ast.For) and isinstance(n.target, ast.Name):
                    p = path_of(n.iter, env)
                    if p is not None:
                        env.setdefault(n.target.id, p)
        for n in ast.walk(f.node):
            p = None
            node = n
            if isinstance(n, ast.Subscript) and isinstance(n.ctx, ast.Load):
                p = path_of(n, env)
            elif isinstance(n, ast.Call) and isinstance(n.func, ast.Attribute) and n.func.attr == "get":
                p = path_of(n, env)
            elif isinstance(n, ast.Compare) and len(n.ops) == 1 and isinstance(n.ops[0], (ast.In, ast.NotIn)):
                k = const_of(n.left)
                base = path_of(n.comparators[0], env)
                if k is not None and base is not None:
                    p = base + (k,)
            if p is not None:
                facts = [U(e) for e, pol in C.facts_at(n) if pol]
                key_txt = "'%s' in " % p[-1] if p else "?"
                reads.append(Read(p, node, f, any(x.startswith(key_txt) or ("self.%s_id in " % p[-1]) in x for x in facts)
                                  or isinstance(n, ast.Compare)))
        # calls to other process_* methods: bind their first parameter
        for n in ast.walk(f.node):
            if isinstance(n, ast.Call) and isinstance(n.func, ast.Attribute) and isinstance(n.func.value, ast.Name) \
                    and n.func.value.id == "self" and n.func.attr in c.methods and n.args:
                p = path_of(n.args[0], env)
                g = c.methods[n.func.attr]
                if p is not None and len(g.params()) > 1 and (n.func.attr, p) not in seen:
                    seen.add((n.func.attr, p))
                    analyse(n.func.attr, {g.params()[1]: p}, depth + 1)

    seen = set()
    po = c.methods.get("process_operand")
    if po is not None:
        analyse("process_operand", {po.params()[1]: ()})
    pi = c.methods.get("parse_instruction")
    if pi is not None:
        analyse("parse_instruction", {"result": ("<instruction>",)})
    return reads


def _tree_has(tree, path):
    cur = [tree]
    for k in path:
        nxt = []
        for alt in k.split("|"):
            for t in cur:
                if alt in t:
                    nxt.append(t[alt])
        if not nxt:
            return False
        cur = nxt
    return True


def r4_keys(ctx, cls, gr):
    ctx.rule("R4", "grammar result names = keys read by the post-processing (per operand kind / line kind)")
    spec = _spec("operand_keys.json", cls)
    ip = gr.get("self.instruction_parser")
    tree_i = names_tree(ip)
    op_tree = {}
    for k, v in tree_i.items():
        if k.startswith("operand"):
            for kk, vv in v.items():
                op_tree.setdefault(kk, {})
                _merge(op_tree[kk], vv)
    line_trees = {"label": names_tree(gr.get("self.label")), "directive": names_tree(gr.get("self.directive")),
                  "comment": names_tree(gr.get("self.comment"))}
    full = dict(op_tree)
    for t in line_trees.values():
        _merge(full, t)
    reads = key_reads(ctx, cls, gr)
    ctx.floor("R4", "result-name reads in the post-processing", len(reads), 25)
    read_paths = set()
    dead = set()
    written = set()
    c = ctx.repo.cls(cls)
    for mname, m in c.methods.items():
        for n in ast.walk(m.node):
            if isinstance(n, ast.Assign):
                for t in n.targets:
                    if isinstance(t, ast.Subscript) and isinstance(t.slice, ast.Constant) and isinstance(t.slice.value, str):
                        for r in reads:
                            if r.func is m and r.path and r.path[-1] == t.slice.value:
                                written.add(r.path)
    for r in reads:
        if r.path and r.path[0] == "<instruction>":
            p = r.path[1:]
            read_paths.add(("<instruction>",) + p)
            if p and not _tree_has(tree_i, p[:1]):
                ctx.node_bad("R4", r.func, r.node, "parse_instruction reads the result name %r which the instruction grammar "
                             "never produces" % (p[0],))
            continue
        read_paths.add(r.path)
        if not r.path:
            continue
        if _tree_has(full, r.path):
            ctx.ok("R4", "%s reads %s (produced by the grammar)" % (r.func.name, "/".join(r.path)), r.func.where(r.node))
        elif r.path in written or r.guarded:
            # a key the code stores itself, or an optional key tested with `in` before use (dead branch)
            dead.add("/".join(r.path))
        else:
            ctx.node_bad("R4", r.func, r.node, "%s reads the result name path %s, which the grammar can never produce under "
                         "that operand: the value is always missing (or a KeyError)" % (r.func.name, "/".join(r.path)),
                         instance="%s reads %s" % (r.func.name, "/".join(r.path)))
    if dead:
        ctx.note("R4: optional keys tested with `in` that the grammar never produces (dead branches): %s" % sorted(dead))
    # required keys: produced and read
    for kind in ("operand", "label", "directive"):
        tree = op_tree if kind == "operand" else line_trees[kind]
        for path in spec[kind]:
            path = tuple(path)
            prod = _tree_has(tree, path)
            rd = any(rp == path or (len(rp) >= len(path) and rp[:len(path)] == path) for rp in read_paths)
            ctx.check(prod, "R4", "grammar produces %s" % "/".join(path), gr.func.where(),
                      "the grammar no longer produces the result name %s (needed to recover the operand as written)" % "/".join(path),
                      gr.func.qname, "produced " + "/".join(path))
            ctx.check(rd, "R4", "post-processing reads %s" % "/".join(path), ctx.repo.cls(cls).where(),
                      "no post-processing function reads %s: that part of the operand is dropped" % "/".join(path), cls,
                      "read " + "/".join(path))
    for path in spec["instruction"]:
        prod = _tree_has(tree_i, tuple(path))
        rd = ("<instruction>",) + tuple(path) in read_paths
        ctx.check(prod and rd, "R4", "instruction grammar produces and parse_instruction reads %s" % path[0], gr.func.where(),
                  "%s: produced=%s read=%s" % (path[0], prod, rd), cls, "instruction key " + path[0])
    # dispatch: every top-level operand alternative has a branch in process_operand
    po = ctx.func(cls + ".process_operand")
    tested = set()
    for n in ast.walk(po.node):
        if isinstance(n, ast.Compare) and isinstance(n.ops[0], ast.In) and U(n.comparators[0]) == po.params()[1]:
            k = n.left
            if isinstance(k, ast.Attribute) and k.attr in gr.consts:
                tested.add(gr.consts[k.attr])
            elif isinstance(k, ast.Constant):
                tested.add(k.value)
    for k in sorted(op_tree):
        ctx.check(k in tested, "R4", "operand alternative %r is dispatched by process_operand" % k, po.where(),
                  "the grammar produces operands under the key %r but process_operand has no branch for it: the raw parse "
                  "dict is returned as operand" % k, po.qname, "dispatch " + k)
    return reads, op_tree


def _merge(dst, src):
    for k, v in src.items():
        dst.setdefault(k, {})
        _merge(dst[k], v)


# ------------------------------------------------------------------------------- R5 numeric conversion
def r5_conversions(ctx, cls, gr, reads, decimal_only_keys):
    ctx.rule("R5", "every token that may be hexadecimal is converted with base 0")
    c = ctx.repo.cls(cls)
    hexkeys = set()
    for key in gr.order:
        g = gr.env[key]
        if hasattr(g, "kind"):
            for name in ("value",):
                for n in find_named(g, name):
                    if may_be_hex(n):
                        hexkeys.add(name)
    ctx.check("value" in hexkeys, "R5", "result name 'value' is shared by the decimal and the hexadecimal number token", gr.func.where(),
              "the grammar no longer names hexadecimal numbers 'value'", gr.func.qname, "hex token name")
    sites = 0
    for mname, f in c.methods.items():
        if not (mname.startswith("process_") or mname in ("normalize_imd", "resolve_range_list", "parse_instruction")):
            continue
        for n in ast.walk(f.node):
            if not (isinstance(n, ast.Call) and isinstance(n.func, ast.Name) and n.func.id == "int" and n.args):
                continue
            arg = n.args[0]
            last = None
            cur = arg
            while isinstance(cur, ast.Subscript):
                if isinstance(cur.slice, ast.Constant) and isinstance(cur.slice.value, str):
                    last = cur.slice.value
                    break
                cur = cur.value
            if isinstance(arg, ast.Attribute) and arg.attr == "value":
                last = "value"
            if last is None and isinstance(arg, ast.Name):
                flow = C.flow_of(f)
                for o in flow.origin_text(arg):
                    m = re.search(r"\[['\"](\w+)['\"]\]$", o) or re.search(r"\.get\(['\"](\w+)['\"]", o)
                    if m:
                        last = m.group(1)
            if last is None:
                continue
            sites += 1
            base = C.arg_of(n, 1, "base")
            b = C.const_num(base) if base is not None else 10
            if last in hexkeys:
                if b == 0:
                    ctx.node_ok("R5", f, n, "int(<%s>, 0)" % last)
                else:
                    ctx.node_bad("R5", f, n, "`%s` converts a token named %r with base %s, but the grammar admits a "
                                 "hexadecimal number (0x..) in that slot: ValueError (or a wrong value) for operands written "
                                 "in hexadecimal" % (U(n), last, b))
            elif last in decimal_only_keys:
                ctx.node_ok("R5", f, n, "int(<%s>): decimal-only token" % last)
            else:
                ctx.node_ok("R5", f, n, "int(<%s>, base %s)" % (last, b))
    return sites


# ------------------------------------------------------------------------------- R6 trailing comment, whitespace
def r6_trailing(ctx, cls, gr):
    ctx.rule("R6", "instruction, label and directive grammars end with the optional comment; default whitespace handling")
    for key in ("self.instruction_parser", "self.label", "self.directive"):
        g = gr.get(key)
        top = g.kids[0] if g.kind == "group" and len(g.kids) == 1 else g
        last = top.kids[-1] if top.kind == "seq" and top.kids else top
        ok = last.kind == "opt" and last.kids and names_tree(last.kids[0]).keys() >= {gr.consts.get("comment_id", "comment")}
        ctx.check(ok, "R6", "%s ends with Optional(comment)" % key, gr.func.where(g.src) if g.src is not None else gr.func.where(),
                  "%s does not end with the optional trailing comment: a line with a trailing comment is rejected or "
                  "misclassified" % key, gr.func.qname, "%s trailing comment" % key)
    bad = [n for n in ast.walk(gr.func.node) if isinstance(n, ast.Call) and isinstance(n.func, ast.Attribute) and n.func.attr in (
        "leaveWhitespace", "leave_whitespace", "setDefaultWhitespaceChars", "set_default_whitespace_chars", "setWhitespaceChars",
        "set_whitespace_chars")]
    ctx.check(not bad, "R6", "no whitespace-sensitivity switch in the grammar", gr.func.where(),
              "whitespace handling is changed by %s: spacing around operands/separators would matter" % [U(b)[:50] for b in bad],
              gr.func.qname, "whitespace switches")
    # separators between operands are optional commas
    ip = gr.get("self.instruction_parser")
    seps = [k for k in ip.kids if k.kind == "opt" and k.kids and k.kids[0].kind == "suppress"]
    nops = len([k for k in names_tree(ip) if k.startswith("operand")])
    ctx.check(len(seps) >= nops - 1, "R6", "operands are separated by optional ',' (%d separators for %d operands)" % (len(seps), nops),
              gr.func.where(), "operand separators changed", gr.func.qname, "separators")


# ------------------------------------------------------------------------------- T terminal vocabulary
def _re_to_g(pattern):
    return pattern


def t_terminals(ctx, cls, gr):
    ctx.rule("T", "token vocabulary: every example token of the property's vocabulary is accepted by the sub-grammar's regular envelope")
    from .. import automata

    spec = _spec("grammar_terminals.json", cls)
    n = 0
    for var, examples in spec.items():
        if var not in gr.env or not hasattr(gr.env[var], "kind"):
            ctx.bad("T", "grammar variable %s" % var, gr.func.where(), "grammar variable %s no longer exists" % var, gr.func.qname,
                    "variable " + var)
            continue
        g = gr.env[var]
        nfa, start = automata.envelope(g)
        for ex in examples:
            n += 1
            ok = nfa.accepts(ex, start)
            ctx.check(ok, "T", "%s accepts %r" % (var, ex), gr.func.where(g.src) if g.src is not None else gr.func.where(),
                      "the sub-grammar `%s` (even in its regular over-approximation) rejects %r, a token of the vocabulary the "
                      "property promises to recover: lines containing it cannot be parsed as written" % (var, ex), gr.func.qname,
                      "%s rejects %r" % (var, ex))
    ctx.floor("T", "token examples", n, 60)
