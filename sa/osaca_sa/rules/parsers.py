"""Rules shared by C09 (x86 AT&T parser) and C10 (AArch64 parser)."""
import ast
import json
import re

from .. import pm
from ..cfg import facts_at
from ..pm import U
from ..ppgrammar import Grammar, find_named, may_be_hex, names_tree, terminals
from ..report import VERIF
from . import common as C


def _spec(name, cls):
    return json.loads((VERIF / "spec" / name).read_text())[cls]


# ------------------------------------------------------------------------------- R1 / R2 (BaseParser)
def _blank_fact(e, pol, line):
    """Is (e, pol) the fact `line is not blank`?  Accepted spellings of the blank test are enumerated."""
    t = U(e)
    blank_true = (C.canon_eq("%s.strip()" % line, "''"), "len(%s.strip()) == 0" % line, "not %s.strip()" % line,
                  "%s.isspace() or not %s" % (line, line), "not %s or %s.isspace()" % (line, line))
    blank_false = (C.canon_eq("%s.strip()" % line, "''", "!="), "%s.strip()" % line, "len(%s.strip()) > 0" % line,
                   "len(%s.strip()) != 0" % line, "len(%s.strip())" % line)
    return (t in blank_true and not pol) or (t in blank_false and pol)


def r1_numbering(ctx, rule="R1"):
    """The number handed to parse_line is derived symbolically: idx = 0-based position of the line in
    content.split('\\n'), either from enumerate (minus its start) or from a counter that is provably
    incremented once in every iteration; the rule is number == idx + 1 + start_line."""
    ctx.rule(rule, "line numbers are 1-based positions among ALL physical lines; blank lines are skipped, not renumbered")
    f = ctx.func("BaseParser.parse_file")
    content, start = f.params()[1], f.params()[2]
    cfg = C.cfg_of(f)
    calls = C.calls_to(f.node, "parse_line")
    if len(calls) != 1 or len(calls[0].args) + len(calls[0].keywords) != 2:
        ctx.broken(rule + ": expected exactly one parse_line(line, number) call in parse_file, found %d" % len(calls))
        return
    call = calls[0]
    num = C.arg_of(call, 1, "line_number")
    loop = C.enclosing_loop(call)
    comp = None
    if not isinstance(loop, ast.For):
        # the same loop written as a comprehension: [self.parse_line(l, n) for n, l in enumerate(...) if l.strip()]
        p = C.parent(call)
        while p is not None and not isinstance(p, (ast.ListComp, ast.GeneratorExp, ast.FunctionDef)):
            p = C.parent(p)
        if isinstance(p, (ast.ListComp, ast.GeneratorExp)) and len(p.generators) == 1 and p.elt is call:
            comp = p
            loop = ast.For(target=p.generators[0].target, iter=p.generators[0].iter, body=[], orelse=[])
            ast.copy_location(loop, p)
        else:
            ctx.unknown(rule, "line loop", f.where(call), "parse_line is called neither from a for loop nor from a comprehension over the lines")
            return
    # ---- iteration shape: which variable is the line, what is its 0-based index ------------------------
    it, idx, line = loop.iter, None, None      # idx: affine map of the 0-based index
    if isinstance(it, ast.Name):
        # the iterable held in a local with one definition
        ds = [a for a in C.assigns_to(f.node, it.id) if isinstance(a, ast.Assign)]
        if len(ds) == 1:
            it = ds[0].value
    if C.is_call_to(it, "enumerate") and isinstance(loop.target, ast.Tuple) and len(loop.target.elts) == 2:
        st = C.arg_of(it, 1, "start")
        i, line = U(loop.target.elts[0]), U(loop.target.elts[1])
        idx = {i: 1, 1: 0}
        if st is not None:
            for k, v in C.affine(st).items():
                idx[k] = idx.get(k, 0) - v
        seq = it.args[0] if it.args else None
    elif isinstance(loop.target, ast.Name):
        line, seq = loop.target.id, it
    else:
        ctx.unknown(rule, "line loop", f.where(loop), "lines are not visited with `for line in ...` / `for i, line in enumerate(...)`: %s" % U(it)[:80])
        return
    # ---- the sequence is content.split('\n'), nothing removed or filtered before numbering -------------
    seq_expr = seq
    if isinstance(seq, ast.Name):
        defs = [a for a in C.assigns_to(f.node, seq.id) if not C.in_subtree(a, loop)]
        if len(defs) != 1 or not isinstance(defs[0], ast.Assign):
            ctx.broken(rule + ": the line list %r is assigned %d times - idiom not understood" % (seq.id, len(defs)))
            return
        seq_expr = defs[0].value
    lead_drop = None
    split_ok, why = False, "the file is not split into physical lines with split('\\n'): `%s`" % U(seq_expr)[:80]
    if (isinstance(seq_expr, ast.Call) and isinstance(seq_expr.func, ast.Attribute) and seq_expr.func.attr == "split"
            and len(seq_expr.args) == 1 and isinstance(seq_expr.args[0], ast.Constant) and seq_expr.args[0].value == "\n"):
        recv = seq_expr.func.value
        if isinstance(recv, ast.Name) and recv.id == content:
            split_ok = True
        elif (isinstance(recv, ast.Call) and isinstance(recv.func, ast.Attribute) and recv.func.attr == "rstrip"
              and U(recv.func.value) == content):
            split_ok = True     # removing trailing characters does not move any line
        else:
            # leading line feeds dropped before the split: every dropped one is a physical line, so the numbering must add
            # their count, len(text) - len(text.lstrip("\n"))
            r2 = C.flow_of(f).subst(recv)
            while isinstance(r2, ast.Call) and isinstance(r2.func, ast.Attribute) and r2.func.attr == "rstrip":
                r2 = r2.func.value
            if (isinstance(r2, ast.Call) and isinstance(r2.func, ast.Attribute) and r2.func.attr in ("lstrip", "strip") and len(r2.args) == 1
                    and isinstance(r2.args[0], ast.Constant) and r2.args[0].value == "\n" and U(r2.func.value) == content):
                split_ok, lead_drop = True, "%s.lstrip('\\n')" % content
            else:
                why = ("the text is rewritten before it is split (`%s`): removing or merging leading lines shifts every line number"
                       % U(recv)[:80])
    # a way of cutting the text that the rule does not know (a helper that was not expanded, a hand-written scanner) is not
    # understood; the idioms known to cut elsewhere than at line feeds are violations
    known_other = isinstance(seq_expr, ast.Call) and isinstance(seq_expr.func, ast.Attribute) and (
        seq_expr.func.attr in ("splitlines", "rsplit", "partition") or (seq_expr.func.attr == "split" and not (
            len(seq_expr.args) == 1 and isinstance(seq_expr.args[0], ast.Constant) and seq_expr.args[0].value == "\n")))
    regex_split = isinstance(seq_expr, ast.Call) and U(seq_expr.func) in ("re.split", "re.findall")
    # lines removed before they are numbered: a filter over the split text
    filt = None
    if isinstance(seq_expr, (ast.ListComp, ast.GeneratorExp)) and len(seq_expr.generators) == 1 and seq_expr.generators[0].ifs:
        filt = seq_expr.generators[0].iter
    elif C.is_call_to(seq_expr, "filter") and len(seq_expr.args) == 2:
        filt = seq_expr.args[1]
    elif C.is_call_to(seq_expr, "list") and len(seq_expr.args) == 1 and C.is_call_to(seq_expr.args[0], "filter") and len(seq_expr.args[0].args) == 2:
        filt = seq_expr.args[0].args[1]
    if filt is not None and isinstance(filt, ast.Call) and isinstance(filt.func, ast.Attribute) and filt.func.attr in ("split", "splitlines"):
        known_other = True
        why = "lines are removed from the split text before the numbering (`%s`): every later line gets a smaller number than its position in the file" % U(seq_expr)[:80]
    is_split_call = isinstance(seq_expr, ast.Call) and isinstance(seq_expr.func, ast.Attribute) and seq_expr.func.attr == "split"
    ctx.judge(split_ok, split_ok or known_other or regex_split or is_split_call, rule, "line split", f.where(seq_expr), why, f.qname, "line split")
    if not split_ok:
        return
    # ---- counter form: a local incremented once per iteration ------------------------------------------
    numaff = C.affine(num)
    if idx is None:
        cands = [n for n in ast.walk(loop) if isinstance(n, ast.AugAssign) and isinstance(n.target, ast.Name)
                 and n.target.id in numaff and isinstance(n.op, ast.Add) and C.const_num(n.value) == 1]
        if len(cands) != 1 or C.enclosing_loop(cands[0]) is not loop:
            ctx.bad(rule, "line number expression", f.where(call), "the line number `%s` is neither derived from enumerate() nor from a "
                    "counter incremented by one per physical line" % U(num), f.qname, "line number expression")
            return
        inc = cands[0]
        k = inc.target.id
        every = not cfg.reachable(loop, loop, avoid=[inc], within=loop)
        ctx.check(every, rule, "the line counter counts every physical line", f.where(inc),
                  "the counter `%s` is not incremented on every iteration (an iteration can return to the loop head without passing "
                  "`%s`): skipped lines are not counted, every later line number is too small" % (k, U(inc)), f.qname, "counter every line")
        if not every:
            return
        inits = [a for a in C.assigns_to(f.node, k) if a is not inc]
        if len(inits) != 1 or C.in_subtree(inits[0], loop) or not isinstance(inits[0], ast.Assign):
            ctx.broken(rule + ": counter %r is initialised %d times - idiom not understood" % (k, len(inits)))
            return
        idx = {"<idx>": 1}
        for kk, v in C.affine(inits[0].value).items():
            idx[kk] = idx.get(kk, 0) + v
        idx[1] = idx.get(1, 0) + (1 if cfg.dominates(inc, call) else 0)
        # number = f(K) with K = K0 + idx (+1): substitute
        coeff = numaff.pop(k)
        for kk, v in idx.items():
            numaff[kk] = numaff.get(kk, 0) + coeff * v
        want = {"<idx>": 1, start: 1, 1: 1}
    else:
        # number in terms of i; idx = i - S  =>  number must equal (i - S) + 1 + start
        want = dict(idx)
        want[start] = want.get(start, 0) + 1
        want[1] = want.get(1, 0) + 1
    norm = lambda m: {k: v for k, v in m.items() if v != 0}
    if lead_drop is not None:
        # compare with every local replaced by its definition: number = index + 1 + start_line + (dropped leading line feeds)
        fl_ = C.flow_of(f)
        def _expand(m):
            out_ = {}
            for k_, v_ in m.items():
                sub_ = {k_: 1}
                if isinstance(k_, str) and k_.isidentifier() and k_ not in (start, "<idx>"):
                    ds_ = [a_ for a_ in C.assigns_to(f.node, k_) if isinstance(a_, ast.Assign)]
                    if len(ds_) == 1 and not C.in_subtree(ds_[0], loop):
                        sub_ = C.affine(fl_.subst(ds_[0].value))
                for kk_, vv_ in sub_.items():
                    out_[kk_] = out_.get(kk_, 0) + v_ * vv_
            return out_
        numaff, want = _expand(numaff), _expand(want)
        want["len(%s)" % content] = want.get("len(%s)" % content, 0) + 1
        want["len(%s)" % lead_drop] = want.get("len(%s)" % lead_drop, 0) - 1
    ctx.check(norm(numaff) == norm(want) and U(C.arg_of(call, 0, "line")) == line, rule, "parse_line(line, index + 1 + start_line)",
              f.where(call), "the line number handed to parse_line is `%s`: it must be the 1-based position of the physical line "
              "(+ start_line); derived %s, required %s" % (U(num), norm(numaff), norm(want)), f.qname, "line number expression")
    # ---- only blank lines are skipped, inside the numbered loop -----------------------------------------
    facts = facts_at(call, stop=loop if comp is None else None)
    if comp is not None:
        facts = [fa for fa in facts if any(C.in_subtree(fa[0], c) or fa[0] is c for c in comp.generators[0].ifs)]
    nonblank = [fa for fa in facts if _blank_fact(fa[0], fa[1], line)]
    ctx.check(bool(nonblank), rule, "blank lines are skipped inside the numbered loop", f.where(loop),
              "blank lines are not skipped by a blank test on `%s.strip()` inside the numbered loop (facts at the call: %s)"
              % (line, [("" if pol else "not ") + U(e) for e, pol in facts]), f.qname, "blank skip")
    other = [fa for fa in facts if not _blank_fact(fa[0], fa[1], line)]
    ctx.check(not other, rule, "no non-blank line is skipped", f.where(call),
              "parse_line is only reached under %s: non-blank lines can be dropped" % [("" if pol else "not ") + U(e) for e, pol in other],
              f.qname, "no other skip")
    rets = [r for r in ast.walk(f.node) if isinstance(r, ast.Return)]
    if comp is not None:
        res = comp if isinstance(comp, ast.ListComp) else C.parent(comp)
        held = [a for a in ast.walk(f.node) if isinstance(a, ast.Assign) and a.value is res and isinstance(a.targets[0], ast.Name)]
        ctx.check(len(rets) == 1 and (rets[0].value is res or (held and U(rets[0].value) == held[0].targets[0].id)), rule,
                  "exactly one parsed line per non-blank line, in file order", f.where(),
                  "the comprehension over the lines is not what parse_file returns", f.qname, "one result per line")
        return
    app = pm.find("M_r.append(self.parse_line(M__, M__))", loop)
    ctx.check(bool(app) and len(rets) == 1 and U(rets[0].value) == U(app[0][1]["M_r"]), rule,
              "exactly one parsed line per non-blank line, in file order", f.where(),
              "parsed lines are not appended one per non-blank line and returned", f.qname, "one result per line")


def r2_verbatim(ctx, cls):
    ctx.rule("R2", "the parsed line carries its verbatim text and the given line number")
    f = ctx.func(cls + ".parse_line")
    line, num = f.params()[1], f.params()[2]
    ctor = [c for c in ast.walk(f.node) if isinstance(c, ast.Call) and pm.call_name(c) == "InstructionForm"]
    ok = False
    if ctor:
        kw = {k.arg: U(k.value) for k in ctor[0].keywords}
        ok = kw.get("line") == line and kw.get("line_number") == num
    reassigned = [a for a in ast.walk(f.node) if isinstance(a, (ast.Assign, ast.AugAssign)) and U(
        a.targets[0] if isinstance(a, ast.Assign) else a.target) in (line, num)]
    ctx.check(ok and not reassigned, "R2", "InstructionForm(line=<untouched parameter>, line_number=<parameter>)", f.where(),
              "the line text / number stored in the result is not the untouched parameter", f.qname, "verbatim line")
    rets = [r for r in ast.walk(f.node) if isinstance(r, ast.Return) and r.value is not None]
    var = U(C.cfg_of(f).node_of(ctor[0]).targets[0]) if ctor and isinstance(C.cfg_of(f).node_of(ctor[0]), ast.Assign) else None
    ctx.check(bool(rets) and all(U(r.value) == var for r in rets), "R2", "that object is what parse_line returns", f.where(),
              "parse_line returns something else than the form carrying line and number", f.qname, "returned form")
    late = [a for a in ast.walk(f.node) if isinstance(a, ast.Assign) and isinstance(a.targets[0], ast.Attribute)
            and a.targets[0].attr in ("line", "line_number")]
    ctx.check(not late, "R2", "line / line_number are not overwritten later", f.where(), "line or line_number is overwritten: %s" % [
        U(a) for a in late], f.qname, "no overwrite")


# ------------------------------------------------------------------------------- R3 classification
def r3_classification(ctx, cls, order, unguarded_ok=()):
    ctx.rule("R3", "classification attempts in the order %s; later attempts only if nothing matched; mnemonic only for instructions" % (
        "/".join(order)))
    f = ctx.func(cls + ".parse_line")
    cfg = C.cfg_of(f)
    tries = [n for n in ast.walk(f.node) if isinstance(n, ast.Try)]
    kinds = []
    for t in tries:
        txt = U(t.body)
        kind = None
        for k, pat in (("comment", "self.comment.parseString"), ("llvm", "self.llvm_markers.parseString"),
                       ("label", "self.label.parseString"), ("directive", "self.directive.parseString"),
                       ("instruction", "self.parse_instruction(")):
            if pat in txt:
                kind = k
        if kind:
            kinds.append((kind, t))
    # (in the order in which they are tried: an attempt that dominates another comes first)
    import functools as _ft
    kinds.sort(key=_ft.cmp_to_key(lambda a_, b_: -1 if cfg.dominates(a_[1], b_[1]) and a_[1] is not b_[1] else
                                  (1 if cfg.dominates(b_[1], a_[1]) and a_[1] is not b_[1] else (a_[1].lineno > b_[1].lineno) - (a_[1].lineno < b_[1].lineno))))
    got = [k for k, _ in kinds if k != "llvm"]
    ctx.check(got == list(order), "R3", "attempt order %s" % got, f.where(),
              "attempts are made in the order %s, the grammar alternatives overlap (x86 '.L1:' also parses as a directive, "
              "AArch64 '.byte 100' also as an instruction), so the order must be %s" % (got, list(order)), f.qname, "attempt order")
    res = None
    for k, t in kinds:
        # later attempts guarded by `result is None`
        guarded = (C.CT("result is None"), True) in C.norm_facts(t)
        if k == order[0] or k == "llvm" or k in unguarded_ok:
            continue
        ctx.check(guarded, "R3", "%s attempt only if no earlier attempt matched" % k, f.where(t),
                  "the %s attempt is not guarded by `result is None`: an earlier classification would be overwritten" % k, f.qname,
                  "%s guard" % k)
    # no attempt is skipped for some lines: a pre-filter in front of an attempt decides the classification with it
    line_param = f.params()[1]
    flow = C.flow_of(f)
    for k, t in kinds:
        extra = [(e, p) for e, p in C.norm_fact_nodes(t) if not (U(e) == "result is None")]
        for e, pol in extra:
            full = flow.subst(e)
            raw_pos = [n for n in ast.walk(full) if (
                isinstance(n, ast.Subscript) and isinstance(n.value, ast.Name) and n.value.id == line_param) or (
                isinstance(n, ast.Call) and isinstance(n.func, ast.Attribute) and n.func.attr in ("startswith", "endswith", "find", "index")
                and isinstance(n.func.value, ast.Name) and n.func.value.id == line_param)]
            if raw_pos:
                ctx.bad("R3", "%s attempt is made for every line" % k, f.where(t),
                        "the %s attempt is only made when `%s` holds, which looks at a fixed position of the RAW line (`%s`); the "
                        "grammars skip leading blanks and tabs, so an indented %s never reaches its grammar and is classified as "
                        "something else (or raises): classification must not depend on surrounding whitespace"
                        % (k, U(e), U(raw_pos[0]), k), f.qname, "%s prefilter %s" % (k, U(e)))
            else:
                ctx.unknown("R3", "%s attempt is made for every line" % k, f.where(t),
                            "the %s attempt is only made when `%s` (= %s) holds; whether that can exclude a line the grammar would "
                            "match is not decided here" % (k, U(e), U(full)[:120]))
    for k, t in kinds:
        hp = [h for h in t.handlers]
        if k == "instruction":
            ok = bool(hp) and all(any(isinstance(s, ast.Raise) for s in h.body) for h in hp)
            ctx.check(ok, "R3", "a line that is none of the four kinds is an error", f.where(t),
                      "an unparsable line is swallowed instead of raising", f.qname, "unparsable raises")
        else:
            ok = bool(hp) and all("ParseException" in U(h.type) and all(isinstance(s, ast.Pass) for s in h.body) for h in hp)
            ctx.check(ok, "R3", "%s attempt: only a ParseException falls through to the next kind" % k, f.where(t),
                      "the %s attempt's handler is %s" % (k, [U(h.type) for h in hp]), f.qname, "%s handler" % k)
        # parseAll: the whole line must match
        pcs = [c for c in ast.walk(t) if isinstance(c, ast.Call) and isinstance(c.func, ast.Attribute) and c.func.attr in ("parseString", "parse_string")]
        for c in pcs:
            pa = [k2 for k2 in c.keywords if k2.arg in ("parseAll", "parse_all")]
            ctx.check(bool(pa) and U(pa[0].value) == "True" and U(c.args[0]) == f.params()[1], "R3",
                      "%s grammar must match the whole line" % k, f.where(c), "parseString without parseAll=True (or on another "
                      "string): a prefix match would classify the line", f.qname, "%s parseAll" % k)
    # attribute assignments per branch
    for attr, kind in (("mnemonic", "instruction"), ("operands", "instruction"), ("label", "label"), ("directive", "directive")):
        sts = [a for a in ast.walk(f.node) if isinstance(a, ast.Assign) and isinstance(a.targets[0], ast.Attribute)
               and a.targets[0].attr == attr]
        okk = bool(sts)
        for a in sts:
            owner = [k for k, t in kinds if C.in_subtree(a, t) or (k == "instruction" and cfg.dominates(t, a) and any(
                C.in_subtree(a, x) for x in ast.walk(f.node) if isinstance(x, ast.If) and C.in_subtree(t, x)))]
            # ... or after the instruction attempt on a path only taken when nothing else matched (guard clause form)
            if kind == "instruction" and kind not in owner:
                it_ = [t for k, t in kinds if k == "instruction"]
                if it_ and cfg.dominates(it_[0], a) and (C.CT("result is None"), True) in C.norm_facts(a):
                    owner.append("instruction")
            if kind not in owner:
                okk = False
        ctx.check(okk, "R3", "%s is set only by the %s branch" % (attr, kind), f.where(),
                  "%s is assigned outside the %s branch" % (attr, kind), f.qname, "%s only in %s" % (attr, kind))
    pi = ctx.func(cls + ".parse_instruction")
    pc = [c for c in ast.walk(pi.node) if isinstance(c, ast.Call) and isinstance(c.func, ast.Attribute) and c.func.attr in ("parseString", "parse_string")]
    ok = bool(pc) and any(k.arg in ("parseAll", "parse_all") and U(k.value) == "True" for k in pc[0].keywords) and U(
        pc[0].func.value) == "self.instruction_parser"
    ctx.check(ok, "R3", "instruction grammar must match the whole line", pi.where(), "parse_instruction does not use parseAll=True",
              pi.qname, "instruction parseAll")


# ------------------------------------------------------------------------------- R4 keys
def key_source(e, M):
    """the key K when expression `e` is a read of M[K] that yields None for a missing key (or a plain M[K]), else None"""
    if isinstance(e, ast.Call) and isinstance(e.func, ast.Attribute) and e.func.attr == "get" and U(e.func.value) == M and e.args \
            and isinstance(e.args[0], ast.Constant) and not e.keywords:
        if len(e.args) == 1 or (isinstance(e.args[1], ast.Constant) and e.args[1].value is None):
            return e.args[0].value
        return None
    if isinstance(e, ast.Subscript) and U(e.value) == M and isinstance(e.slice, ast.Constant):
        return e.slice.value
    if isinstance(e, ast.IfExp):
        for body, other, t in ((e.body, e.orelse, True), (e.orelse, e.body, False)):
            if isinstance(other, ast.Constant) and other.value is None and isinstance(body, ast.Subscript) and U(body.value) == M \
                    and isinstance(body.slice, ast.Constant):
                k = body.slice.value
                tt = U(e.test)
                if (t and tt == "%r in %s" % (k, M)) or (not t and tt == "%r not in %s" % (k, M)):
                    return k
    return None


class Read:
    def __init__(self, path, node, func, guarded):
        self.path = path
        self.node = node
        self.func = func
        self.guarded = guarded


def key_reads(ctx, cls, gr):
    """All result-name reads in the parser's post-processing, as paths below one operand / line."""
    consts = gr.consts
    reads = []
    roots = {}  # function name -> {param: path}
    c = ctx.repo.cls(cls)

    def const_of(e):
        if isinstance(e, ast.Constant) and isinstance(e.value, str):
            return e.value
        if isinstance(e, ast.Attribute) and isinstance(e.value, ast.Name) and e.value.id == "self" and e.attr in consts:
            return consts[e.attr]
        return None

    def key_display(e, f):
        """the string constants of a tuple/list display, written in place or as a class / module constant"""
        if isinstance(e, ast.Attribute) and isinstance(e.value, ast.Name) and e.value.id in ("self", "cls", cls.split(".")[-1]):
            for st in c.node.body:
                if isinstance(st, ast.Assign) and any(isinstance(t, ast.Name) and t.id == e.attr for t in st.targets):
                    e = st.value
                    break
        elif isinstance(e, ast.Name):
            mod = ctx.repo.modules.get(f.file) if hasattr(ctx.repo, "modules") else None
            tree = getattr(mod, "tree", None) if mod is not None else None
            for st in (tree.body if tree is not None else []):
                if isinstance(st, ast.Assign) and any(isinstance(t, ast.Name) and t.id == e.id for t in st.targets):
                    e = st.value
                    break
        if isinstance(e, (ast.Tuple, ast.List)) and e.elts and all(isinstance(x, ast.Constant) and isinstance(x.value, str) for x in e.elts):
            return [x.value for x in e.elts]
        return None

    def path_of(e, env):
        if isinstance(e, ast.Name):
            return env.get(e.id)
        if isinstance(e, ast.Subscript):
            base = path_of(e.value, env)
            if base is None:
                return None
            k = const_of(e.slice)
            if k is not None:
                return base + (k,)
            if isinstance(e.slice, ast.Constant) and isinstance(e.slice.value, int):
                return base
            if isinstance(e.slice, ast.Name) and e.slice.id in env.get("__keys__", {}):
                return base + ("|".join(env["__keys__"][e.slice.id]),)
            return None
        if isinstance(e, ast.Call) and isinstance(e.func, ast.Attribute) and e.func.attr == "get" and e.args:
            base = path_of(e.func.value, env)
            k = const_of(e.args[0])
            if base is not None and k is not None:
                return base + (k,)
        return None

    def analyse(fn, env, depth=0):
        f = c.methods.get(fn)
        if f is None or depth > 4:
            return
        ctx.touch(f)
        env = dict(env)
        # propagate assignments (two passes for simple chains)
        for _ in range(2):
            for n in ast.walk(f.node):
                if isinstance(n, ast.Assign) and isinstance(n.targets[0], ast.Name):
                    p = path_of(n.value, env)
                    if p is not None:
                        env.setdefault(n.targets[0].id, p)
                    # dict_name = "float" / "double"
                    k = const_of(n.value)
                    if k is not None:
                        env.setdefault("__keys__", {}).setdefault(n.targets[0].id, [])
                        if k not in env["__keys__"][n.targets[0].id] and k != "":
                            env["__keys__"][n.targets[0].id].append(k)
                elif isinstance(n, (ast.For, ast.comprehension)) and isinstance(n.target, ast.Name):
                    p = path_of(n.iter, env)
                    if p is not None:
                        env.setdefault(n.target.id, p)
                    ks = key_display(n.iter, f)
                    if ks:
                        # `for key in ("operand1", "operand2", ..)`: the loop variable is one of these keys
                        env.setdefault("__keys__", {})[n.target.id] = list(ks)
        for n in ast.walk(f.node):
            p = None
            node = n
            if isinstance(n, ast.Subscript) and isinstance(n.ctx, ast.Load):
                p = path_of(n, env)
            elif isinstance(n, ast.Call) and isinstance(n.func, ast.Attribute) and n.func.attr == "get":
                p = path_of(n, env)
            elif isinstance(n, ast.Compare) and len(n.ops) == 1 and isinstance(n.ops[0], (ast.In, ast.NotIn)):
                k = const_of(n.left)
                base = path_of(n.comparators[0], env)
                if k is not None and base is not None:
                    p = base + (k,)
            if p is not None:
                facts = [U(e) for e, pol in C.facts_at(n) if pol]
                key_txt = "'%s' in " % p[-1] if p else "?"
                is_get = isinstance(n, ast.Call)      # `.get(key[, default])` tolerates a missing key like an `in` test does
                guarded = any(x.startswith(key_txt) or ("self.%s_id in " % p[-1]) in x for x in facts) or isinstance(n, ast.Compare) or is_get
                if p and "|" in p[-1] and isinstance(getattr(n, "slice", None), ast.Name):
                    # a key variable: one read per key it can hold; `if key in result` guards it
                    kv = n.slice.id
                    guarded = guarded or any(x.startswith("%s in " % kv) for x in facts)
                    for alt in p[-1].split("|"):
                        reads.append(Read(p[:-1] + (alt,), node, f, guarded))
                else:
                    reads.append(Read(p, node, f, guarded))
        # calls to other process_* methods: bind their first parameter
        for n in ast.walk(f.node):
            if isinstance(n, ast.Call) and isinstance(n.func, ast.Attribute) and isinstance(n.func.value, ast.Name) \
                    and n.func.value.id == "self" and n.func.attr in c.methods and n.args:
                p = path_of(n.args[0], env)
                g = c.methods[n.func.attr]
                if p is not None and len(g.params()) > 1 and (n.func.attr, p) not in seen:
                    seen.add((n.func.attr, p))
                    analyse(n.func.attr, {g.params()[1]: p}, depth + 1)

    seen = set()
    po = c.methods.get("process_operand")
    if po is not None:
        analyse("process_operand", {po.params()[1]: ()})
    pi = c.methods.get("parse_instruction")
    if pi is not None:
        analyse("parse_instruction", {"result": ("<instruction>",)})
    return reads


def _tree_has(tree, path):
    cur = [tree]
    for k in path:
        nxt = []
        for alt in k.split("|"):
            for t in cur:
                if alt in t:
                    nxt.append(t[alt])
        if not nxt:
            return False
        cur = nxt
    return True


def r4_keys(ctx, cls, gr):
    ctx.rule("R4", "grammar result names = keys read by the post-processing (per operand kind / line kind)")
    spec = _spec("operand_keys.json", cls)
    ip = gr.get("self.instruction_parser")
    tree_i = names_tree(ip)
    op_tree = {}
    for k, v in tree_i.items():
        if k.startswith("operand"):
            for kk, vv in v.items():
                op_tree.setdefault(kk, {})
                _merge(op_tree[kk], vv)
    line_trees = {"label": names_tree(gr.get("self.label")), "directive": names_tree(gr.get("self.directive")),
                  "comment": names_tree(gr.get("self.comment"))}
    full = dict(op_tree)
    for t in line_trees.values():
        _merge(full, t)
    reads = key_reads(ctx, cls, gr)
    ctx.floor("R4", "result-name reads in the post-processing", len(reads), 25)
    read_paths = set()
    dead = set()
    written = set()
    c = ctx.repo.cls(cls)
    for mname, m in c.methods.items():
        for n in ast.walk(m.node):
            if isinstance(n, ast.Assign):
                for t in n.targets:
                    if isinstance(t, ast.Subscript) and isinstance(t.slice, ast.Constant) and isinstance(t.slice.value, str):
                        for r in reads:
                            if r.func is m and r.path and r.path[-1] == t.slice.value:
                                written.add(r.path)
    for r in reads:
        if r.path and r.path[0] == "<instruction>":
            p = r.path[1:]
            read_paths.add(("<instruction>",) + p)
            if p and not _tree_has(tree_i, p[:1]):
                ctx.node_bad("R4", r.func, r.node, "parse_instruction reads the result name %r which the instruction grammar "
                             "never produces" % (p[0],))
            continue
        read_paths.add(r.path)
        if not r.path:
            continue
        if _tree_has(full, r.path):
            ctx.ok("R4", "%s reads %s (produced by the grammar)" % (r.func.name, "/".join(r.path)), r.func.where(r.node))
        elif r.path in written or r.guarded:
            # a key the code stores itself, or an optional key tested with `in` before use (dead branch)
            dead.add("/".join(r.path))
        else:
            ctx.node_bad("R4", r.func, r.node, "%s reads the result name path %s, which the grammar can never produce under "
                         "that operand: the value is always missing (or a KeyError)" % (r.func.name, "/".join(r.path)),
                         instance="%s reads %s" % (r.func.name, "/".join(r.path)))
    if dead:
        ctx.note("R4: optional keys tested with `in` that the grammar never produces (dead branches): %s" % sorted(dead))
    # required keys: produced and read
    for kind in ("operand", "label", "directive"):
        tree = op_tree if kind == "operand" else line_trees[kind]
        for path in spec[kind]:
            path = tuple(path)
            prod = _tree_has(tree, path)
            rd = any(rp == path or (len(rp) >= len(path) and rp[:len(path)] == path) for rp in read_paths)
            ctx.check(prod, "R4", "grammar produces %s" % "/".join(path), gr.func.where(),
                      "the grammar no longer produces the result name %s (needed to recover the operand as written)" % "/".join(path),
                      gr.func.qname, "produced " + "/".join(path))
            ctx.check(rd, "R4", "post-processing reads %s" % "/".join(path), ctx.repo.cls(cls).where(),
                      "no post-processing function reads %s: that part of the operand is dropped" % "/".join(path), cls,
                      "read " + "/".join(path))
    for path in spec["instruction"]:
        prod = _tree_has(tree_i, tuple(path))
        rd = ("<instruction>",) + tuple(path) in read_paths
        ctx.check(prod and rd, "R4", "instruction grammar produces and parse_instruction reads %s" % path[0], gr.func.where(),
                  "%s: produced=%s read=%s" % (path[0], prod, rd), cls, "instruction key " + path[0])
    # dispatch: every top-level operand alternative has a branch in process_operand
    po = ctx.func(cls + ".process_operand")
    tested = set()
    for n in ast.walk(po.node):
        if isinstance(n, ast.Compare) and isinstance(n.ops[0], ast.In) and U(n.comparators[0]) == po.params()[1]:
            k = n.left
            if isinstance(k, ast.Attribute) and k.attr in gr.consts:
                tested.add(gr.consts[k.attr])
            elif isinstance(k, ast.Constant):
                tested.add(k.value)
    for k in sorted(op_tree):
        ctx.check(k in tested, "R4", "operand alternative %r is dispatched by process_operand" % k, po.where(),
                  "the grammar produces operands under the key %r but process_operand has no branch for it: the raw parse "
                  "dict is returned as operand" % k, po.qname, "dispatch " + k)
    return reads, op_tree


def _merge(dst, src):
    for k, v in src.items():
        dst.setdefault(k, {})
        _merge(dst[k], v)


# ------------------------------------------------------------------------------- R5 numeric conversion
def r5_conversions(ctx, cls, gr, reads, decimal_only_keys):
    ctx.rule("R5", "every token that may be hexadecimal is converted with base 0")
    c = ctx.repo.cls(cls)
    hexkeys = set()
    for key in gr.order:
        g = gr.env[key]
        if hasattr(g, "kind"):
            for name in ("value", "offset"):
                for n in find_named(g, name):
                    if may_be_hex(n):
                        hexkeys.add(name)
    ctx.check("value" in hexkeys, "R5", "result name 'value' is shared by the decimal and the hexadecimal number token", gr.func.where(),
              "the grammar no longer names hexadecimal numbers 'value'", gr.func.qname, "hex token name")
    sites = 0
    # conversion helpers of the class: `def h(self, literal, base=10): ... int(literal, base) ...` - a call of h converts its
    # argument with the base that is passed (or the default)
    wrappers = {}
    for mname, g_ in c.methods.items():
        prm = [p_ for p_ in g_.params() if p_ not in ("self", "cls")]
        for n in ast.walk(g_.node):
            if isinstance(n, ast.Call) and isinstance(n.func, ast.Name) and n.func.id == "int" and n.args and isinstance(n.args[0], ast.Name) \
                    and n.args[0].id in prm:
                b_ = C.arg_of(n, 1, "base")
                dflt = dict(zip(prm[len(prm) - len(g_.node.args.defaults):], g_.node.args.defaults))
                if b_ is None:
                    wrappers[mname] = (prm.index(n.args[0].id), n.args[0].id, None, 10)
                elif isinstance(b_, ast.Name) and b_.id in prm:
                    wrappers[mname] = (prm.index(n.args[0].id), n.args[0].id, (prm.index(b_.id), b_.id), C.const_num(dflt[b_.id]) if b_.id in dflt else None)
                elif C.const_num(b_) is not None:
                    wrappers[mname] = (prm.index(n.args[0].id), n.args[0].id, None, C.const_num(b_))
    for mname, f in c.methods.items():
        if not (mname.startswith("process_") or mname in ("normalize_imd", "resolve_range_list", "parse_instruction")):
            continue
        for n in ast.walk(f.node):
            wrapped = None
            if isinstance(n, ast.Call) and isinstance(n.func, ast.Attribute) and n.func.attr in wrappers and mname != n.func.attr \
                    and isinstance(n.func.value, ast.Name) and n.func.value.id in ("self", "cls", cls):
                wrapped = wrappers[n.func.attr]
            if wrapped is None and not (isinstance(n, ast.Call) and isinstance(n.func, ast.Name) and n.func.id == "int" and n.args):
                continue
            if wrapped is not None:
                li, lname, bprm, bdef = wrapped
                kw = {k.arg: k.value for k in n.keywords}
                arg = n.args[li] if li < len(n.args) else kw.get(lname)
                if arg is None:
                    continue
            else:
                arg = n.args[0]
            last = None
            cur = arg
            while isinstance(cur, ast.Subscript):
                if isinstance(cur.slice, ast.Constant) and isinstance(cur.slice.value, str):
                    last = cur.slice.value
                    break
                cur = cur.value
            if isinstance(arg, ast.Attribute) and arg.attr == "value":
                last = "value"
            if last is None and isinstance(arg, ast.Name):
                flow = C.flow_of(f)
                for o in flow.origin_text(arg):
                    m = re.search(r"\[['\"](\w+)['\"]\]$", o) or re.search(r"\.get\(['\"](\w+)['\"]", o)
                    if m:
                        last = m.group(1)
            if last is None:
                continue
            sites += 1
            if wrapped is not None:
                li, lname, bprm, bdef = wrapped
                base = None
                if bprm is not None:
                    base = n.args[bprm[0]] if bprm[0] < len(n.args) else {k.arg: k.value for k in n.keywords}.get(bprm[1])
                b = C.const_num(base) if base is not None else bdef
            else:
                base = C.arg_of(n, 1, "base")
                b = C.const_num(base) if base is not None else 10
            if last in hexkeys:
                if b == 0:
                    ctx.node_ok("R5", f, n, "int(<%s>, 0)" % last)
                else:
                    ctx.node_bad("R5", f, n, "`%s` converts a token named %r with base %s, but the grammar admits a "
                                 "hexadecimal number (0x..) in that slot: ValueError (or a wrong value) for operands written "
                                 "in hexadecimal" % (U(n), last, b))
            elif last in decimal_only_keys:
                ctx.node_ok("R5", f, n, "int(<%s>): decimal-only token" % last)
            else:
                ctx.node_ok("R5", f, n, "int(<%s>, base %s)" % (last, b))
    return sites


# ------------------------------------------------------------------------------- R6 trailing comment, whitespace
def r6_trailing(ctx, cls, gr):
    ctx.rule("R6", "instruction, label and directive grammars end with the optional comment; default whitespace handling")
    for key in ("self.instruction_parser", "self.label", "self.directive"):
        g = gr.get(key)
        top = g.kids[0] if g.kind == "group" and len(g.kids) == 1 else g
        last = top.kids[-1] if top.kind == "seq" and top.kids else top
        ok = last.kind == "opt" and last.kids and names_tree(last.kids[0]).keys() >= {gr.consts.get("comment_id", "comment")}
        ctx.check(ok, "R6", "%s ends with Optional(comment)" % key, gr.func.where(g.src) if g.src is not None else gr.func.where(),
                  "%s does not end with the optional trailing comment: a line with a trailing comment is rejected or "
                  "misclassified" % key, gr.func.qname, "%s trailing comment" % key)
    bad = [n for n in ast.walk(gr.func.node) if isinstance(n, ast.Call) and isinstance(n.func, ast.Attribute) and n.func.attr in (
        "leaveWhitespace", "leave_whitespace", "setDefaultWhitespaceChars", "set_default_whitespace_chars", "setWhitespaceChars",
        "set_whitespace_chars")]
    ctx.check(not bad, "R6", "no whitespace-sensitivity switch in the grammar", gr.func.where(),
              "whitespace handling is changed by %s: spacing around operands/separators would matter" % [U(b)[:50] for b in bad],
              gr.func.qname, "whitespace switches")
    # separators between operands are optional commas
    ip = gr.get("self.instruction_parser")
    seps = [k for k in ip.kids if k.kind == "opt" and k.kids and k.kids[0].kind == "suppress"]
    nops = len([k for k in names_tree(ip) if k.startswith("operand")])
    ctx.check(len(seps) >= nops - 1, "R6", "operands are separated by optional ',' (%d separators for %d operands)" % (len(seps), nops),
              gr.func.where(), "operand separators changed", gr.func.qname, "separators")


# ------------------------------------------------------------------------------- T terminal vocabulary
def _re_to_g(pattern):
    return pattern


def t_terminals(ctx, cls, gr):
    ctx.rule("T", "token vocabulary: every example token of the property's vocabulary is accepted by the sub-grammar's regular envelope")
    from .. import automata

    spec = _spec("grammar_terminals.json", cls)
    n = 0
    for var, examples in spec.items():
        if var not in gr.env or not hasattr(gr.env[var], "kind"):
            ctx.bad("T", "grammar variable %s" % var, gr.func.where(), "grammar variable %s no longer exists" % var, gr.func.qname,
                    "variable " + var)
            continue
        g = gr.env[var]
        nfa, start = automata.envelope(g)
        for ex in examples:
            n += 1
            ok = nfa.accepts(ex, start)
            ctx.check(ok, "T", "%s accepts %r" % (var, ex), gr.func.where(g.src) if g.src is not None else gr.func.where(),
                      "the sub-grammar `%s` (even in its regular over-approximation) rejects %r, a token of the vocabulary the "
                      "property promises to recover: lines containing it cannot be parsed as written" % (var, ex), gr.func.qname,
                      "%s rejects %r" % (var, ex))
    ctx.floor("T", "token examples", n, 60)


# ------------------------------------------------------------------------------- R7 presence tests
def _key_of_read(e):
    """Key K when `e` reads a string key: X['K'] or X.get('K'[, d])."""
    if isinstance(e, ast.Subscript) and isinstance(e.slice, ast.Constant) and isinstance(e.slice.value, str):
        return e.slice.value
    if (isinstance(e, ast.Call) and isinstance(e.func, ast.Attribute) and e.func.attr == "get" and e.args
            and isinstance(e.args[0], ast.Constant) and isinstance(e.args[0].value, str)):
        return e.args[0].value
    return None


def r7_presence(ctx, cls, rule="R7"):
    """A field that package code fills with a number (X['K'] = int(...)) can legitimately be 0; testing its presence by
    truthiness (`X.get('K') or None`, `v if v else None`) drops that value. Presence must be tested with `in` / `is None`."""
    ctx.rule(rule, "presence of an optional numeric field is tested with `in` / `is None`, never by truthiness (0 is a value)")
    funcs = [f for f in ctx.repo.all_funcs() if f.cls is not None and f.cls.name == cls]
    numeric = {}
    for f in funcs:
        for n in ast.walk(f.node):
            if isinstance(n, ast.Assign) and len(n.targets) == 1:
                k = _key_of_read(n.targets[0]) if isinstance(n.targets[0], ast.Subscript) else None
                v = n.value
                if k and (C.is_call_to(v, "int", "float") or C.const_num(v) is not None):
                    numeric.setdefault(k, "%s (%s)" % (U(n)[:60], f.where(n)))
    ctx.extra.setdefault("numeric_fields", {})[cls] = sorted(numeric)
    count = 0
    for f in funcs:
        ctx.touch(f)
        # locals that hold a raw read of a numeric key
        holders = {}
        for n in ast.walk(f.node):
            if isinstance(n, ast.Assign) and len(n.targets) == 1 and isinstance(n.targets[0], ast.Name):
                k = _key_of_read(n.value)
                if k in numeric:
                    holders.setdefault(n.targets[0].id, k)
        def key_in_truth_position(e):
            k = _key_of_read(e)
            if k in numeric:
                return k
            if isinstance(e, ast.Name) and e.id in holders and len(C.assigns_to(f.node, e.id)) == 1:
                return holders[e.id]
            if isinstance(e, ast.UnaryOp) and isinstance(e.op, ast.Not):
                return key_in_truth_position(e.operand)
            return None
        for n in ast.walk(f.node):
            tests = []
            if isinstance(n, ast.BoolOp):
                tests = n.values[:-1] if isinstance(n.op, ast.Or) else n.values[:-1]
            elif isinstance(n, (ast.IfExp, ast.If, ast.While)):
                t = n.test
                tests = t.values if isinstance(t, ast.BoolOp) else [t]
            for t in tests:
                k = key_in_truth_position(t)
                if k is None:
                    continue
                count += 1
                ctx.node_bad(rule, f, n, "`%s` tests the field '%s' by truthiness, but the package stores numbers in it (%s): "
                             "the legitimate value 0 is treated as absent and dropped from the operand" % (U(t), k, numeric[k]))
    for k in sorted(numeric):
        ctx.ok(rule, "field '%s' is never presence-tested by truthiness" % k, "", numeric[k])
    return len(numeric)


def r8_order(ctx, cls, gr, rule="R8"):
    """Order of alternatives. pyparsing's `^` takes the longest match and the FIRST listed among equally long ones; `|`
    takes the first alternative that matches at all. For every pair of alternatives of one alternation for which the
    envelopes show that the order can decide the result (a common word / a word of one that is a prefix of a word of
    the other), the order in the code must be the reviewed one of spec/grammar_order.json."""
    import json
    from .. import automata
    from ..report import VERIF
    ctx.rule(rule, "order-sensitive alternatives of the grammar are listed in the reviewed order")
    table = json.loads((VERIF / "spec" / "grammar_order.json").read_text()).get(cls, [])

    def split(c):
        name, _, rest = c.partition("<")
        return name, set(rest.rstrip(">").split())

    def sim(a, b):
        return len(a & b) / float(len(a | b)) if (a | b) else 1.0

    def fam(kind):
        return "tie" if kind == "tie" else "shadow"
    rel = automata.order_relations(gr)
    n = 0
    done = set()
    for (kind, a, b), (active, witness, var) in sorted(rel.items()):
        an, ap = split(a)
        bn, bp = split(b)
        key = (fam(kind), a, b)
        if key in done:
            continue
        done.add(key)
        n += 1
        best = None
        cands = [e for e in table if fam(e["kind"]) == fam(kind)
                 and {split(e["first"])[0], split(e["second"])[0]} == {an, bn}]
        if an != bn and len({(split(e["first"])[0], split(e["second"])[0]) for e in cands}) == 1:
            # the result names identify the pair
            def closeness(e):
                fp, sp = split(e["first"])[1], split(e["second"])[1]
                return sim(fp, ap) + sim(sp, bp) if split(e["first"])[0] == an else sim(fp, bp) + sim(sp, ap)
            e = max(cands, key=closeness)
            best = (2.0, "same" if split(e["first"])[0] == an else "flipped", e)
        else:
            # alternatives sharing a result name (hexadecimal / decimal `value`, the two `identifier` forms): the probe
            # strings their envelopes accept tell them apart
            for e in cands:
                fn, fp = split(e["first"])
                sn, sp = split(e["second"])
                same = sim(fp, ap) + sim(sp, bp) if (fn, sn) == (an, bn) else -1
                flipped = sim(fp, bp) + sim(sp, ap) if (fn, sn) == (bn, an) else -1
                score, orient = max((same, "same"), (flipped, "flipped"))
                if score > 1.2 and abs(same - flipped) >= 0.3 and (best is None or score > best[0]):
                    best = (score, orient, e)
        where = gr.func.where(gr.env[var].src) if getattr(gr.env.get(var), "src", None) is not None else gr.func.where()
        label = "%s: %s before %s" % (var, an, bn)
        if best is None:
            ctx.unknown(rule, label, where, "the alternatives %s and %s of `%s` are order-sensitive (%s: %r) and this pair is not in "
                        "the reviewed table" % (an, bn, var, kind, witness))
            continue
        _, orient, e = best
        if orient == "same":
            ctx.ok(rule, label + " (%s)" % fam(kind), where, e.get("reason", ""))
            continue
        fn = split(e["first"])[0]
        sn = split(e["second"])[0]
        detail = ("in `%s` the alternative %s is now listed before %s; the reviewed order is %s first: %s. With `%s` the first listed "
                  "alternative wins on inputs like %r (reviewed witness %r), so such operands are now returned as %s instead of %s"
                  % (var, an, bn, fn, e.get("reason", ""), "^" if fam(kind) == "tie" else "|", witness, e.get("witness"), an, bn))
        ctx.judge(False, bool(e.get("in_property")), rule, label, where, detail, gr.func.qname, "order %s / %s" % (fn, sn))
    ctx.floor(rule, "order-sensitive pairs of alternatives", n, 8)
    ctx.extra["order_sensitive_pairs"] = n
    return n
